// Reproducer (not part of any check; pointed out by a seeding agent, confirmed here): the groups of a cmap format 12
// subtable are used in file order. Unsorted groups give an unsorted coverage (pages appended in input order) on which
// the scanner's RuneSet.Contains (binary search) misses pages, and on which Lookup (bisection over the groups) misses
// runes that Iter enumerates; overlapping groups are enumerated twice with two different glyphs.
package main

import (
	"bytes"
	"fmt"
	"os"

	td "github.com/go-text/typesetting-utils/opentype"
	"github.com/go-text/typesetting/font"
	ot "github.com/go-text/typesetting/font/opentype"
	"github.com/go-text/typesetting/fontscan"
)

func replace(file string, tag string, edit func(old []byte) []byte) []byte {
	b, err := td.Files.ReadFile(file)
	if err != nil {
		fmt.Println(err)
		os.Exit(2)
	}
	ld, err := ot.NewLoader(bytes.NewReader(b))
	if err != nil {
		fmt.Println(err)
		os.Exit(2)
	}
	var tbs []ot.Table
	found := false
	for _, t := range ld.Tables() {
		raw, err := ld.RawTable(t)
		if err != nil {
			fmt.Println(err)
			os.Exit(2)
		}
		if t == ot.MustNewTag(tag) {
			raw = edit(raw)
			found = true
		}
		tbs = append(tbs, ot.Table{Tag: t, Content: raw})
	}
	if !found {
		tbs = append(tbs, ot.Table{Tag: ot.MustNewTag(tag), Content: edit(nil)})
	}
	return ot.WriteTTF(tbs)
}

func u32(vs ...uint32) []byte {
	var out []byte
	for _, v := range vs {
		out = append(out, byte(v>>24), byte(v>>16), byte(v>>8), byte(v))
	}
	return out
}

// a cmap table with one (3,10) format 12 subtable holding the given groups (start, end, glyph)
func cmap12(groups ...uint32) []byte {
	sub := []byte{0, 12, 0, 0}
	sub = append(sub, u32(uint32(16+len(groups)*4), 0, uint32(len(groups)/3))...)
	sub = append(sub, u32(groups...)...)
	return append([]byte{0, 0, 0, 1, 0, 3, 0, 10, 0, 0, 0, 12}, sub...)
}

func main() {
	bad := false
	// two groups in decreasing order: 'a'..'c' then 'A'..'C'
	file := replace("common/Roboto-BoldItalic.ttf", "cmap", func([]byte) []byte { return cmap12(0x61, 0x63, 5, 0x41, 0x43, 8) })
	fnt, err := font.ParseTTF(bytes.NewReader(file))
	if err != nil {
		fmt.Println("ok: rejected", err)
		return
	}
	seen := map[rune]int{}
	for it := fnt.Cmap.Iter(); it.Next(); {
		r, g := it.Char()
		seen[r]++
		if got, ok := fnt.Cmap.Lookup(r); !ok || got != g {
			fmt.Printf("DEFECT: Iter yields (%q, %d) but Lookup answers (%d, %v)\n", r, g, got, ok)
			bad = true
		}
	}
	// the coverage recorded by the font map: the crafted face has 'A' and is first in the query
	orig, _ := td.Files.ReadFile("common/DejaVuSans.ttf")
	real, _ := font.ParseTTF(bytes.NewReader(orig))
	fm := fontscan.NewFontMap(nil)
	fm.AddFace(fnt, fontscan.Location{File: "crafted"}, font.Description{Family: "crafted"})
	fm.AddFace(real, fontscan.Location{File: "real"}, font.Description{Family: "real"})
	fm.SetQuery(fontscan.Query{Families: []string{"crafted", "real"}})
	for _, r := range "aA" {
		if _, has := fnt.NominalGlyph(r); has && fm.ResolveFace(r) != fnt {
			fmt.Printf("DEFECT: the first family has a glyph for %q but its recorded coverage misses it: another face is resolved\n", r)
			bad = true
		}
	}
	if bad {
		os.Exit(1)
	}
	fmt.Println("ok:", len(seen), "runes, Iter and Lookup agree")
}
