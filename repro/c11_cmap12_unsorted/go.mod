module c11_cmap12_unsorted

go 1.19

require (
	github.com/go-text/typesetting v0.0.0
	github.com/go-text/typesetting-utils v0.0.0-20241103174707-87a29e9e6066
)

require golang.org/x/image v0.23.0 // indirect

replace github.com/go-text/typesetting => /repo
