// Reproducer (not part of any check; pointed out by a seeding agent on a real font of the HarfBuzz corpus
// (Simple-Graphite-Font.ttf), rebuilt here on a synthetic table): for a cmap format 4 segment that goes through the glyph
// index array, Lookup treats the entry 0 as "no glyph" and adds idDelta modulo 65536; Iter yields the entry 0 as a mapped
// rune, adds idDelta without wrapping, and RuneRanges (what the font scanner uses for its coverage) lists the whole
// segment. Point lookup, enumeration and coverage are three different sets.
package main

import (
	"bytes"
	"fmt"
	"os"

	td "github.com/go-text/typesetting-utils/opentype"
	"github.com/go-text/typesetting/font"
	ot "github.com/go-text/typesetting/font/opentype"
)

func replace(file string, tag string, edit func(old []byte) []byte) []byte {
	b, err := td.Files.ReadFile(file)
	if err != nil {
		fmt.Println(err)
		os.Exit(2)
	}
	ld, err := ot.NewLoader(bytes.NewReader(b))
	if err != nil {
		fmt.Println(err)
		os.Exit(2)
	}
	var tbs []ot.Table
	found := false
	for _, t := range ld.Tables() {
		raw, err := ld.RawTable(t)
		if err != nil {
			fmt.Println(err)
			os.Exit(2)
		}
		if t == ot.MustNewTag(tag) {
			raw = edit(raw)
			found = true
		}
		tbs = append(tbs, ot.Table{Tag: t, Content: raw})
	}
	if !found {
		tbs = append(tbs, ot.Table{Tag: ot.MustNewTag(tag), Content: edit(nil)})
	}
	return ot.WriteTTF(tbs)
}

func u16(vs ...uint16) []byte {
	var out []byte
	for _, v := range vs {
		out = append(out, byte(v>>8), byte(v))
	}
	return out
}

func check(name string, cmap []byte) (bad bool) {
	file := replace("common/Roboto-BoldItalic.ttf", "cmap", func([]byte) []byte { return cmap })
	fnt, err := font.ParseTTF(bytes.NewReader(file))
	if err != nil {
		fmt.Println("ok", name, ": rejected:", err)
		return false
	}
	enumerated := map[rune]font.GID{}
	n := 0
	for it := fnt.Cmap.Iter(); it.Next(); {
		r, g := it.Char()
		enumerated[r] = g
		if lg, ok := fnt.Cmap.Lookup(r); !ok || lg != g {
			if n++; n <= 3 {
				fmt.Printf("DEFECT %s: Iter yields U+%04X -> %d, Lookup says (%d, %v)\n", name, r, g, lg, ok)
			}
			bad = true
		}
	}
	if n > 3 {
		fmt.Printf("DEFECT %s: ... %d such runes\n", name, n)
	}
	if rr, ok := fnt.Cmap.(font.CmapRuneRanger); ok {
		for _, rg := range rr.RuneRanges(nil) {
			for r := rg[0]; r <= rg[1] && r < 0xFFFF; r++ {
				if _, ok := fnt.Cmap.Lookup(r); !ok {
					fmt.Printf("DEFECT %s: RuneRanges covers U+%04X, Lookup has no glyph for it\n", name, r)
					bad = true
				}
			}
		}
	}
	for r := rune(0); r < 0xFFFF; r++ {
		if g, ok := fnt.Cmap.Lookup(r); ok {
			if eg, has := enumerated[r]; !has || eg != g {
				fmt.Printf("DEFECT %s: Lookup maps U+%04X -> %d, Iter says (%d, %v)\n", name, r, g, eg, has)
				bad = true
			}
		}
	}
	if !bad {
		fmt.Println("ok", name, ": Lookup, Iter and RuneRanges agree on", len(enumerated), "runes")
	}
	return bad
}

func table(endCode, startCode, idDelta, idRangeOffset [2]uint16, glyphs ...uint16) []byte {
	sub := u16(4, 0, 0, 4 /* segCountX2 */, 4, 1, 0)
	sub = append(sub, u16(endCode[:]...)...)
	sub = append(sub, u16(0)...) // reservedPad
	sub = append(sub, u16(startCode[:]...)...)
	sub = append(sub, u16(idDelta[:]...)...)
	sub = append(sub, u16(idRangeOffset[:]...)...)
	sub = append(sub, u16(glyphs...)...)
	sub[2], sub[3] = byte(len(sub)>>8), byte(len(sub))
	return append(u16(0, 1, 3, 1, 0, 12), sub...)
}

func main() {
	bad := false
	// 'A'..'D' through the glyph index array {5, 0, 0xFFF0, 7} with idDelta 0x20, then the final 0xFFFF segment
	bad = check("zero entries and wrap-around", table([2]uint16{0x44, 0xFFFF}, [2]uint16{0x41, 0xFFFF}, [2]uint16{0x20, 1}, [2]uint16{4, 0}, 5, 0, 0xFFF0, 7)) || bad
	// a delta segment whose end is before its start: Lookup never matches it, the iterator counted up to end-start in uint16
	bad = check("inverted delta segment", table([2]uint16{0x41, 0xFFFF}, [2]uint16{0x44, 0xFFFF}, [2]uint16{0x20, 1}, [2]uint16{0, 0})) || bad
	if bad {
		os.Exit(1)
	}
}
