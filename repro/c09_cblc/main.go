// Reproducer (not part of any check): CBLC.parseIndexSubTables slices src[start+additionalOffsetToIndexSubtable:] where
// the additional offset is a uint32 of the file that is compared with nothing (only `start` is tested), so an index
// subtable record pointing past the end of the table makes font.ParseTTF panic.
package main

import (
	"bytes"
	"encoding/binary"
	"fmt"
	"os"

	td "github.com/go-text/typesetting-utils/opentype"
	"github.com/go-text/typesetting/font"
	ot "github.com/go-text/typesetting/font/opentype"
)

func replace(file string, tag string, edit func(old []byte) []byte) []byte {
	b, err := td.Files.ReadFile(file)
	if err != nil {
		fmt.Println(err)
		os.Exit(2)
	}
	ld, err := ot.NewLoader(bytes.NewReader(b))
	if err != nil {
		fmt.Println(err)
		os.Exit(2)
	}
	var tbs []ot.Table
	found := false
	for _, t := range ld.Tables() {
		raw, err := ld.RawTable(t)
		if err != nil {
			fmt.Println(err)
			os.Exit(2)
		}
		if t == ot.MustNewTag(tag) {
			raw = edit(raw)
			found = true
		}
		tbs = append(tbs, ot.Table{Tag: t, Content: raw})
	}
	if !found {
		tbs = append(tbs, ot.Table{Tag: ot.MustNewTag(tag), Content: edit(nil)})
	}
	return ot.WriteTTF(tbs)
}
func try(name string, file []byte) (bad bool) {
	defer func() {
		if r := recover(); r != nil {
			fmt.Printf("DEFECT %s: loading the file panics: %v\n", name, r)
			bad = true
		}
	}()
	_, err := font.ParseTTF(bytes.NewReader(file))
	fmt.Printf("ok %s, error: %v\n", name, err)
	return false
}

func main() {
	file := replace("bitmap/NotoColorEmoji.ttf", "CBLC", func(old []byte) []byte {
		out := append([]byte(nil), old...)
		// header: major, minor, numSizes; first BitmapSize record starts with indexSubTableArrayOffset
		arr := binary.BigEndian.Uint32(out[8:])
		// IndexSubTableArray record: firstGlyph, lastGlyph, additionalOffsetToIndexSubtable
		binary.BigEndian.PutUint32(out[arr+4:], 0x7FFFFFF0)
		return out
	})
	if try("CBLC additional offset", file) {
		os.Exit(1)
	}
}
