// Reproducer (not part of any check): the number of glyphs of a morx insertion subtable is computed from the largest
// index + count found in its entries, with the sum taken in uint16: an entry with index 0xFFFE and a count of 2 wraps to
// 0, so the table is accepted with an empty Insertions array, and driverContextInsertion.transition slices
// insertionAction[0xFFFE:] when that entry fires.
package main

import (
	"bytes"
	"encoding/binary"
	"fmt"
	"os"

	td "github.com/go-text/typesetting-utils/opentype"
	"github.com/go-text/typesetting/font"
	ot "github.com/go-text/typesetting/font/opentype"
	"github.com/go-text/typesetting/harfbuzz"
	"github.com/go-text/typesetting/language"
)

func replace(file string, tag string, edit func(old []byte) []byte) []byte {
	b, err := td.Files.ReadFile(file)
	if err != nil {
		fmt.Println(err)
		os.Exit(2)
	}
	ld, err := ot.NewLoader(bytes.NewReader(b))
	if err != nil {
		fmt.Println(err)
		os.Exit(2)
	}
	var tbs []ot.Table
	found := false
	for _, t := range ld.Tables() {
		raw, err := ld.RawTable(t)
		if err != nil {
			fmt.Println(err)
			os.Exit(2)
		}
		if t == ot.MustNewTag(tag) {
			raw = edit(raw)
			found = true
		}
		tbs = append(tbs, ot.Table{Tag: t, Content: raw})
	}
	if !found {
		tbs = append(tbs, ot.Table{Tag: ot.MustNewTag(tag), Content: edit(nil)})
	}
	return ot.WriteTTF(tbs)
}

func main() {
	bad := false
	for _, name := range []string{"Thirtyone", "Thirtytwo", "Thirtythree", "Thirtyfive", "Thirtysix", "Twentynine"} {
		file := replace("morx/"+name+".ttf", "morx", func(old []byte) []byte {
			b := append([]byte(nil), old...)
			const sub = 48 // first subtable of the first chain (an insertion subtable in these fonts)
			st := sub + 12 // extended state table header
			entries := st + int(binary.BigEndian.Uint32(b[st+12:]))
			insertions := st + int(binary.BigEndian.Uint32(b[st+16:]))
			for e := entries; e+8 <= insertions && e+8 <= len(b); e += 8 {
				if binary.BigEndian.Uint16(b[e+6:]) != 0xFFFF { // markedInsertIndex
					binary.BigEndian.PutUint16(b[e+6:], 0xFFFE)
					binary.BigEndian.PutUint16(b[e+2:], binary.BigEndian.Uint16(b[e+2:])&^31|2)
				}
				if binary.BigEndian.Uint16(b[e+4:]) != 0xFFFF { // currentInsertIndex
					binary.BigEndian.PutUint16(b[e+4:], 0xFFFE)
					binary.BigEndian.PutUint16(b[e+2:], binary.BigEndian.Uint16(b[e+2:])&^(31<<5)|2<<5)
				}
			}
			return b
		})
		face, err := font.ParseTTF(bytes.NewReader(file))
		if err != nil || len(face.Morx) == 0 {
			fmt.Println("ok", name, ": the table was rejected", err)
			continue
		}
		func() {
			defer func() {
				if r := recover(); r != nil {
					fmt.Printf("DEFECT %s: the file loads and shaping panics: %v\n", name, r)
					bad = true
				}
			}()
			for _, text := range []string{"ABCDE", "AABBCCDDEE", "ABCDEABCDE", "EDCBA", "abcde"} {
				buf := harfbuzz.NewBuffer()
				buf.AddRunes([]rune(text), 0, -1)
				buf.Props.Direction = harfbuzz.LeftToRight
				buf.Props.Script = language.Latin
				buf.Props.Language = "en"
				buf.Shape(harfbuzz.NewFont(face), nil)
			}
			fmt.Println("ok", name)
		}()
	}
	if bad {
		os.Exit(1)
	}
}
