// Reproducer (not part of any check):
//
//	hmtx:   Hmtx.Advance returns Metrics[len(Metrics)-1] for glyphs past the long metrics; with numberOfHMetrics = 0 in
//	        hhea (and side bearings for every glyph) the slice is empty and every advance query panics;
//	device: parseDeviceTable computes EndSize-StartSize+1 in uint16: for the sizes 0..65535 the length wraps to 0, the
//	        table is accepted with no values, and GetDelta indexes the empty slice for any ppem.
package main

import (
	"bytes"
	"encoding/binary"
	"fmt"
	"os"

	td "github.com/go-text/typesetting-utils/opentype"
	"github.com/go-text/typesetting/font"
	ot "github.com/go-text/typesetting/font/opentype"
	"github.com/go-text/typesetting/font/opentype/tables"
)

func replace(file string, tag string, edit func(old []byte) []byte) []byte {
	b, err := td.Files.ReadFile(file)
	if err != nil {
		fmt.Println(err)
		os.Exit(2)
	}
	ld, err := ot.NewLoader(bytes.NewReader(b))
	if err != nil {
		fmt.Println(err)
		os.Exit(2)
	}
	var tbs []ot.Table
	found := false
	for _, t := range ld.Tables() {
		raw, err := ld.RawTable(t)
		if err != nil {
			fmt.Println(err)
			os.Exit(2)
		}
		if t == ot.MustNewTag(tag) {
			raw = edit(raw)
			found = true
		}
		tbs = append(tbs, ot.Table{Tag: t, Content: raw})
	}
	if !found {
		tbs = append(tbs, ot.Table{Tag: ot.MustNewTag(tag), Content: edit(nil)})
	}
	return ot.WriteTTF(tbs)
}

func main() {
	bad := false
	func() {
		file := replace("common/Roboto-BoldItalic.ttf", "hhea", func(old []byte) []byte {
			out := append([]byte(nil), old...)
			binary.BigEndian.PutUint16(out[34:], 0) // numberOfHMetrics
			return out
		})
		fnt, err := font.ParseTTF(bytes.NewReader(file))
		if err != nil {
			fmt.Println("ok: rejected", err)
			return
		}
		defer func() {
			if r := recover(); r != nil {
				fmt.Println("DEFECT hmtx: the file loads and HorizontalAdvance panics:", r)
				bad = true
			}
		}()
		fmt.Println("ok hmtx", font.NewFace(fnt.Font).HorizontalAdvance(3))
	}()
	func() {
		// anchor format 3 at offset 0: x, y, xDeviceOffset = 10, yDeviceOffset = 0; device: startSize 0, endSize 65535, format 1
		src := []byte{0, 3, 0, 0, 0, 0, 0, 10, 0, 0, 0, 0, 0xFF, 0xFF, 0, 1, 0, 0}
		a, _, err := tables.ParseAnchor(src)
		if err != nil {
			fmt.Println("ok: rejected", err)
			return
		}
		dev, isHinting := a.(tables.AnchorFormat3).XDevice.(tables.DeviceHinting)
		if !isHinting {
			fmt.Println("unexpected device", a)
			os.Exit(2)
		}
		defer func() {
			if r := recover(); r != nil {
				fmt.Println("DEFECT device: the anchor is accepted and GetDelta panics:", r)
				bad = true
			}
		}()
		fmt.Println("ok device", dev.GetDelta(12, 64))
	}()
	if bad {
		os.Exit(1)
	}
}
