// Reproducer (not part of any check): ParseGlyf slices the glyf table with src[loca[i]:loca[i+1]]; the loca entries come
// from the file and are compared neither with each other nor with the length of the glyf table, so a loca table with a
// decreasing pair, or an entry past the end of glyf, makes font.ParseTTF panic.
package main

import (
	"bytes"
	"encoding/binary"
	"fmt"
	"os"

	td "github.com/go-text/typesetting-utils/opentype"
	"github.com/go-text/typesetting/font"
	ot "github.com/go-text/typesetting/font/opentype"
)

func replace(file string, tag string, edit func(old []byte) []byte) []byte {
	b, err := td.Files.ReadFile(file)
	if err != nil {
		fmt.Println(err)
		os.Exit(2)
	}
	ld, err := ot.NewLoader(bytes.NewReader(b))
	if err != nil {
		fmt.Println(err)
		os.Exit(2)
	}
	var tbs []ot.Table
	found := false
	for _, t := range ld.Tables() {
		raw, err := ld.RawTable(t)
		if err != nil {
			fmt.Println(err)
			os.Exit(2)
		}
		if t == ot.MustNewTag(tag) {
			raw = edit(raw)
			found = true
		}
		tbs = append(tbs, ot.Table{Tag: t, Content: raw})
	}
	if !found {
		tbs = append(tbs, ot.Table{Tag: ot.MustNewTag(tag), Content: edit(nil)})
	}
	return ot.WriteTTF(tbs)
}
func try(name string, file []byte) (bad bool) {
	defer func() {
		if r := recover(); r != nil {
			fmt.Printf("DEFECT %s: loading the file panics: %v\n", name, r)
			bad = true
		}
	}()
	_, err := font.ParseTTF(bytes.NewReader(file))
	fmt.Printf("ok %s, error: %v\n", name, err)
	return false
}

func main() {
	bad := false
	// Roboto has a long loca: entry 5 moved past the end of glyf
	bad = try("loca entry past the end of glyf", replace("common/Roboto-BoldItalic.ttf", "loca", func(old []byte) []byte {
		out := append([]byte(nil), old...)
		if binary.BigEndian.Uint32(out[4*5:]) == 2*uint32(binary.BigEndian.Uint16(out[2*5:])) {
			fmt.Println("unexpected short loca")
			os.Exit(2)
		}
		binary.BigEndian.PutUint32(out[4*5:], 0x7FFFFFF0)
		return out
	})) || bad
	bad = try("decreasing loca entries", replace("common/Roboto-BoldItalic.ttf", "loca", func(old []byte) []byte {
		out := append([]byte(nil), old...)
		binary.BigEndian.PutUint32(out[4*5:], 0)
		return out
	})) || bad
	if bad {
		os.Exit(1)
	}
}
