// Reproducer (not part of any check) for two incomplete cache keys:
//  1. shaping.HarfbuzzShaper caches harfbuzz.Font by *font.Font although the cached value captures the *font.Face:
//     a second face of the same variable font (other variations) is shaped with the first face's instance.
//  2. harfbuzz.Buffer's plan cache compares props and user features but not the feature-variation indices
//     computed from the face's coordinates: after SetVariations on the same face the stale plan is reused.
package main

import (
	"bytes"
	"fmt"
	"os"
	"reflect"

	td "github.com/go-text/typesetting-utils/opentype"
	"github.com/go-text/typesetting/di"
	"github.com/go-text/typesetting/font"
	ot "github.com/go-text/typesetting/font/opentype"
	"github.com/go-text/typesetting/language"
	"github.com/go-text/typesetting/shaping"
	"golang.org/x/image/math/fixed"
)

func input(face *font.Face, text string) shaping.Input {
	return shaping.Input{Text: []rune(text), RunStart: 0, RunEnd: len([]rune(text)), Direction: di.DirectionLTR, Face: face,
		Size: fixed.I(20), Script: language.Latin, Language: language.NewLanguage("en")}
}

func adv(o shaping.Output) []fixed.Int26_6 {
	var a []fixed.Int26_6
	for _, g := range o.Glyphs {
		a = append(a, g.XAdvance, fixed.Int26_6(g.GlyphID))
	}
	return a
}

func main() {
	bad := 0
	for _, file := range []string{"common/Commissioner-VF.ttf", "common/Mada-VF.ttf", "common/Estedad-VF.ttf"} {
		b, err := td.Files.ReadFile(file)
		if err != nil {
			continue
		}
		f1, err := font.ParseTTF(bytes.NewReader(b))
		if err != nil {
			continue
		}
		f2 := font.NewFace(f1.Font)
		vars := []font.Variation{{Tag: ot.MustNewTag("wght"), Value: 900}, {Tag: ot.MustNewTag("wdth"), Value: 150}, {Tag: ot.MustNewTag("FLAR"), Value: 100}}
		f2.SetVariations(vars)
		if len(f2.Coords()) == 0 {
			continue
		}
		text := "Hamburgefonstiv fi 1/2"

		// 1. font cache
		var fresh shaping.HarfbuzzShaper
		want := adv(fresh.Shape(input(f2, text)))
		var used shaping.HarfbuzzShaper
		used.SetFontCacheSize(4)
		used.Shape(input(f1, text))
		got := adv(used.Shape(input(f2, text)))
		if !reflect.DeepEqual(want, got) {
			fmt.Printf("DEFECT 1 (%s): a used shaper with the font cache enabled shapes the second face differently from a fresh shaper\n", file)
			bad++
		}

		// 2. plan cache: same face object, variations changed between two calls
		f3 := font.NewFace(f1.Font)
		var s3 shaping.HarfbuzzShaper
		s3.Shape(input(f3, text))
		f3.SetVariations(vars)
		got3 := fmt.Sprint(s3.Shape(input(f3, text)).Glyphs)
		var s4 shaping.HarfbuzzShaper
		want3 := fmt.Sprint(s4.Shape(input(f3, text)).Glyphs)
		if got3 != want3 {
			fmt.Printf("DEFECT 2 (%s): shaping after SetVariations on the same face differs from a fresh shaper\n", file)
			bad++
		}
	}
	fmt.Println("defects:", bad)
	if bad > 0 {
		os.Exit(1)
	}
}
