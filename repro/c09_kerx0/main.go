// Reproducer (not part of any check): for a kerx format 0 subtable with tuples, KerxData0.parseEnd interprets each pair
// value as an offset. The length test converts the int16 value with uint16(), the slice expression does not, so a value
// with the high bit set passes the test (in a subtable of at least 32 KiB) and src[pair.Value:] has a negative bound.
package main

import (
	"bytes"
	"encoding/binary"
	"fmt"
	"os"

	td "github.com/go-text/typesetting-utils/opentype"
	"github.com/go-text/typesetting/font"
	ot "github.com/go-text/typesetting/font/opentype"
)

func replace(file string, tag string, edit func(old []byte) []byte) []byte {
	b, err := td.Files.ReadFile(file)
	if err != nil {
		fmt.Println(err)
		os.Exit(2)
	}
	ld, err := ot.NewLoader(bytes.NewReader(b))
	if err != nil {
		fmt.Println(err)
		os.Exit(2)
	}
	var tbs []ot.Table
	found := false
	for _, t := range ld.Tables() {
		raw, err := ld.RawTable(t)
		if err != nil {
			fmt.Println(err)
			os.Exit(2)
		}
		if t == ot.MustNewTag(tag) {
			raw = edit(raw)
			found = true
		}
		tbs = append(tbs, ot.Table{Tag: t, Content: raw})
	}
	if !found {
		tbs = append(tbs, ot.Table{Tag: ot.MustNewTag(tag), Content: edit(nil)})
	}
	return ot.WriteTTF(tbs)
}
func try(name string, file []byte) (bad bool) {
	defer func() {
		if r := recover(); r != nil {
			fmt.Printf("DEFECT %s: loading the file panics: %v\n", name, r)
			bad = true
		}
	}()
	_, err := font.ParseTTF(bytes.NewReader(file))
	fmt.Printf("ok %s, error: %v\n", name, err)
	return false
}

func main() {
	kerx := make([]byte, 8+12+40000)
	binary.BigEndian.PutUint16(kerx[0:], 2)                // version
	binary.BigEndian.PutUint32(kerx[4:], 1)                // one subtable
	binary.BigEndian.PutUint32(kerx[8:], uint32(12+40000)) // subtable length
	kerx[8+7] = 0                                          // format 0
	binary.BigEndian.PutUint32(kerx[8+8:], 1)              // tupleCount
	binary.BigEndian.PutUint32(kerx[8+12:], 1)             // nPairs
	binary.BigEndian.PutUint16(kerx[8+12+16+4:], 0x8000)   // value of the pair (left = right = 0)
	if try("kerx format 0", replace("common/Roboto-BoldItalic.ttf", "kerx", func([]byte) []byte { return kerx })) {
		os.Exit(1)
	}
}
