// Reproducer (not part of any check): the offsets of GDEF MarkGlyphSets may be NULL; the generated parser leaves the
// corresponding Coverage nil and matchPropertiesMark calls Index on it for a lookup using that mark filtering set.
// This program zeroes every offset of the MarkGlyphSets table of a real font; the font loads and Shape panics.
package main

import (
	"bytes"
	"encoding/binary"
	"fmt"
	"os"

	td "github.com/go-text/typesetting-utils/opentype"
	"github.com/go-text/typesetting/font"
	"github.com/go-text/typesetting/harfbuzz"
	"github.com/go-text/typesetting/language"
)

func main() {
	b, err := td.Files.ReadFile("common/NotoSansArabic.ttf")
	if err != nil {
		fmt.Println(err)
		os.Exit(2)
	}
	b = append([]byte(nil), b...)
	var off int
	for i, n := 0, int(binary.BigEndian.Uint16(b[4:])); i < n; i++ {
		rec := b[12+16*i:]
		if string(rec[:4]) == "GDEF" {
			off = int(binary.BigEndian.Uint32(rec[8:]))
		}
	}
	gdef := b[off:]
	if v := binary.BigEndian.Uint32(gdef); v < 0x00010002 {
		fmt.Println("GDEF version without mark glyph sets", v)
		os.Exit(2)
	}
	sets := gdef[binary.BigEndian.Uint16(gdef[12:]):]
	n := int(binary.BigEndian.Uint16(sets[2:]))
	fmt.Println("mark glyph sets:", n)
	for i := 0; i < n; i++ {
		binary.BigEndian.PutUint32(sets[4+4*i:], 0)
	}
	ft, err := font.ParseTTF(bytes.NewReader(b))
	if err != nil {
		fmt.Println("ok: rejected:", err)
		return
	}
	defer func() {
		if r := recover(); r != nil {
			fmt.Println("DEFECT: the font loads and shaping panics:", r)
			os.Exit(1)
		}
	}()
	buf := harfbuzz.NewBuffer()
	buf.AddRunes([]rune("بِسْمِ ٱللَّٰهِ ٱلرَّحْمَٰنِ"), 0, -1)
	buf.Props.Direction = harfbuzz.RightToLeft
	buf.Props.Script = language.Arabic
	buf.Shape(harfbuzz.NewFont(ft), nil)
	fmt.Println("ok: shaped", len(buf.Info), "glyphs")
}
