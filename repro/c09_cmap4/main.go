// Reproducer (not part of any check): for a cmap format 4 segment with a non-zero idRangeOffset, newCmap4 computes
// indexStart = idRangeOffset/2 + i - segCount and tests only the upper end of the glyph index array. An idRangeOffset that
// points before the array (here 2 in the first of two segments: indexStart = -1) passes the test and
// GlyphIDArray[2*index:] is sliced with a negative bound.
package main

import (
	"bytes"
	"fmt"
	"os"

	td "github.com/go-text/typesetting-utils/opentype"
	"github.com/go-text/typesetting/font"
	ot "github.com/go-text/typesetting/font/opentype"
)

func replace(file string, tag string, edit func(old []byte) []byte) []byte {
	b, err := td.Files.ReadFile(file)
	if err != nil {
		fmt.Println(err)
		os.Exit(2)
	}
	ld, err := ot.NewLoader(bytes.NewReader(b))
	if err != nil {
		fmt.Println(err)
		os.Exit(2)
	}
	var tbs []ot.Table
	found := false
	for _, t := range ld.Tables() {
		raw, err := ld.RawTable(t)
		if err != nil {
			fmt.Println(err)
			os.Exit(2)
		}
		if t == ot.MustNewTag(tag) {
			raw = edit(raw)
			found = true
		}
		tbs = append(tbs, ot.Table{Tag: t, Content: raw})
	}
	if !found {
		tbs = append(tbs, ot.Table{Tag: ot.MustNewTag(tag), Content: edit(nil)})
	}
	return ot.WriteTTF(tbs)
}
func try(name string, file []byte) (bad bool) {
	defer func() {
		if r := recover(); r != nil {
			fmt.Printf("DEFECT %s: loading the file panics: %v\n", name, r)
			bad = true
		}
	}()
	_, err := font.ParseTTF(bytes.NewReader(file))
	fmt.Printf("ok %s, error: %v\n", name, err)
	return false
}

func u16(vs ...uint16) []byte {
	var out []byte
	for _, v := range vs {
		out = append(out, byte(v>>8), byte(v))
	}
	return out
}

func main() {
	sub := u16(4, 0 /* length, patched below */, 0, 4 /* segCountX2 */, 4, 1, 0)
	sub = append(sub, u16(0x41, 0xFFFF)...) // endCode
	sub = append(sub, u16(0)...)            // reservedPad
	sub = append(sub, u16(0x41, 0xFFFF)...) // startCode
	sub = append(sub, u16(0, 1)...)         // idDelta
	sub = append(sub, u16(2, 0)...)         // idRangeOffset: the first one points at the second idRangeOffset, before the array
	sub = append(sub, u16(5, 6)...)         // glyphIdArray
	sub[2], sub[3] = byte(len(sub)>>8), byte(len(sub))
	cmap := append(u16(0, 1, 3, 1, 0, 12), sub...)
	bad := try("cmap format 4", replace("common/Roboto-BoldItalic.ttf", "cmap", func([]byte) []byte { return cmap }))

	// second defect: the number of glyph indices of a segment is end-start+1 computed in uint16: for the single segment
	// 0..0xFFFF it wraps to 0, the (non nil, empty) index list is accepted and every Lookup indexes it
	sub = u16(4, 0, 0, 2 /* segCountX2 */, 2, 0, 0)
	sub = append(sub, u16(0xFFFF)...) // endCode
	sub = append(sub, u16(0)...)      // reservedPad
	sub = append(sub, u16(0)...)      // startCode
	sub = append(sub, u16(0)...)      // idDelta
	sub = append(sub, u16(2)...)      // idRangeOffset: the glyph index array follows
	sub = append(sub, u16(5, 6)...)   // glyphIdArray
	sub[2], sub[3] = byte(len(sub)>>8), byte(len(sub))
	cmap2 := append(u16(0, 1, 3, 1, 0, 12), sub...)
	func() {
		file := replace("common/Roboto-BoldItalic.ttf", "cmap", func([]byte) []byte { return cmap2 })
		fnt, err := font.ParseTTF(bytes.NewReader(file))
		if err != nil {
			fmt.Println("ok cmap format 4 full range, error:", err)
			return
		}
		defer func() {
			if r := recover(); r != nil {
				fmt.Println("DEFECT cmap format 4 full range: the file loads and NominalGlyph panics:", r)
				bad = true
			}
		}()
		g, ok := fnt.NominalGlyph('a')
		fmt.Println("ok cmap format 4 full range", g, ok)
	}()
	if bad {
		os.Exit(1)
	}
}
