// Reproducer (not part of any check): a morx chain whose feature table contains a LanguageTag feature (type 39) with a
// non-zero setting makes the AAT map builder call Ltag.Language(setting-1); the accessor indexes tagRange and slices
// stringData with values taken from the file without any bound test, so a font without (or with a short) 'ltag' table
// panics while shaping. The feature record is 12 bytes of the morx table; here it is set on the parsed font.
package main

import (
	"bytes"
	"fmt"
	"os"

	td "github.com/go-text/typesetting-utils/opentype"
	"github.com/go-text/typesetting/font"
	"github.com/go-text/typesetting/font/opentype/tables"
	"github.com/go-text/typesetting/harfbuzz"
	"github.com/go-text/typesetting/language"
)

func main() {
	b, err := td.Files.ReadFile("morx/One.ttf")
	if err != nil {
		fmt.Println(err)
		os.Exit(2)
	}
	face, err := font.ParseTTF(bytes.NewReader(b))
	if err != nil || len(face.Morx) == 0 {
		fmt.Println("no morx font", err)
		os.Exit(2)
	}
	face.Morx[0].Features = append(face.Morx[0].Features, tables.AATFeature{FeatureType: 39, FeatureSetting: 3, EnableFlags: 1, DisableFlags: ^uint32(0)})
	defer func() {
		if r := recover(); r != nil {
			fmt.Println("DEFECT: shaping panics:", r)
			os.Exit(1)
		}
	}()
	buf := harfbuzz.NewBuffer()
	buf.AddRunes([]rune("abc"), 0, -1)
	buf.Props.Direction = harfbuzz.LeftToRight
	buf.Props.Script = language.Latin
	buf.Props.Language = "en"
	buf.Shape(harfbuzz.NewFont(face), nil)
	fmt.Println("ok", len(buf.Info))
}
