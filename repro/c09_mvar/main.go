// Reproducer (not part of any check): MVAR.parseValueRecords checks that the data holds valueRecordSize*valueRecordCount
// bytes and then reads an 8-byte record at every multiple of valueRecordSize. Nothing requires valueRecordSize >= 8, so a
// table announcing one record of size 0 (or a last record shorter than 8 bytes) passes the length test and the
// fixed-size record reader panics. The table is read by font.NewFont for every variable font (one with an fvar table).
package main

import (
	"bytes"
	"fmt"
	"os"

	td "github.com/go-text/typesetting-utils/opentype"
	"github.com/go-text/typesetting/font"
	ot "github.com/go-text/typesetting/font/opentype"
)

func main() {
	b, err := td.Files.ReadFile("common/Commissioner-VF.ttf")
	if err != nil {
		fmt.Println(err)
		os.Exit(2)
	}
	ld, err := ot.NewLoader(bytes.NewReader(b))
	if err != nil {
		fmt.Println(err)
		os.Exit(2)
	}
	mvarTag := ot.MustNewTag("MVAR")
	var tbs []ot.Table
	for _, tag := range ld.Tables() {
		if tag == mvarTag {
			continue
		}
		raw, err := ld.RawTable(tag)
		if err != nil {
			fmt.Println(err)
			os.Exit(2)
		}
		tbs = append(tbs, ot.Table{Tag: tag, Content: raw})
	}
	// version 1.0, reserved, valueRecordSize = 0, valueRecordCount = 1, no item variation store
	tbs = append(tbs, ot.Table{Tag: mvarTag, Content: []byte{0, 1, 0, 0, 0, 0, 0, 0, 0, 1, 0, 0}})
	file := ot.WriteTTF(tbs)

	defer func() {
		if r := recover(); r != nil {
			fmt.Println("DEFECT: loading the file panics:", r)
			os.Exit(1)
		}
	}()
	_, err = font.ParseTTF(bytes.NewReader(file))
	fmt.Println("ok, error:", err)
}
