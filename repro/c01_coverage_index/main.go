// Reproducer (not part of any check): the index returned by a format 2 Coverage is startCoverageIndex + (glyph - start),
// and startCoverageIndex is a value of the file that nothing checks: the sanitizers compare Coverage.Len() — the SUM of
// the range sizes — with the length of the array the index is used for. A MultipleSubst subtable with one sequence and
// a one-glyph coverage range whose startCoverageIndex is 5 passes Sanitize (1 == 1) and Sequences[5] panics in Shape.
// AlternateSubst and CursivePos are not sanitized at all: "alt" and "curs" use a format 1 coverage with two glyphs and a
// single record. "mark filtering set": the index of a GDEF mark glyph set named by a lookup is used without a bound test. "nested lookup index": only format 1 contextual lookups have the lookup indices of their records compared with the number of lookups. "extension": the lookup sanitizers of the loader are dispatched on the subtable BEFORE the extension is resolved, so no extension-wrapped subtable is ever sanitized. "feature index", "lookup index": the feature indices of a LangSys and the lookup indices of a feature are used as indices without being compared with the feature and lookup counts.
package main

import (
	"bytes"
	"fmt"
	"os"

	td "github.com/go-text/typesetting-utils/opentype"
	"github.com/go-text/typesetting/font"
	ot "github.com/go-text/typesetting/font/opentype"
	"github.com/go-text/typesetting/harfbuzz"
	"github.com/go-text/typesetting/language"
)

func replace(file string, tag string, edit func(old []byte) []byte) []byte {
	b, err := td.Files.ReadFile(file)
	if err != nil {
		fmt.Println(err)
		os.Exit(2)
	}
	ld, err := ot.NewLoader(bytes.NewReader(b))
	if err != nil {
		fmt.Println(err)
		os.Exit(2)
	}
	var tbs []ot.Table
	found := false
	for _, t := range ld.Tables() {
		raw, err := ld.RawTable(t)
		if err != nil {
			fmt.Println(err)
			os.Exit(2)
		}
		if t == ot.MustNewTag(tag) {
			raw = edit(raw)
			found = true
		}
		tbs = append(tbs, ot.Table{Tag: t, Content: raw})
	}
	if !found {
		tbs = append(tbs, ot.Table{Tag: ot.MustNewTag(tag), Content: edit(nil)})
	}
	return ot.WriteTTF(tbs)
}

func u16(vs ...int) []byte {
	var out []byte
	for _, v := range vs {
		out = append(out, byte(v>>8), byte(v))
	}
	return out
}

// layout builds a GSUB/GPOS table with one script (DFLT), one feature and one lookup with one subtable
func layout(feature string, lookupType int, subtable []byte) []byte {
	return layoutFlag(feature, lookupType, 0, subtable)
}

// with flag 0x10 (UseMarkFilteringSet) the lookup table ends with the index of a GDEF mark glyph set
func layoutFlag(feature string, lookupType, flag int, subtable []byte) []byte {
	return layoutIdx(feature, lookupType, flag, 0, 0, subtable)
}

// featureIdx is the feature index listed by the LangSys, lookupIdx the lookup index listed by the feature
func layoutIdx(feature string, lookupType, flag, featureIdx, lookupIdx int, subtable []byte) []byte {
	scriptList := append(u16(1), append([]byte("DFLT"), u16(8)...)...) // one record, Script at 8
	scriptList = append(scriptList, u16(4, 0)...)                      // defaultLangSys at 4, no LangSys records
	scriptList = append(scriptList, u16(0, 0xFFFF, 1, featureIdx)...)  // LangSys: one feature
	featureList := append(u16(1), append([]byte(feature), u16(8)...)...)
	featureList = append(featureList, u16(0, 1, lookupIdx)...) // Feature: one lookup
	lookupList := u16(1, 4)                                    // one lookup at 4
	if flag&0x10 != 0 {
		lookupList = append(lookupList, u16(lookupType, flag, 1, 10, 7)...) // mark filtering set 7
	} else {
		lookupList = append(lookupList, u16(lookupType, flag, 1, 8)...)
	}
	lookupList = append(lookupList, subtable...)
	out := u16(1, 0, 10, 10+len(scriptList), 10+len(scriptList)+len(featureList))
	out = append(out, scriptList...)
	out = append(out, featureList...)
	return append(out, lookupList...)
}

var acute int

func try(name, table string, content func(a, b int) []byte) (bad bool) {
	orig, _ := td.Files.ReadFile("common/Roboto-BoldItalic.ttf")
	f0, err := font.ParseTTF(bytes.NewReader(orig))
	if err != nil {
		fmt.Println(err)
		os.Exit(2)
	}
	gacute, _ := f0.NominalGlyph(0x0301)
	acute = int(gacute)
	ga, _ := f0.NominalGlyph('a')
	gb, _ := f0.NominalGlyph('b')
	if gb != ga+1 {
		fmt.Println("unexpected glyph order")
		os.Exit(2)
	}
	file := replace("common/Roboto-BoldItalic.ttf", table, func([]byte) []byte { return content(int(ga), int(gb)) })
	face, err := font.ParseTTF(bytes.NewReader(file))
	if err != nil {
		fmt.Println("ok: rejected", err)
		return false
	}
	if table == "GSUB" && len(face.GSUB.Lookups) == 0 || table == "GPOS" && len(face.GPOS.Lookups) == 0 {
		fmt.Println("ok", name, "(the table was rejected)")
		return false
	}
	defer func() {
		if r := recover(); r != nil {
			fmt.Printf("DEFECT %s: the file loads and shaping panics: %v\n", name, r)
			bad = true
		}
	}()
	buf := harfbuzz.NewBuffer()
	buf.AddRunes([]rune("abab\u0301"), 0, -1)
	buf.Props.Direction = harfbuzz.LeftToRight
	buf.Props.Script = language.Latin
	buf.Props.Language = "en"
	buf.Shape(harfbuzz.NewFont(face), nil)
	fmt.Println("ok", name, len(buf.Info))
	return false
}

func main() {
	bad := false
	bad = try("coverage format 2 start index", "GSUB", func(a, b int) []byte {
		// MultipleSubst: format 1, coverage at 8, one sequence at 18; coverage format 2: one range a..a, start index 5
		st := u16(1, 8, 1, 18)
		st = append(st, u16(2, 1, a, a, 5)...)
		st = append(st, u16(1, b)...)
		return layout("liga", 2, st)
	}) || bad
	bad = try("alt (AlternateSubst is not sanitized)", "GSUB", func(a, b int) []byte {
		// AlternateSubst: format 1, coverage at 8, one alternate set at 16; coverage format 1: glyphs a, b
		st := u16(1, 8, 1, 16)
		st = append(st, u16(1, 2, a, b)...)
		st = append(st, u16(1, a)...)
		return layout("liga", 3, st)
	}) || bad
	bad = try("curs (CursivePos is not sanitized)", "GPOS", func(a, b int) []byte {
		// CursivePos: format 1, coverage at 10, one entry/exit record (anchors at 18); coverage format 1: glyphs a, b
		st := u16(1, 10, 1, 18, 18)
		st = append(st, u16(1, 2, a, b)...)
		st = append(st, u16(1, 0, 0)...) // anchor format 1
		return layout("kern", 3, st)
	}) || bad
	bad = try("mark filtering set index", "GSUB", func(a, b int) []byte {
		// a well formed MultipleSubst acute -> b in a lookup that uses mark filtering set 7; the font's GDEF has no such set
		st := u16(1, 8, 1, 14)
		st = append(st, u16(1, 1, acute)...)
		st = append(st, u16(1, b)...)
		return layoutFlag("liga", 2, 0x10, st)
	}) || bad
	bad = try("nested lookup index (context format 3)", "GSUB", func(a, b int) []byte {
		// SequenceContextFormat3: one input coverage (at 12), one record applying lookup 99 at position 0
		st := u16(3, 1, 1, 12, 0, 99)
		st = append(st, u16(1, 1, a)...)
		return layout("liga", 5, st)
	}) || bad
	multiple := func(a, b int) []byte { // a well formed MultipleSubst a -> b
		st := u16(1, 8, 1, 14)
		st = append(st, u16(1, 1, a)...)
		return append(st, u16(1, b)...)
	}
	bad = try("extension lookups are not sanitized", "GSUB", func(a, b int) []byte {
		// ExtensionSubst (type 7) -> MultipleSubst with a two-glyph coverage and a single sequence: rejected when it is not
		// wrapped, accepted when it is, because the sanitizers are dispatched on the unresolved extension subtable
		inner := u16(1, 8, 1, 16)
		inner = append(inner, u16(1, 2, a, b)...)
		inner = append(inner, u16(1, b)...)
		return layout("liga", 7, append(u16(1, 2, 0, 8), inner...))
	}) || bad
	bad = try("feature index of a LangSys", "GSUB", func(a, b int) []byte {
		return layoutIdx("liga", 2, 0, 5, 0, multiple(a, b))
	}) || bad
	bad = try("lookup index of a feature", "GSUB", func(a, b int) []byte {
		return layoutIdx("liga", 2, 0, 0, 9, multiple(a, b))
	}) || bad
	if bad {
		os.Exit(1)
	}
}
