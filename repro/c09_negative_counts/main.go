// Reproducer (not part of any check): element counts computed as differences of file values reach `make` negative.
//  1. CBLC/EBLC: an index subtable with lastGlyph < firstGlyph -> ParseIndexData1(src, negative)
//  2. hmtx: hhea.numOfLongMetrics > maxp.numGlyphs -> loadHVtmx calls ParseHmtx(src, n, negative) inside NewFont
package main

import (
	"bytes"
	"encoding/binary"
	"fmt"
	"os"

	td "github.com/go-text/typesetting-utils/opentype"
	"github.com/go-text/typesetting/font"
	ot "github.com/go-text/typesetting/font/opentype"
	"github.com/go-text/typesetting/font/opentype/tables"
)

func try(name string, f func()) (bad bool) {
	defer func() {
		if r := recover(); r != nil {
			fmt.Printf("DEFECT %s: panic: %v\n", name, r)
			bad = true
		}
	}()
	f()
	return false
}

func main() {
	bad := 0
	cblc := make([]byte, 80)
	binary.BigEndian.PutUint16(cblc[0:], 3)
	binary.BigEndian.PutUint32(cblc[4:], 1)  // numSizes
	binary.BigEndian.PutUint32(cblc[8:], 56) // indexSubTableArrayOffset
	binary.BigEndian.PutUint32(cblc[16:], 1) // numberOfIndexSubTables
	binary.BigEndian.PutUint16(cblc[56:], 10) // firstGlyph
	binary.BigEndian.PutUint16(cblc[58:], 2)  // lastGlyph < firstGlyph
	binary.BigEndian.PutUint32(cblc[60:], 8)  // additionalOffsetToIndexSubtable
	binary.BigEndian.PutUint16(cblc[64:], 1)  // indexFormat 1
	binary.BigEndian.PutUint16(cblc[66:], 17)
	if try("ParseCBLC(lastGlyph<firstGlyph)", func() { _, _, err := tables.ParseCBLC(cblc); fmt.Println("  ParseCBLC err:", err) }) {
		bad++
	}
	// a real font whose hhea announces more long metrics than maxp has glyphs
	if try("NewFont(hhea.numOfLongMetrics > maxp.numGlyphs)", func() {
		b, _ := td.Files.ReadFile("common/DejaVuSans.ttf")
		ld, err := ot.NewLoader(bytes.NewReader(b))
		if err != nil {
			panic(err)
		}
		var tbs []ot.Table
		for _, tag := range ld.Tables() {
			c, _ := ld.RawTable(tag)
			if tag == ot.MustNewTag("hhea") {
				binary.BigEndian.PutUint16(c[34:], 0xFFFF)
			}
			if tag == ot.MustNewTag("hmtx") {
				c = append(c, make([]byte, 4*0x10000)...) // long enough for the announced metrics
			}
			tbs = append(tbs, ot.Table{Tag: tag, Content: c})
		}
		ld2, err := ot.NewLoader(bytes.NewReader(ot.WriteTTF(tbs)))
		if err != nil {
			panic(err)
		}
		_, err = font.NewFont(ld2)
		fmt.Println("  NewFont err:", err)
	}) {
		bad++
	}
	if bad > 0 {
		os.Exit(1)
	}
}
