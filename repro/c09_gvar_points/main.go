// Reproducer (not part of any check): the point numbers of a gvar tuple are 16-bit values of the file; newGvar decodes them
// and applyDeltasToPoints uses them as indices into a slice that has one element per point of the glyph, without
// comparing them with its length. This program sets the packed 8-bit point-number deltas of one glyph to 0xFF (the numbers
// become 255, 510, ...): the font loads without error and asking the extents of that glyph at a non-default position of the
// variation space panics.
package main

import (
	"bytes"
	"fmt"
	"os"
	"reflect"
	"unsafe"

	td "github.com/go-text/typesetting-utils/opentype"
	"github.com/go-text/typesetting/font"
	ot "github.com/go-text/typesetting/font/opentype"
	"github.com/go-text/typesetting/font/opentype/tables"
)

func replace(file string, tag string, edit func(old []byte) []byte) []byte {
	b, err := td.Files.ReadFile(file)
	if err != nil {
		fmt.Println(err)
		os.Exit(2)
	}
	ld, err := ot.NewLoader(bytes.NewReader(b))
	if err != nil {
		fmt.Println(err)
		os.Exit(2)
	}
	var tbs []ot.Table
	found := false
	for _, t := range ld.Tables() {
		raw, err := ld.RawTable(t)
		if err != nil {
			fmt.Println(err)
			os.Exit(2)
		}
		if t == ot.MustNewTag(tag) {
			raw = edit(raw)
			found = true
		}
		tbs = append(tbs, ot.Table{Tag: t, Content: raw})
	}
	if !found {
		tbs = append(tbs, ot.Table{Tag: ot.MustNewTag(tag), Content: edit(nil)})
	}
	return ot.WriteTTF(tbs)
}

// patch returns the file with the first 8-bit run of shared point numbers of the n-th eligible glyph set to 0xFF
func patch(file string, n int) (out []byte, gid int) {
	gid = -1
	out = replace(file, "gvar", func(old []byte) []byte {
		b := append([]byte(nil), old...)
		gv, _, err := tables.ParseGvar(b)
		if err != nil {
			fmt.Println(err)
			os.Exit(2)
		}
		for g, vd := range gv.GlyphVariationDatas {
			if !vd.HasSharedPointNumbers() || len(vd.SerializedData) < 4 {
				continue
			}
			// SerializedData aliases b: its address gives the position of the packed point numbers
			p := int(reflect.ValueOf(vd.SerializedData).Pointer() - uintptr(unsafe.Pointer(&b[0])))
			count := int(b[p])
			if count == 0 {
				continue
			}
			p++
			if count&0x80 != 0 {
				p++
			}
			ctrl := b[p]
			if ctrl&0x80 != 0 {
				continue // 16-bit run
			}
			if n > 0 {
				n--
				continue
			}
			for i := 0; i <= int(ctrl&0x7F); i++ {
				b[p+1+i] = 0xFF
			}
			gid = g
			break
		}
		return b
	})
	return out, gid
}

func try(file string, n int) (bad, more bool) {
	patched, gid := patch(file, n)
	if gid < 0 {
		return false, false
	}
	fnt, err := font.ParseTTF(bytes.NewReader(patched))
	if err != nil {
		fmt.Println("ok: rejected", err)
		return false, true
	}
	defer func() {
		if r := recover(); r != nil {
			fmt.Printf("DEFECT: the file loads and GlyphExtents(%d) at a varied position panics: %v\n", gid, r)
			bad, more = true, false
		}
	}()
	face := font.NewFace(fnt.Font)
	for _, w := range []float32{900, 100} {
		face.SetVariations([]font.Variation{{Tag: ot.MustNewTag("wght"), Value: w}})
		face.GlyphExtents(font.GID(gid))
	}
	return false, true
}

func main() {
	for _, file := range []string{"common/Commissioner-VF.ttf", "common/SourceSans-VF.ttf", "common/Selawik-VF.ttf", "common/Mada-VF.ttf", "common/Estedad-VF.ttf"} {
		tried := 0
		for n := 0; n < 300; n++ {
			bad, more := try(file, n)
			if bad {
				os.Exit(1)
			}
			if !more {
				break
			}
			tried++
		}
		fmt.Println(file, "candidates tried:", tried)
	}
	fmt.Println("ok: no panic")
}
