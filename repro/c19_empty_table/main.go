// Reproducer (not part of any check; pointed out by a seeding agent, confirmed here): a table list whose last table is
// empty is written with that table at offset == len(file); the loader accepts the file and lists the tag, but
// Loader.RawTable calls ReadAt with an empty destination at the end of the file, which bytes.Reader answers with io.EOF:
// the written file does not read back.
package main

import (
	"bytes"
	"fmt"
	"os"

	ot "github.com/go-text/typesetting/font/opentype"
)

func main() {
	tables := []ot.Table{
		{Tag: ot.MustNewTag("aaaa"), Content: []byte{1, 2, 3, 4, 5}},
		{Tag: ot.MustNewTag("bbbb"), Content: []byte{}},
	}
	file := ot.WriteTTF(tables)
	ld, err := ot.NewLoader(bytes.NewReader(file))
	if err != nil {
		fmt.Println("DEFECT: the written file is rejected:", err)
		os.Exit(1)
	}
	for _, t := range tables {
		got, err := ld.RawTable(t.Tag)
		if err != nil || !bytes.Equal(got, t.Content) {
			fmt.Printf("DEFECT: table %s (length %d) does not read back: %v %v\n", t.Tag, len(t.Content), got, err)
			os.Exit(1)
		}
	}
	fmt.Println("ok")
}
