// Reproducer (not part of any check): three values of the variation tables are used as indices without being compared with
// what they index.
//
//	avar:   NormalizeVariations walks the avar segment maps and writes normalized[i]; nothing compares the avar axis count
//	        with fvar's, so an avar table with one more axis panics in Face.SetVariations;
//	region: ItemVariationData.RegionIndexes are indices into the VariationRegionList; none is compared with the number
//	        of regions (HVAR here; the same reader serves MVAR, GDEF and CFF2);
//	axes:   the axis count of the HVAR/VVAR store is not compared with fvar's (it is for MVAR, GDEF and CFF2), and
//	        VariationRegion.Evaluate indexes RegionAxes with the index of each coordinate.
package main

import (
	"bytes"
	"encoding/binary"
	"fmt"
	"os"

	td "github.com/go-text/typesetting-utils/opentype"
	"github.com/go-text/typesetting/font"
	ot "github.com/go-text/typesetting/font/opentype"
)

func replace(file string, tag string, edit func(old []byte) []byte) []byte {
	b, err := td.Files.ReadFile(file)
	if err != nil {
		fmt.Println(err)
		os.Exit(2)
	}
	ld, err := ot.NewLoader(bytes.NewReader(b))
	if err != nil {
		fmt.Println(err)
		os.Exit(2)
	}
	var tbs []ot.Table
	found := false
	for _, t := range ld.Tables() {
		raw, err := ld.RawTable(t)
		if err != nil {
			fmt.Println(err)
			os.Exit(2)
		}
		if t == ot.MustNewTag(tag) {
			raw = edit(raw)
			found = true
		}
		tbs = append(tbs, ot.Table{Tag: t, Content: raw})
	}
	if !found {
		tbs = append(tbs, ot.Table{Tag: ot.MustNewTag(tag), Content: edit(nil)})
	}
	return ot.WriteTTF(tbs)
}

const file = "common/Commissioner-VF.ttf"

func try(name string, data []byte) (bad bool) {
	fnt, err := font.ParseTTF(bytes.NewReader(data))
	if err != nil {
		fmt.Println("ok: rejected", err)
		return false
	}
	defer func() {
		if r := recover(); r != nil {
			fmt.Printf("DEFECT %s: the file loads and a query at a varied position panics: %v\n", name, r)
			bad = true
		}
	}()
	face := font.NewFace(fnt.Font)
	face.SetVariations([]font.Variation{{Tag: ot.MustNewTag("wght"), Value: 900}, {Tag: ot.MustNewTag("slnt"), Value: -12},
		{Tag: ot.MustNewTag("FLAR"), Value: 100}, {Tag: ot.MustNewTag("VOLM"), Value: 100}})
	for g := 0; g < 50; g++ {
		face.HorizontalAdvance(font.GID(g))
	}
	fmt.Println("ok", name)
	return false
}

func main() {
	bad := false
	// avar with 5 axes (fvar has 4), each with the identity map on three points
	bad = try("avar axis count", replace(file, "avar", func([]byte) []byte {
		out := []byte{0, 1, 0, 0, 0, 0, 0, 5}
		for a := 0; a < 5; a++ {
			out = append(out, 0, 3, 0xC0, 0x00, 0xC0, 0x00, 0, 0, 0, 0, 0x40, 0x00, 0x40, 0x00)
		}
		return out
	})) || bad
	hvarStore := func(b []byte) (store int) { return int(binary.BigEndian.Uint32(b[4:])) }
	bad = try("HVAR region index", replace(file, "HVAR", func(old []byte) []byte {
		b := append([]byte(nil), old...)
		s := hvarStore(b)
		n := int(binary.BigEndian.Uint16(b[s+6:]))
		for i := 0; i < n; i++ {
			d := s + int(binary.BigEndian.Uint32(b[s+8+4*i:]))
			if binary.BigEndian.Uint16(b[d+4:]) != 0 { // regionIndexCount
				binary.BigEndian.PutUint16(b[d+6:], 0xFFFF)
			}
		}
		return b
	})) || bad
	bad = try("HVAR axis count", replace(file, "HVAR", func(old []byte) []byte {
		b := append([]byte(nil), old...)
		s := hvarStore(b)
		rl := s + int(binary.BigEndian.Uint32(b[s+2:]))
		binary.BigEndian.PutUint16(b[rl:], 1) // axisCount of the region list
		return b
	})) || bad
	if bad {
		os.Exit(1)
	}
}
