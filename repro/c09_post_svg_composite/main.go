// Reproducer (not part of any check; the three defects were pointed out by an independent agent while it looked for a place
// to seed a change, then confirmed here):
//
//	post:      postNames20.sanitize tests len(Strings) < maxIndex-258 where glyphName needs Strings[maxIndex-258]: an index
//	           equal to the number of strings passes and Font.GlyphName panics;
//	svg:       newSvg computes offset+length in uint32 and tests only the end against the data: a wrapped end passes and
//	           rawData[start:end] has start > end (panic while loading);
//	composite: getPointsForGlyph returns without appending the phantom points when a component cannot be resolved (glyph
//	           index past the glyf table, or nesting too deep); its callers slice [:len-4] and [len-4:] of an empty slice.
package main

import (
	"bytes"
	"encoding/binary"
	"fmt"
	"os"

	td "github.com/go-text/typesetting-utils/opentype"
	"github.com/go-text/typesetting/font"
	ot "github.com/go-text/typesetting/font/opentype"
)

func replace(file string, tag string, edit func(old []byte) []byte) []byte {
	b, err := td.Files.ReadFile(file)
	if err != nil {
		fmt.Println(err)
		os.Exit(2)
	}
	ld, err := ot.NewLoader(bytes.NewReader(b))
	if err != nil {
		fmt.Println(err)
		os.Exit(2)
	}
	var tbs []ot.Table
	found := false
	for _, t := range ld.Tables() {
		raw, err := ld.RawTable(t)
		if err != nil {
			fmt.Println(err)
			os.Exit(2)
		}
		if t == ot.MustNewTag(tag) {
			raw = edit(raw)
			found = true
		}
		tbs = append(tbs, ot.Table{Tag: t, Content: raw})
	}
	if !found {
		tbs = append(tbs, ot.Table{Tag: ot.MustNewTag(tag), Content: edit(nil)})
	}
	return ot.WriteTTF(tbs)
}

const file = "common/Roboto-BoldItalic.ttf"

func attempt(name string, data []byte, query func(f *font.Font)) (bad bool) {
	defer func() {
		if r := recover(); r != nil {
			fmt.Printf("DEFECT %s: panic: %v\n", name, r)
			bad = true
		}
	}()
	fnt, err := font.ParseTTF(bytes.NewReader(data))
	if err != nil {
		fmt.Println("ok", name, ": rejected", err)
		return false
	}
	query(fnt.Font)
	fmt.Println("ok", name)
	return false
}

func main() {
	orig, _ := td.Files.ReadFile(file)
	ld, _ := ot.NewLoader(bytes.NewReader(orig))
	maxp, _ := ld.RawTable(ot.MustNewTag("maxp"))
	numGlyphs := int(binary.BigEndian.Uint16(maxp[4:]))
	bad := false

	// post 2.0: glyph 1 names the second custom string (index 259) while one string is stored
	bad = attempt("post", replace(file, "post", func(old []byte) []byte {
		out := append([]byte(nil), old[:32]...)
		binary.BigEndian.PutUint32(out, 0x00020000)
		out = append(out, byte(numGlyphs>>8), byte(numGlyphs))
		idx := make([]byte, 2*numGlyphs)
		binary.BigEndian.PutUint16(idx[2:], 259)
		out = append(out, idx...)
		return append(out, 1, 'x') // one Pascal string
	}), func(f *font.Font) { f.GlyphName(1) }) || bad

	// SVG: one document whose offset+length wraps around 2^32
	bad = attempt("svg", replace(file, "SVG ", func([]byte) []byte {
		out := []byte{0, 0, 0, 0, 0, 10, 0, 0, 0, 0} // version, list offset = 10, reserved
		out = append(out, 0, 1, 0, 1, 0, 1)          // one record: glyphs 1..1
		out = append(out, 0xFF, 0xFF, 0xFF, 0xF0)    // offset
		out = append(out, 0, 0, 0, 0x18)             // length
		return append(out, make([]byte, 16)...)
	}), func(f *font.Font) {}) || bad

	// glyf: the first component of the first composite glyph names a glyph past the table
	loca, _ := ld.RawTable(ot.MustNewTag("loca"))
	gid := -1
	bad = attempt("composite", replace(file, "glyf", func(old []byte) []byte {
		out := append([]byte(nil), old...)
		for g := 0; 4*(g+2) <= len(loca); g++ {
			start, end := binary.BigEndian.Uint32(loca[4*g:]), binary.BigEndian.Uint32(loca[4*g+4:])
			if end-start >= 14 && int16(binary.BigEndian.Uint16(out[start:])) < 0 {
				binary.BigEndian.PutUint16(out[start+12:], 0xFFF0) // glyphIndex of the first component
				gid = g
				break
			}
		}
		return out
	}), func(f *font.Font) {
		if gid < 0 {
			fmt.Println("no composite glyph")
			os.Exit(2)
		}
		font.NewFace(f).GlyphData(font.GID(gid))
	}) || bad
	if bad {
		os.Exit(1)
	}
}
