// Reproducer (not part of any check): a 28-byte sfnt whose single directory entry announces a 1 GiB table makes
// Loader.RawTable allocate the announced length before reading (findTableBuffer trusts the directory).
package main

import (
	"bytes"
	"encoding/binary"
	"fmt"
	"os"
	"runtime"

	ot "github.com/go-text/typesetting/font/opentype"
)

func main() {
	b := make([]byte, 28)
	binary.BigEndian.PutUint32(b[0:], 0x00010000)
	binary.BigEndian.PutUint16(b[4:], 1)
	copy(b[12:], "head")
	binary.BigEndian.PutUint32(b[20:], 28)         // offset
	binary.BigEndian.PutUint32(b[24:], 0x40000000) // length: 1 GiB
	ld, err := ot.NewLoader(bytes.NewReader(b))
	if err != nil {
		fmt.Println("loader:", err)
		return
	}
	var m0, m1 runtime.MemStats
	runtime.ReadMemStats(&m0)
	_, err = ld.RawTable(ot.MustNewTag("head"))
	runtime.ReadMemStats(&m1)
	grown := (m1.TotalAlloc - m0.TotalAlloc) >> 20
	fmt.Printf("RawTable on a 28-byte file: err=%v, allocated %d MiB\n", err, grown)
	if grown > 16 {
		fmt.Println("DEFECT: allocation out of proportion to the input size")
		os.Exit(1)
	}
}
