// Reproducer (not part of any check): a contextual GSUB lookup whose SequenceLookupRecord points at itself.
// With maxNestingLevel = 6 the nested application must stop after 6 levels; on the defective tree
// otApplyContext.recurse falls through when the nesting budget is exhausted and the Go stack grows until
// the operation budget (1024*n) runs out or the stack overflows. We measure the depth via runtime.Callers.
package main

import (
	"bytes"
	"fmt"
	"os"
	"runtime"
	"strings"
	"time"

	td "github.com/go-text/typesetting-utils/opentype"
	"github.com/go-text/typesetting/font"
	"github.com/go-text/typesetting/font/opentype/tables"
	"github.com/go-text/typesetting/harfbuzz"
	"github.com/go-text/typesetting/language"
)

type probeCov struct{ tables.Coverage1 }

var maxDepth int

// Index is called by the contextual lookup on each (nested) application: count recurse frames on the stack.
var calls int

func (p probeCov) Index(g tables.GlyphID) (int, bool) {
	calls++
	if maxDepth > 50 { // enough to show the defect (each stack walk costs O(depth))
		fmt.Printf("DEFECT: nested recurse depth %d exceeds maxNestingLevel=6\n", maxDepth)
		os.Exit(1)
	}
	pcs := make([]uintptr, 100000)
	n := runtime.Callers(0, pcs)
	fr := runtime.CallersFrames(pcs[:n])
	d := 0
	for {
		f, more := fr.Next()
		if strings.HasSuffix(f.Function, ".recurse") {
			d++
		}
		if !more {
			break
		}
	}
	if d > maxDepth {
		maxDepth = d
	}
	return p.Coverage1.Index(g)
}

func main() {
	b, err := td.Files.ReadFile("common/Roboto-Regular.ttf")
	if err != nil {
		b, err = td.Files.ReadFile("common/DejaVuSans.ttf")
	}
	if err != nil {
		fmt.Println(err)
		os.Exit(2)
	}
	ft, err := font.ParseTTF(bytes.NewReader(b))
	if err != nil {
		fmt.Println(err)
		os.Exit(2)
	}
	gid, _ := ft.NominalGlyph('a')
	cov := probeCov{tables.Coverage1{Glyphs: []tables.GlyphID{tables.GlyphID(gid)}}}
	for i := range ft.GSUB.Lookups {
		ft.GSUB.Lookups[i] = font.GSUBLookup{Subtables: []tables.GSUBLookup{
			tables.ContextualSubs{Data: tables.ContextualSubs3{
				Coverages:        []tables.Coverage{cov.Coverage1, cov},
				SeqLookupRecords: []tables.SequenceLookupRecord{{SequenceIndex: 0, LookupListIndex: uint16(i)}},
			}},
		}}
	}
	go func() {
		time.Sleep(5 * time.Second)
		fmt.Printf("watchdog: still running after 5s; calls=%d maxDepth=%d\n", calls, maxDepth)
		os.Exit(3)
	}()
	buf := harfbuzz.NewBuffer()
	buf.AddRunes([]rune("aa"), 0, -1)
	buf.Props.Direction = harfbuzz.LeftToRight
	buf.Props.Script = language.Latin
	buf.Shape(harfbuzz.NewFont(font.NewFace(ft.Font)), nil)
	fmt.Printf("calls=%d lookups=%d max nested recurse depth observed=%d (maxNestingLevel=6)\n", calls, len(ft.GSUB.Lookups), maxDepth)
	if maxDepth > 6 {
		fmt.Println("DEFECT: nesting limit not enforced")
		os.Exit(1)
	}
}
