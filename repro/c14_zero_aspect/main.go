// Reproducer (not part of any check; pointed out by a seeding agent, confirmed here): FontMap.AddFace stores the aspect of
// the description as given. With the zero Aspect (a natural call: only the family is named) no style matches — the style
// search knows Normal and Italic only — retainsBestMatches returns an empty list for a non-empty input and
// buildCandidates indexes candidates[0]: ResolveFace panics for a non-empty map.
package main

import (
	"bytes"
	"fmt"
	"os"

	td "github.com/go-text/typesetting-utils/opentype"
	"github.com/go-text/typesetting/font"
	"github.com/go-text/typesetting/fontscan"
)

func main() {
	b, _ := td.Files.ReadFile("common/Roboto-BoldItalic.ttf")
	face, err := font.ParseTTF(bytes.NewReader(b))
	if err != nil {
		fmt.Println(err)
		os.Exit(2)
	}
	defer func() {
		if r := recover(); r != nil {
			fmt.Println("DEFECT: ResolveFace panics:", r)
			os.Exit(1)
		}
	}()
	fm := fontscan.NewFontMap(nil)
	fm.AddFace(face, fontscan.Location{File: "mem"}, font.Description{Family: "My Font"})
	fm.SetQuery(fontscan.Query{Families: []string{"My Font"}})
	fmt.Println("ok", fm.ResolveFace('a') != nil)
}
