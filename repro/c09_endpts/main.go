// Reproducer (not part of any check): a simple glyph's point count is taken from the LAST entry of endPtsOfContours; the
// other entries are never compared with it. getContourPoints marks points[end] for every entry, so a glyph whose first
// end point exceeds the last one loads without error and panics when its outline (or extents) is requested.
package main

import (
	"bytes"
	"encoding/binary"
	"fmt"
	"os"

	td "github.com/go-text/typesetting-utils/opentype"
	"github.com/go-text/typesetting/font"
	ot "github.com/go-text/typesetting/font/opentype"
)

func replace(file string, tag string, edit func(old []byte) []byte) []byte {
	b, err := td.Files.ReadFile(file)
	if err != nil {
		fmt.Println(err)
		os.Exit(2)
	}
	ld, err := ot.NewLoader(bytes.NewReader(b))
	if err != nil {
		fmt.Println(err)
		os.Exit(2)
	}
	var tbs []ot.Table
	found := false
	for _, t := range ld.Tables() {
		raw, err := ld.RawTable(t)
		if err != nil {
			fmt.Println(err)
			os.Exit(2)
		}
		if t == ot.MustNewTag(tag) {
			raw = edit(raw)
			found = true
		}
		tbs = append(tbs, ot.Table{Tag: t, Content: raw})
	}
	if !found {
		tbs = append(tbs, ot.Table{Tag: ot.MustNewTag(tag), Content: edit(nil)})
	}
	return ot.WriteTTF(tbs)
}

func main() {
	orig, _ := td.Files.ReadFile("common/Roboto-BoldItalic.ttf")
	ld, err := ot.NewLoader(bytes.NewReader(orig))
	if err != nil {
		fmt.Println(err)
		os.Exit(2)
	}
	loca, _ := ld.RawTable(ot.MustNewTag("loca"))
	gid := -1
	file := replace("common/Roboto-BoldItalic.ttf", "glyf", func(old []byte) []byte {
		out := append([]byte(nil), old...)
		for g := 0; 4*(g+2) <= len(loca); g++ {
			start, end := binary.BigEndian.Uint32(loca[4*g:]), binary.BigEndian.Uint32(loca[4*g+4:])
			if end-start < 14 {
				continue
			}
			if nc := int16(binary.BigEndian.Uint16(out[start:])); nc >= 2 {
				// glyph header is 10 bytes, then endPtsOfContours[nc]
				binary.BigEndian.PutUint16(out[start+10:], 0xFFF0)
				gid = g
				break
			}
		}
		return out
	})
	if gid < 0 {
		fmt.Println("no glyph with two contours")
		os.Exit(2)
	}
	fnt, err := font.ParseTTF(bytes.NewReader(file))
	if err != nil {
		fmt.Println("ok: rejected", err)
		return
	}
	defer func() {
		if r := recover(); r != nil {
			fmt.Printf("DEFECT: the file loads and GlyphData(%d) panics: %v\n", gid, r)
			os.Exit(1)
		}
	}()
	d := fnt.GlyphData(font.GID(gid))
	fmt.Printf("ok %T\n", d)
}
