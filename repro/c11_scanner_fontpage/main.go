// Reproducer (not part of any check; the inverted test was seen by the first version of this work's R-ERRUSE rule and by a
// seeding agent; it became observable once the remapped cmaps enumerate their remapped runes): the font scanner reads the
// OS/2 font page only when ParseOs2 FAILED (`err != nil`), so it always remaps with FPNone, while font.NewFont uses the
// real font page. For a legacy Arabic font (symbol cmap, OS/2 version 0, Simplified Arabic font page) the face maps
// U+060C through the Arabic PUA table, but the coverage recorded by the scanner is the one of the symbol remapping:
// font resolution does not select the font for a rune it has.
package main

import (
	"bytes"
	"encoding/binary"
	"fmt"
	"os"

	td "github.com/go-text/typesetting-utils/opentype"
	"github.com/go-text/typesetting/font"
	ot "github.com/go-text/typesetting/font/opentype"
	"github.com/go-text/typesetting/fontscan"
)

func replace(file string, tag string, edit func(old []byte) []byte) []byte {
	b, err := td.Files.ReadFile(file)
	if err != nil {
		fmt.Println(err)
		os.Exit(2)
	}
	ld, err := ot.NewLoader(bytes.NewReader(b))
	if err != nil {
		fmt.Println(err)
		os.Exit(2)
	}
	var tbs []ot.Table
	found := false
	for _, t := range ld.Tables() {
		raw, err := ld.RawTable(t)
		if err != nil {
			fmt.Println(err)
			os.Exit(2)
		}
		if t == ot.MustNewTag(tag) {
			raw = edit(raw)
			found = true
		}
		tbs = append(tbs, ot.Table{Tag: t, Content: raw})
	}
	if !found {
		tbs = append(tbs, ot.Table{Tag: ot.MustNewTag(tag), Content: edit(nil)})
	}
	return ot.WriteTTF(tbs)
}

func tables2(file string, edits map[string]func([]byte) []byte) []byte {
	b, _ := td.Files.ReadFile(file)
	ld, err := ot.NewLoader(bytes.NewReader(b))
	if err != nil {
		fmt.Println(err)
		os.Exit(2)
	}
	var tbs []ot.Table
	for _, t := range ld.Tables() {
		raw, _ := ld.RawTable(t)
		if e, ok := edits[t.String()]; ok {
			raw = e(raw)
		}
		tbs = append(tbs, ot.Table{Tag: t, Content: raw})
	}
	return ot.WriteTTF(tbs)
}

func main() {
	// symbol cmap (3,0), format 6, one glyph at U+F12C (what the Simplified Arabic page maps U+060C to)
	cmap := []byte{0, 0, 0, 1, 0, 3, 0, 0, 0, 0, 0, 12, 0, 6, 0, 12, 0, 0, 0xF1, 0x2C, 0, 1, 0, 5}
	legacy := tables2("common/Roboto-BoldItalic.ttf", map[string]func([]byte) []byte{
		"cmap": func([]byte) []byte { return cmap },
		"OS/2": func(old []byte) []byte {
			out := append([]byte(nil), old...)
			binary.BigEndian.PutUint16(out[0:], 0)       // version 0
			binary.BigEndian.PutUint16(out[62:], 0xB200) // fsSelection: Simplified Arabic font page
			return out
		},
	})
	face, err := font.ParseTTF(bytes.NewReader(legacy))
	if err != nil {
		fmt.Println(err)
		os.Exit(2)
	}
	if _, ok := face.NominalGlyph(0x060C); !ok {
		fmt.Println("unexpected: the face does not map U+060C")
		os.Exit(2)
	}
	other, _ := td.Files.ReadFile("common/DejaVuSans.ttf")
	fm := fontscan.NewFontMap(nil)
	if err := fm.AddFont(bytes.NewReader(legacy), "legacy", "legacy"); err != nil {
		fmt.Println(err)
		os.Exit(2)
	}
	if err := fm.AddFont(bytes.NewReader(other), "other", "other"); err != nil {
		fmt.Println(err)
		os.Exit(2)
	}
	fm.SetQuery(fontscan.Query{Families: []string{"legacy", "other"}})
	got := fm.ResolveFace(0x060C)
	if loc := fm.FontLocation(got.Font); loc.File != "legacy" {
		fmt.Printf("DEFECT: ResolveFace(U+060C) returns %q although the first family, %q, has a glyph for it: the scanner recorded a coverage that is not the one of the face's cmap\n", loc.File, "legacy")
		os.Exit(1)
	}
	fmt.Println("ok")
}
