// Reproducer (not part of any check): line wrapping writes into the glyph storage it shares with the caller's
// shaped runs: (1) the trailing-whitespace trim zeroes the advance of the input's space glyph, (2) the
// start-of-line letter-spacing trim changes the input's first glyph. Afterwards the input runs no longer
// satisfy Advance == sum of glyph advances, and wrapping the same shaped text again (other width) differs from
// wrapping freshly shaped text.
package main

import (
	"bytes"
	"fmt"
	"os"

	td "github.com/go-text/typesetting-utils/opentype"
	"github.com/go-text/typesetting/di"
	"github.com/go-text/typesetting/font"
	"github.com/go-text/typesetting/language"
	"github.com/go-text/typesetting/shaping"
	"golang.org/x/image/math/fixed"
)

func sum(o shaping.Output) fixed.Int26_6 {
	var s fixed.Int26_6
	for _, g := range o.Glyphs {
		s += g.XAdvance
	}
	return s
}

func main() {
	b, _ := td.Files.ReadFile("common/DejaVuSans.ttf")
	face, err := font.ParseTTF(bytes.NewReader(b))
	if err != nil {
		fmt.Println(err)
		os.Exit(2)
	}
	text := []rune("aaaa bbbb cccc")
	shape := func(letter fixed.Int26_6) []shaping.Output {
		var sh shaping.HarfbuzzShaper
		out := sh.Shape(shaping.Input{Text: text, RunStart: 0, RunEnd: len(text), Direction: di.DirectionLTR, Face: face, Size: fixed.I(16), Script: language.Latin, Language: "en"})
		runs := []shaping.Output{out}
		if letter != 0 {
			shaping.AddSpacing(runs, text, 0, letter)
		}
		return runs
	}
	bad := 0
	for _, letter := range []fixed.Int26_6{0, fixed.I(4)} {
		runs := shape(letter)
		before := sum(runs[0])
		var w shaping.LineWrapper
		w.WrapParagraph(shaping.WrapConfig{}, 60, text, shaping.NewSliceIterator(runs))
		after := sum(runs[0])
		if before != after || runs[0].Advance != after {
			fmt.Printf("DEFECT (letter spacing %v): wrapping changed the caller's shaped run: sum of glyph advances %v -> %v, run.Advance=%v\n", letter, before, after, runs[0].Advance)
			bad++
		}
	}
	if bad > 0 {
		os.Exit(1)
	}
	fmt.Println("ok")
}
