// Reproducer (not part of any check; pointed out by a seeding agent, confirmed here): the groups of a cmap format 12/13
// subtable are used as read from the file.
//
//	inverted: a group with endCharCode < startCharCode makes the iterator count up to end-start in uint32: about 2^32 steps
//	          for a 28-byte table (the program stops counting at 20 million);
//	beyond:   char codes above U+10FFFF are enumerated; the font scanner truncates their page number to 16 bits, so the
//	          recorded coverage claims 'A' (0x1000041 -> page 0x0000) for a font that has no glyph for it, and font
//	          resolution prefers that font for 'A' over one that has it.
package main

import (
	"bytes"
	"fmt"
	"os"

	td "github.com/go-text/typesetting-utils/opentype"
	"github.com/go-text/typesetting/font"
	ot "github.com/go-text/typesetting/font/opentype"
	"github.com/go-text/typesetting/fontscan"
)

func replace(file string, tag string, edit func(old []byte) []byte) []byte {
	b, err := td.Files.ReadFile(file)
	if err != nil {
		fmt.Println(err)
		os.Exit(2)
	}
	ld, err := ot.NewLoader(bytes.NewReader(b))
	if err != nil {
		fmt.Println(err)
		os.Exit(2)
	}
	var tbs []ot.Table
	found := false
	for _, t := range ld.Tables() {
		raw, err := ld.RawTable(t)
		if err != nil {
			fmt.Println(err)
			os.Exit(2)
		}
		if t == ot.MustNewTag(tag) {
			raw = edit(raw)
			found = true
		}
		tbs = append(tbs, ot.Table{Tag: t, Content: raw})
	}
	if !found {
		tbs = append(tbs, ot.Table{Tag: ot.MustNewTag(tag), Content: edit(nil)})
	}
	return ot.WriteTTF(tbs)
}

func u32(vs ...uint32) []byte {
	var out []byte
	for _, v := range vs {
		out = append(out, byte(v>>24), byte(v>>16), byte(v>>8), byte(v))
	}
	return out
}

// a cmap table with one (3,10) format 12 subtable holding the given groups (start, end, glyph)
func cmap12(groups ...uint32) []byte {
	sub := []byte{0, 12, 0, 0}
	sub = append(sub, u32(uint32(16+len(groups)*4), 0, uint32(len(groups)/3))...)
	sub = append(sub, u32(groups...)...)
	return append([]byte{0, 0, 0, 1, 0, 3, 0, 10, 0, 0, 0, 12}, sub...)
}

func main() {
	bad := false
	// inverted group
	file := replace("common/Roboto-BoldItalic.ttf", "cmap", func([]byte) []byte { return cmap12(0x50, 0x41, 5) })
	if fnt, err := font.ParseTTF(bytes.NewReader(file)); err != nil {
		fmt.Println("ok inverted: rejected", err)
	} else {
		n := 0
		for it := fnt.Cmap.Iter(); it.Next() && n < 20_000_000; n++ {
			it.Char()
		}
		if n >= 20_000_000 {
			fmt.Println("DEFECT inverted: the iterator of a 28-byte cmap yields more than 20 million entries")
			bad = true
		} else {
			fmt.Println("ok inverted:", n, "entries")
		}
	}
	// codes beyond U+10FFFF whose page number truncates to the page of 'A'
	file = replace("common/Roboto-BoldItalic.ttf", "cmap", func([]byte) []byte { return cmap12(0x1000041, 0x1000042, 5) })
	crafted, err := font.ParseTTF(bytes.NewReader(file))
	if err != nil {
		fmt.Println("ok beyond: rejected", err)
	} else {
		orig, _ := td.Files.ReadFile("common/DejaVuSans.ttf")
		real, _ := font.ParseTTF(bytes.NewReader(orig))
		fm := fontscan.NewFontMap(nil)
		fm.AddFace(crafted, fontscan.Location{File: "crafted"}, font.Description{Family: "crafted"})
		fm.AddFace(real, fontscan.Location{File: "real"}, font.Description{Family: "real"})
		fm.SetQuery(fontscan.Query{Families: []string{"crafted", "real"}})
		got := fm.ResolveFace('A')
		if _, has := got.NominalGlyph('A'); !has {
			fmt.Println("DEFECT beyond: ResolveFace('A') returns the face that has no glyph for 'A' (its recorded coverage claims it), although the next family has one")
			bad = true
		} else {
			fmt.Println("ok beyond")
		}
	}
	if bad {
		os.Exit(1)
	}
}
