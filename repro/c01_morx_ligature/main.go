// Reproducer (not part of any check): a morx ligature action carries a signed 30-bit offset that is added to the glyph id
// to index the component table. driverContextLigature.transition tests only `componentIdx >= len(Components)`; with a
// negative offset larger than the glyph id the index is negative and Components[componentIdx] panics. All ligature
// actions of real fonts are given the offset -65536 here; the fonts still load.
package main

import (
	"bytes"
	"encoding/binary"
	"fmt"
	"os"

	td "github.com/go-text/typesetting-utils/opentype"
	"github.com/go-text/typesetting/font"
	ot "github.com/go-text/typesetting/font/opentype"
	"github.com/go-text/typesetting/harfbuzz"
	"github.com/go-text/typesetting/language"
)

func replace(file string, tag string, edit func(old []byte) []byte) []byte {
	b, err := td.Files.ReadFile(file)
	if err != nil {
		fmt.Println(err)
		os.Exit(2)
	}
	ld, err := ot.NewLoader(bytes.NewReader(b))
	if err != nil {
		fmt.Println(err)
		os.Exit(2)
	}
	var tbs []ot.Table
	found := false
	for _, t := range ld.Tables() {
		raw, err := ld.RawTable(t)
		if err != nil {
			fmt.Println(err)
			os.Exit(2)
		}
		if t == ot.MustNewTag(tag) {
			raw = edit(raw)
			found = true
		}
		tbs = append(tbs, ot.Table{Tag: t, Content: raw})
	}
	if !found {
		tbs = append(tbs, ot.Table{Tag: ot.MustNewTag(tag), Content: edit(nil)})
	}
	return ot.WriteTTF(tbs)
}

func main() {
	bad, tried := false, 0
	for _, dir := range []string{"morx", "common"} {
		es, _ := td.Files.ReadDir(dir)
		for _, e := range es {
			patched := 0
			file := replace(dir+"/"+e.Name(), "morx", func(old []byte) []byte {
				t := append([]byte(nil), old...)
				if len(t) < 24 {
					return t
				}
				nChains := int(binary.BigEndian.Uint32(t[4:]))
				pos := 8
				for c := 0; c < nChains && pos+16 <= len(t); c++ {
					chainLen := int(binary.BigEndian.Uint32(t[pos+4:]))
					nFeat := int(binary.BigEndian.Uint32(t[pos+8:]))
					nSub := int(binary.BigEndian.Uint32(t[pos+12:]))
					sp := pos + 16 + 12*nFeat
					for s := 0; s < nSub && sp+12+28 <= len(t); s++ {
						sl := int(binary.BigEndian.Uint32(t[sp:]))
						if t[sp+7] == 2 { // ligature subtable
							st := sp + 12
							actions := st + int(binary.BigEndian.Uint32(t[st+16:]))
							components := st + int(binary.BigEndian.Uint32(t[st+20:]))
							for a := actions; a+4 <= components && a+4 <= len(t); a += 4 {
								v := binary.BigEndian.Uint32(t[a:])
								binary.BigEndian.PutUint32(t[a:], v&0xC0000000|0x3FFF0000)
								patched++
							}
						}
						sp += sl
					}
					pos += chainLen
				}
				return t
			})
			if patched == 0 {
				continue
			}
			face, err := font.ParseTTF(bytes.NewReader(file))
			if err != nil || len(face.Morx) == 0 {
				continue
			}
			tried++
			func() {
				defer func() {
					if r := recover(); r != nil {
						fmt.Printf("DEFECT %s: the file loads and shaping panics: %v\n", e.Name(), r)
						bad = true
					}
				}()
				for _, text := range []string{"ABCDE", "fi ffi fl", "ABC ABCD", "abcdefghijklmnopqrstuvwxyz", "AAABBBCCC"} {
					buf := harfbuzz.NewBuffer()
					buf.AddRunes([]rune(text), 0, -1)
					buf.Props.Direction = harfbuzz.LeftToRight
					buf.Props.Script = language.Latin
					buf.Props.Language = "en"
					buf.Shape(harfbuzz.NewFont(face), nil)
				}
			}()
			if bad {
				os.Exit(1)
			}
		}
	}
	fmt.Println("ok: no panic in", tried, "fonts")
}
