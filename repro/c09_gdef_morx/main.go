// Reproducer (not part of any check). Two tables of a file that slice with an offset read from the file before any test:
//
//	gdef: GDEF 1.2/1.3 reads the MarkGlyphSetsDef (uint16) and ItemVarStore (uint32) offsets and slices src[offset:]
//	      without comparing them with len(src);
//	morx: the ligature subtable reads (ligatureOffset-componentOffset)/2 components after testing only that the data
//	      reaches componentOffset (the ligatureOffset test comes later, in parseLigatures), so it reads past the end —
//	      and allocates up to 2^31 entries from two uint32 of the file.
//
// Each table is replaced in a real font with opentype.WriteTTF; the file is then opened with font.ParseTTF.
package main

import (
	"bytes"
	"encoding/binary"
	"fmt"
	"os"

	td "github.com/go-text/typesetting-utils/opentype"
	"github.com/go-text/typesetting/font"
	ot "github.com/go-text/typesetting/font/opentype"
)

func replace(file string, tag string, edit func(old []byte) []byte) []byte {
	b, err := td.Files.ReadFile(file)
	if err != nil {
		fmt.Println(err)
		os.Exit(2)
	}
	ld, err := ot.NewLoader(bytes.NewReader(b))
	if err != nil {
		fmt.Println(err)
		os.Exit(2)
	}
	var tbs []ot.Table
	found := false
	for _, t := range ld.Tables() {
		raw, err := ld.RawTable(t)
		if err != nil {
			fmt.Println(err)
			os.Exit(2)
		}
		if t == ot.MustNewTag(tag) {
			raw = edit(raw)
			found = true
		}
		tbs = append(tbs, ot.Table{Tag: t, Content: raw})
	}
	if !found {
		tbs = append(tbs, ot.Table{Tag: ot.MustNewTag(tag), Content: edit(nil)})
	}
	return ot.WriteTTF(tbs)
}

func try(name string, file []byte) (bad bool) {
	defer func() {
		if r := recover(); r != nil {
			fmt.Printf("DEFECT %s: loading the file panics: %v\n", name, r)
			bad = true
		}
	}()
	_, err := font.ParseTTF(bytes.NewReader(file))
	fmt.Printf("ok %s, error: %v\n", name, err)
	return false
}

func main() {
	bad := false
	// GDEF 1.2 with no class definitions and a MarkGlyphSetsDef offset past the end
	bad = try("gdef/markGlyphSets", replace("common/Roboto-BoldItalic.ttf", "GDEF", func([]byte) []byte {
		return []byte{0, 1, 0, 2, 0, 0, 0, 0, 0, 0, 0, 0, 0xFF, 0xFF}
	})) || bad
	// GDEF 1.3 with an ItemVarStore offset past the end
	bad = try("gdef/itemVarStore", replace("common/Roboto-BoldItalic.ttf", "GDEF", func([]byte) []byte {
		return []byte{0, 1, 0, 3, 0, 0, 0, 0, 0, 0, 0, 0, 0, 0, 0, 0xFF, 0xFF, 0xFF}
	})) || bad
	// morx: in the first ligature subtable, move ligatureOffset far past the end of the table
	entries, _ := td.Files.ReadDir("morx")
	done := false
	for _, e := range entries {
		patched := false
		file := replace("morx/"+e.Name(), "morx", func(old []byte) []byte {
			out := append([]byte(nil), old...)
			if len(out) < 24 {
				return out
			}
			// header 8 bytes, chain header 16 bytes + features, then subtables
			nFeat := int(binary.BigEndian.Uint32(out[8+8:]))
			nSub := int(binary.BigEndian.Uint32(out[8+12:]))
			pos := 8 + 16 + 12*nFeat
			for i := 0; i < nSub && pos+12+16+12 <= len(out); i++ {
				length := int(binary.BigEndian.Uint32(out[pos:]))
				if out[pos+7] == 2 { // ligature: 12 bytes subtable header, 16 bytes state header, ligAction, component, ligature offsets
					binary.BigEndian.PutUint32(out[pos+12+16+8:], 0x00FFFFF0)
					patched = true
					return out
				}
				pos += length
			}
			return out
		})
		if patched {
			bad = try("morx/ligature "+e.Name(), file) || bad
			done = true
			break
		}
	}
	if !done {
		fmt.Println("no ligature subtable")
		os.Exit(2)
	}
	if bad {
		os.Exit(1)
	}
}
