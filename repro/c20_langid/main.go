// Reproducer (not part of any check): identifiers of the second segment of languagesInfos whose primary
// tag is in the first segment do not round-trip through NewLangID.
package main

import (
	"fmt"

	"github.com/go-text/typesetting/language"
)

func main() {
	for _, id := range []language.LangID{language.LangKs_Devanagari, language.LangMl_In, language.LangSd_Devanagari, language.LangMn, language.LangFr} {
		got, ok := language.NewLangID(id.Language())
		fmt.Printf("id=%d tag=%q NewLangID -> %d (%q) ok=%v roundtrip=%v\n", id, id.Language(), got, got.Language(), ok, got == id)
	}
}
