// Reproducer (not part of any check): an 8-byte 'kern' table (version 1, new format) announcing 0x10000000 subtables
// makes tables.ParseKern allocate numTables*sizeof(KernSubtable) bytes before reading anything.
// Run under a memory limit: (ulimit -v 2000000; go run .)
package main

import (
	"fmt"
	"os"
	"runtime"

	"github.com/go-text/typesetting/font/opentype/tables"
)

func main() {
	src := []byte{0, 1, 0, 0, 0x04, 0x00, 0x00, 0x00} // 0x04000000 = 67M subtables from 8 bytes of input
	var m0, m1 runtime.MemStats
	runtime.ReadMemStats(&m0)
	_, _, err := tables.ParseKern(src)
	runtime.ReadMemStats(&m1)
	grown := (m1.TotalAlloc - m0.TotalAlloc) >> 20
	fmt.Printf("ParseKern(8 bytes) err=%v, allocated %d MiB\n", err, grown)
	if grown > 16 {
		fmt.Println("DEFECT: allocation out of proportion to the input size")
		os.Exit(1)
	}
}
