// Reproducer (not part of any check):
//
//	cff:  cff.Parse returns &out[0] after testing only len(out) > 1: a CFF table whose Name and Top DICT INDEXes are
//	      empty (12 bytes) panics in font.ParseTTF;
//	gvar: the axis count of gvar is not compared with fvar's; calculateScalar indexes the peak tuple (gvar's axis count
//	      values) with the index of every coordinate (fvar's axis count).
package main

import (
	"bytes"
	"encoding/binary"
	"fmt"
	"os"

	td "github.com/go-text/typesetting-utils/opentype"
	"github.com/go-text/typesetting/font"
	ot "github.com/go-text/typesetting/font/opentype"
	"github.com/go-text/typesetting/font/opentype/tables"
)

func replace(file string, tag string, edit func(old []byte) []byte) []byte {
	b, err := td.Files.ReadFile(file)
	if err != nil {
		fmt.Println(err)
		os.Exit(2)
	}
	ld, err := ot.NewLoader(bytes.NewReader(b))
	if err != nil {
		fmt.Println(err)
		os.Exit(2)
	}
	var tbs []ot.Table
	found := false
	for _, t := range ld.Tables() {
		raw, err := ld.RawTable(t)
		if err != nil {
			fmt.Println(err)
			os.Exit(2)
		}
		if t == ot.MustNewTag(tag) {
			raw = edit(raw)
			found = true
		}
		tbs = append(tbs, ot.Table{Tag: t, Content: raw})
	}
	if !found {
		tbs = append(tbs, ot.Table{Tag: ot.MustNewTag(tag), Content: edit(nil)})
	}
	return ot.WriteTTF(tbs)
}

func main() {
	bad := false
	func() {
		defer func() {
			if r := recover(); r != nil {
				fmt.Println("DEFECT cff: loading the file panics:", r)
				bad = true
			}
		}()
		file := replace("common/Raleway-v4020-Regular.otf", "CFF ", func([]byte) []byte {
			return []byte{1, 0, 4, 1, 0, 0, 0, 0, 0, 0, 0, 0}
		})
		_, err := font.ParseTTF(bytes.NewReader(file))
		fmt.Println("ok cff, error:", err)
	}()
	gvarCase := func(name string, axisCount int, shared bool) {
		// a complete gvar table whose axis count differs from fvar's (4): data for glyph `gid` only: one tuple applying to
		// all points, all deltas zero; its peak is embedded (axisCount values) or is the shared tuple 0, which is non-zero on
		// the last axis only
		const gid = 40
		orig, _ := td.Files.ReadFile("common/Commissioner-VF.ttf")
		ld, _ := ot.NewLoader(bytes.NewReader(orig))
		maxp, _ := ld.RawTable(ot.MustNewTag("maxp"))
		head, _ := ld.RawTable(ot.MustNewTag("head"))
		locaRaw, _ := ld.RawTable(ot.MustNewTag("loca"))
		glyfRaw, _ := ld.RawTable(ot.MustNewTag("glyf"))
		numGlyphs := int(binary.BigEndian.Uint16(maxp[4:]))
		loca, err := tables.ParseLoca(locaRaw, numGlyphs, binary.BigEndian.Uint16(head[50:]) == 1)
		if err != nil {
			fmt.Println(err)
			os.Exit(2)
		}
		glyf, err := tables.ParseGlyf(glyfRaw, loca)
		if err != nil {
			fmt.Println(err)
			os.Exit(2)
		}
		nPoints := 4 // phantom points
		switch d := glyf[gid].Data.(type) {
		case tables.SimpleGlyph:
			nPoints += len(d.Points)
		case tables.CompositeGlyph:
			nPoints += len(d.Glyphs)
		}
		var serialized []byte
		for left := 2 * nPoints; left > 0; {
			run := left
			if run > 64 {
				run = 64
			}
			serialized = append(serialized, 0x80|byte(run-1)) // a run of zero deltas
			left -= run
		}
		var header []byte // tuple variation header: data size, tuple index (+ embedded peak)
		if shared {
			header = []byte{0, byte(len(serialized)), 0, 0}
		} else {
			header = []byte{0, byte(len(serialized)), 0x80, 0}
			for a := 0; a < axisCount; a++ {
				header = append(header, 0x40, 0x00)
			}
		}
		data := []byte{0, 1, 0, byte(4 + len(header))} // one tuple, then the offset of the serialized data
		data = append(data, header...)
		data = append(data, serialized...)
		if len(data)%2 == 1 {
			data = append(data, 0)
		}
		nShared := 0
		if shared {
			nShared = 1
		}
		gvar := []byte{0, 1, 0, 0, 0, byte(axisCount), 0, byte(nShared), 0, 0, 0, 0, byte(numGlyphs >> 8), byte(numGlyphs), 0, 0, 0, 0, 0, 0}
		arrayOffset := 20 + 2*(numGlyphs+1)
		binary.BigEndian.PutUint32(gvar[16:], uint32(arrayOffset))
		binary.BigEndian.PutUint32(gvar[8:], uint32(arrayOffset+len(data))) // shared tuples after the data
		for g := 0; g <= numGlyphs; g++ {
			off := 0
			if g > gid {
				off = len(data) / 2
			}
			gvar = append(gvar, byte(off>>8), byte(off))
		}
		gvar = append(gvar, data...)
		if shared {
			tuple := make([]byte, 2*axisCount)
			tuple[2*axisCount-2] = 0x40
			gvar = append(gvar, tuple...)
		}
		file := replace("common/Commissioner-VF.ttf", "gvar", func([]byte) []byte { return gvar })
		fnt, err := font.ParseTTF(bytes.NewReader(file))
		if err != nil {
			fmt.Println("ok: rejected", err)
			return
		}
		defer func() {
			if r := recover(); r != nil {
				fmt.Printf("DEFECT %s: the file loads and GlyphExtents at a varied position panics: %v\n", name, r)
				bad = true
			}
		}()
		face := font.NewFace(fnt.Font)
		face.SetVariations([]font.Variation{{Tag: ot.MustNewTag("wght"), Value: 900}, {Tag: ot.MustNewTag("slnt"), Value: -12},
			{Tag: ot.MustNewTag("FLAR"), Value: 100}, {Tag: ot.MustNewTag("VOLM"), Value: 100}})
		face.GlyphExtents(font.GID(gid))
		fmt.Println("ok", name)
	}
	gvarCase("gvar with fewer axes than fvar", 1, false)
	gvarCase("gvar with more axes than fvar (shared tuple active on the last one)", 6, true)
	if bad {
		os.Exit(1)
	}
}
