// Reproducer (not part of any check):
//
//	cff:  cff.Parse returns &out[0] after testing only len(out) > 1: a CFF table whose Name and Top DICT INDEXes are
//	      empty (12 bytes) panics in font.ParseTTF;
//	gvar: the axis count of gvar is not compared with fvar's; calculateScalar indexes the peak tuple (gvar's axis count
//	      values) with the index of every coordinate (fvar's axis count).
package main

import (
	"bytes"
	"encoding/binary"
	"fmt"
	"os"

	td "github.com/go-text/typesetting-utils/opentype"
	"github.com/go-text/typesetting/font"
	ot "github.com/go-text/typesetting/font/opentype"
	"github.com/go-text/typesetting/font/opentype/tables"
)

func replace(file string, tag string, edit func(old []byte) []byte) []byte {
	b, err := td.Files.ReadFile(file)
	if err != nil {
		fmt.Println(err)
		os.Exit(2)
	}
	ld, err := ot.NewLoader(bytes.NewReader(b))
	if err != nil {
		fmt.Println(err)
		os.Exit(2)
	}
	var tbs []ot.Table
	found := false
	for _, t := range ld.Tables() {
		raw, err := ld.RawTable(t)
		if err != nil {
			fmt.Println(err)
			os.Exit(2)
		}
		if t == ot.MustNewTag(tag) {
			raw = edit(raw)
			found = true
		}
		tbs = append(tbs, ot.Table{Tag: t, Content: raw})
	}
	if !found {
		tbs = append(tbs, ot.Table{Tag: ot.MustNewTag(tag), Content: edit(nil)})
	}
	return ot.WriteTTF(tbs)
}

func main() {
	bad := false
	func() {
		defer func() {
			if r := recover(); r != nil {
				fmt.Println("DEFECT cff: loading the file panics:", r)
				bad = true
			}
		}()
		file := replace("common/Raleway-v4020-Regular.otf", "CFF ", func([]byte) []byte {
			return []byte{1, 0, 4, 1, 0, 0, 0, 0, 0, 0, 0, 0}
		})
		_, err := font.ParseTTF(bytes.NewReader(file))
		fmt.Println("ok cff, error:", err)
	}()
	func() {
		// a complete gvar table with ONE axis (fvar has 4): no shared tuple, data for glyph `gid` only: one tuple with an
		// embedded peak, applying to all points, all deltas zero
		const gid = 40
		orig, _ := td.Files.ReadFile("common/Commissioner-VF.ttf")
		ld, _ := ot.NewLoader(bytes.NewReader(orig))
		maxp, _ := ld.RawTable(ot.MustNewTag("maxp"))
		head, _ := ld.RawTable(ot.MustNewTag("head"))
		locaRaw, _ := ld.RawTable(ot.MustNewTag("loca"))
		glyfRaw, _ := ld.RawTable(ot.MustNewTag("glyf"))
		numGlyphs := int(binary.BigEndian.Uint16(maxp[4:]))
		loca, err := tables.ParseLoca(locaRaw, numGlyphs, binary.BigEndian.Uint16(head[50:]) == 1)
		if err != nil {
			fmt.Println(err)
			os.Exit(2)
		}
		glyf, err := tables.ParseGlyf(glyfRaw, loca)
		if err != nil {
			fmt.Println(err)
			os.Exit(2)
		}
		nPoints := 4 // phantom points
		switch d := glyf[gid].Data.(type) {
		case tables.SimpleGlyph:
			nPoints += len(d.Points)
		case tables.CompositeGlyph:
			nPoints += len(d.Glyphs)
		}
		var serialized []byte
		for left := 2 * nPoints; left > 0; {
			run := left
			if run > 64 {
				run = 64
			}
			serialized = append(serialized, 0x80|byte(run-1)) // a run of zero deltas
			left -= run
		}
		data := []byte{0, 1, 0, 10} // one tuple, serialized data at 10
		data = append(data, 0, byte(len(serialized)), 0x80, 0, 0x40, 0x00)
		data = append(data, serialized...)
		if len(data)%2 == 1 {
			data = append(data, 0)
		}
		gvar := []byte{0, 1, 0, 0, 0, 1, 0, 0, 0, 0, 0, 0, byte(numGlyphs >> 8), byte(numGlyphs), 0, 0, 0, 0, 0, 0}
		arrayOffset := 20 + 2*(numGlyphs+1)
		binary.BigEndian.PutUint32(gvar[16:], uint32(arrayOffset))
		for g := 0; g <= numGlyphs; g++ {
			off := 0
			if g > gid {
				off = len(data) / 2
			}
			gvar = append(gvar, byte(off>>8), byte(off))
		}
		gvar = append(gvar, data...)
		file := replace("common/Commissioner-VF.ttf", "gvar", func([]byte) []byte { return gvar })
		fnt, err := font.ParseTTF(bytes.NewReader(file))
		if err != nil {
			fmt.Println("ok: rejected", err)
			return
		}
		defer func() {
			if r := recover(); r != nil {
				fmt.Println("DEFECT gvar: the file loads and GlyphExtents at a varied position panics:", r)
				bad = true
			}
		}()
		face := font.NewFace(fnt.Font)
		face.SetVariations([]font.Variation{{Tag: ot.MustNewTag("wght"), Value: 900}, {Tag: ot.MustNewTag("slnt"), Value: -12},
			{Tag: ot.MustNewTag("FLAR"), Value: 100}, {Tag: ot.MustNewTag("VOLM"), Value: 100}})
		face.GlyphExtents(font.GID(gid))
		fmt.Println("ok gvar")
	}()
	if bad {
		os.Exit(1)
	}
}
