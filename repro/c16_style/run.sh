#!/bin/sh
# runs the reproducer against /repo's working tree without writing into it
set -e
D=$(mktemp -d /tmp/c16style.XXXXXX)
cp "$(dirname "$0")/zz_repro_style_test.go.txt" "$D/zz_repro_style_test.go"; cp "$(dirname "$0")/zz_repro_weight_test.go.txt" "$D/zz_repro_weight_test.go"
printf '{"Replace":{"/repo/fontscan/zz_repro_style_test.go":"%s/zz_repro_style_test.go","/repo/fontscan/zz_repro_weight_test.go":"%s/zz_repro_weight_test.go"}}' "$D" "$D" > "$D/overlay.json"
cd /repo && GOFLAGS=-mod=mod GOPROXY=off GOSUMDB=off GOTOOLCHAIN=local timeout 300 go test -vet=off -count=1 -overlay "$D/overlay.json" -run TestReproCorrupted -v ./fontscan/ | tail -8
rc=$?
rm -rf "$D"
exit $rc
