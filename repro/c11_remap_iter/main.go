// Reproducer (not part of any check): for a symbol-encoded cmap (platform 3, encoding 0) ProcessCmap wraps the
// subtable in remaperSymbol, which overrides Lookup (U+0000..00FF -> U+F000..F0FF) but inherits Iter and RuneRanges:
// point lookups succeed for runes that enumeration (and hence the coverage used for font matching) never yields.
package main

import (
	"fmt"
	"os"

	"github.com/go-text/typesetting/font"
	"github.com/go-text/typesetting/font/opentype/tables"
)

func main() {
	sub := tables.CmapSubtable6{FirstCode: 0xF041, GlyphIdArray: []tables.GlyphID{5, 6, 7}} // U+F041..F043
	cm, _, err := font.ProcessCmap(tables.Cmap{Records: []tables.EncodingRecord{{PlatformID: 3, EncodingID: 0, Subtable: sub}}}, tables.FPNone)
	if err != nil {
		fmt.Println(err)
		os.Exit(2)
	}
	enumerated := map[rune]font.GID{}
	it := cm.Iter()
	for it.Next() {
		r, g := it.Char()
		enumerated[r] = g
	}
	bad := 0
	for r := rune(0); r < 0x10000; r++ {
		g, ok := cm.Lookup(r)
		eg, eok := enumerated[r]
		if ok != eok || (ok && g != eg) {
			if bad < 3 {
				fmt.Printf("DEFECT: Lookup(%U) = (%d,%v) but enumeration gives (%d,%v)\n", r, g, ok, eg, eok)
			}
			bad++
		}
	}
	fmt.Println("disagreements:", bad)
	if bad > 0 {
		os.Exit(1)
	}
}
