module repro

go 1.19

require github.com/go-text/typesetting v0.0.0

require golang.org/x/image v0.23.0 // indirect

replace github.com/go-text/typesetting => /repo
