// Reproducer (not part of any check): GPOS MarkMarkPos subtables are loaded without any Sanitize step (font/ot_layout.go
// sanitizes SinglePos, PairPos, MarkBasePos, MarkLigPos and ContextualPos only), and MarkLigPos.Sanitize does not
// look at the anchor offsets of its LigatureAttach tables. AnchorMatrix.Anchor then slices data[offset:] with an
// offset read from the file ("offset is sanitized"). This program patches two bytes of a real font — the first
// anchor offsets of every Mark2Array record — to 0xFFFF; the font still loads without error and Shape panics.
package main

import (
	"bytes"
	"encoding/binary"
	"fmt"
	"os"
	"reflect"
	"unsafe"

	td "github.com/go-text/typesetting-utils/opentype"
	"github.com/go-text/typesetting/font"
	"github.com/go-text/typesetting/font/opentype/tables"
	"github.com/go-text/typesetting/harfbuzz"
	"github.com/go-text/typesetting/language"
)

func main() {
	b, err := td.Files.ReadFile("common/NotoSansArabic.ttf")
	if err != nil {
		fmt.Println(err)
		os.Exit(2)
	}
	b = append([]byte(nil), b...)
	// table directory
	var gposOff, gposLen int
	for i, n := 0, int(binary.BigEndian.Uint16(b[4:])); i < n; i++ {
		rec := b[12+16*i:]
		if string(rec[:4]) == "GPOS" {
			gposOff, gposLen = int(binary.BigEndian.Uint32(rec[8:])), int(binary.BigEndian.Uint32(rec[12:]))
		}
	}
	gpos := b[gposOff : gposOff+gposLen]
	layout, _, err := tables.ParseLayout(gpos)
	if err != nil {
		fmt.Println(err)
		os.Exit(2)
	}
	patched := 0
	countMode := len(os.Args) > 1 && os.Args[1] == "count"
	for _, lk := range layout.LookupList.Lookups {
		sts, err := lk.AsGPOSLookups()
		if err != nil {
			continue
		}
		for _, st := range sts {
			if ext, ok := st.(tables.ExtensionPos); ok {
				if st, err = ext.Resolve(); err != nil {
					continue
				}
			}
			mm, ok := st.(tables.MarkMarkPos)
			if !ok {
				continue
			}
			// the unexported data slice of Mark2Array aliases gpos: its address gives the position in the file
			data := reflect.ValueOf(mm.Mark2Array).FieldByName("data")
			if data.Len() < 4 {
				continue
			}
			p := data.Pointer()
			at := int(p - uintptr(unsafe.Pointer(&gpos[0])))
			if at < 0 || at+4 > len(gpos) {
				fmt.Println("unexpected layout")
				os.Exit(2)
			}
			if countMode {
				// second defect: nothing compares the Mark1 coverage with the number of Mark1 records. The subtable
				// header is found back from the Mark2Array position; the record count of the Mark1Array is set to 1.
				for k := 12; k <= at; k++ {
					s := at - k
					if binary.BigEndian.Uint16(gpos[s:]) == 1 && binary.BigEndian.Uint16(gpos[s+6:]) == mm.MarkClassCount && int(binary.BigEndian.Uint16(gpos[s+10:])) == k {
						m1 := s + int(binary.BigEndian.Uint16(gpos[s+8:]))
						if int(binary.BigEndian.Uint16(gpos[m1:])) == len(mm.Mark1Array.MarkRecords) && len(mm.Mark1Array.MarkRecords) > 1 {
							binary.BigEndian.PutUint16(gpos[m1:], 1)
							patched++
						}
						break
					}
				}
				continue
			}
			nrec := int(binary.BigEndian.Uint16(gpos[at:]))
			cc := int(mm.MarkClassCount)
			for r := 0; r < nrec; r++ {
				for c := 0; c < cc; c++ {
					o := at + 2 + 2*(r*cc+c)
					if binary.BigEndian.Uint16(gpos[o:]) != 0 {
						binary.BigEndian.PutUint16(gpos[o:], 0xFFFF)
						patched++
					}
				}
			}
		}
	}
	if patched == 0 {
		fmt.Println("no MarkMarkPos subtable")
		os.Exit(2)
	}
	face, err := font.ParseTTF(bytes.NewReader(b))
	if err != nil {
		fmt.Println("ok: the loader rejects the file:", err)
		return
	}
	defer func() {
		if r := recover(); r != nil {
			fmt.Println("DEFECT: the file loads and shaping panics:", r)
			os.Exit(1)
		}
	}()
	buf := harfbuzz.NewBuffer()
	buf.AddRunes([]rune("بَّبُّ\u0628\u0650\u0655\u0628\u064e\u0653\u0670"), 0, -1)
	buf.Props.Direction = harfbuzz.RightToLeft
	buf.Props.Script = language.Arabic
	buf.Props.Language = "ar"
	buf.Shape(harfbuzz.NewFont(face), nil)
	fmt.Println("ok", len(buf.Info))
}
