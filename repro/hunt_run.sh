#!/bin/sh
# usage: hunt_run.sh <package dir relative to /repo> <test file (.go.txt)> <-run regexp>
# runs one reproducer test against /repo's working tree through a build overlay, without writing into /repo
set -e
PKG=$1; SRC=$(readlink -f "$2"); RUN=$3
D=$(mktemp -d /tmp/huntrun.XXXXXX)
B=$(basename "$SRC" .txt)
cp "$SRC" "$D/$B"
printf '{"Replace":{"/repo/%s/%s":"%s/%s"}}' "$PKG" "$B" "$D" "$B" > "$D/overlay.json"
cd /repo
set +e
GOFLAGS=-mod=mod GOPROXY=off GOSUMDB=off GOTOOLCHAIN=local timeout 600 go test -vet=off -count=1 -overlay "$D/overlay.json" -run "$RUN" "./$PKG/" 2>&1 | tail -25
rc=$?
rm -rf "$D"
exit $rc
