// Reproducer (not part of any check): WriteTTF's checksum appends padding onto the caller's Content slice
// (overwriting bytes beyond its length when it has spare capacity) and pads r instead of 4-r bytes, so the
// last byte of a table whose length is 1 mod 4 is not summed.
package main

import (
	"encoding/binary"
	"fmt"
	"os"

	ot "github.com/go-text/typesetting/font/opentype"
)

func refChecksum(b []byte) uint32 {
	p := append([]byte{}, b...)
	for len(p)%4 != 0 {
		p = append(p, 0)
	}
	var s uint32
	for i := 0; i < len(p); i += 4 {
		s += binary.BigEndian.Uint32(p[i:])
	}
	return s
}

func main() {
	bad := 0
	backing := []byte{1, 2, 3, 4, 5, 0xAA, 0xBB, 0xCC} // the table is backing[:5]; the rest belongs to the caller
	content := backing[:5]
	out := ot.WriteTTF([]ot.Table{{Content: content, Tag: ot.MustNewTag("abcd")}})
	if backing[5] != 0xAA {
		fmt.Printf("DEFECT: caller's byte beyond len(Content) overwritten: % x\n", backing)
		bad++
	}
	got := binary.BigEndian.Uint32(out[12+4:])
	if want := refChecksum(content); got != want {
		fmt.Printf("DEFECT: directory checksum %#x, expected %#x for a 5-byte table\n", got, want)
		bad++
	}
	if bad > 0 {
		os.Exit(1)
	}
	fmt.Println("ok")
}
