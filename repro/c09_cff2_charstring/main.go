// Reproducer (not part of any check): two CFF2 charstring operators take an integer from the operand stack and test only
// its upper bound. `-1 vsindex` indexes ItemVariationDatas[-1]; `-1 blend` passes the "enough arguments" test
// (Top < n*(k+1) is false for a negative n) and slices the stack with a low bound above the high bound. The first two
// bytes of one charstring of a real CFF2 font are replaced; the font loads and asking for the glyph panics.
package main

import (
	"bytes"
	"fmt"
	"os"
	"reflect"
	"unsafe"

	td "github.com/go-text/typesetting-utils/opentype"
	"github.com/go-text/typesetting/font"
	"github.com/go-text/typesetting/font/cff"
	ot "github.com/go-text/typesetting/font/opentype"
)

func replace(file string, tag string, edit func(old []byte) []byte) []byte {
	b, err := td.Files.ReadFile(file)
	if err != nil {
		fmt.Println(err)
		os.Exit(2)
	}
	ld, err := ot.NewLoader(bytes.NewReader(b))
	if err != nil {
		fmt.Println(err)
		os.Exit(2)
	}
	var tbs []ot.Table
	found := false
	for _, t := range ld.Tables() {
		raw, err := ld.RawTable(t)
		if err != nil {
			fmt.Println(err)
			os.Exit(2)
		}
		if t == ot.MustNewTag(tag) {
			raw = edit(raw)
			found = true
		}
		tbs = append(tbs, ot.Table{Tag: t, Content: raw})
	}
	if !found {
		tbs = append(tbs, ot.Table{Tag: ot.MustNewTag(tag), Content: edit(nil)})
	}
	return ot.WriteTTF(tbs)
}

const gid = 5

func try(name string, prog []byte, vary bool) (bad bool) {
	file := replace("common/NotoSansCJKjp-VF.otf", "CFF2", func(old []byte) []byte {
		out := append([]byte(nil), old...)
		c, err := cff.ParseCFF2(out)
		if err != nil || len(c.Charstrings) <= gid || len(c.Charstrings[gid]) < len(prog) {
			fmt.Println("unexpected CFF2 table", err)
			os.Exit(2)
		}
		// Charstrings alias the table: the address of one gives its position
		at := int(reflect.ValueOf(c.Charstrings[gid]).Pointer() - uintptr(unsafe.Pointer(&out[0])))
		copy(out[at:], prog)
		return out
	})
	fnt, err := font.ParseTTF(bytes.NewReader(file))
	if err != nil {
		fmt.Println("ok: rejected", err)
		return false
	}
	defer func() {
		if r := recover(); r != nil {
			fmt.Printf("DEFECT %s: the file loads and GlyphData(%d) panics: %v\n", name, gid, r)
			bad = true
		}
	}()
	face := font.NewFace(fnt.Font)
	if vary {
		face.SetVariations([]font.Variation{{Tag: ot.MustNewTag("wght"), Value: 900}})
	}
	face.GlyphData(font.GID(gid))
	face.GlyphExtents(font.GID(gid))
	fmt.Println("ok", name)
	return false
}

func main() {
	bad := false
	bad = try("-1 vsindex", []byte{138, 15}, false) || bad
	bad = try("-1 blend (variations set)", []byte{138, 16}, true) || bad
	bad = try("-1 blend, then operands (no variation)", []byte{138, 16, 139, 139, 139, 139, 139, 139, 139, 139, 139, 139}, false) || bad
	if bad {
		os.Exit(1)
	}
}
