// Reproducer (not part of any check): tables.AnchorMatrix.Anchor tests `len(records) < index` and `len(offsets) < class`
// before indexing, so an index equal to the length passes the guard and panics. The mark class of a MarkRecord is
// read from the file and compared with nothing when the GPOS table is loaded (MarkBasePos.Sanitize checks the counts
// against the coverages and the anchor offsets only), so a font whose mark record names class == markClassCount
// loads without error and panics in Shape. The two bytes of the record are set here on the parsed table.
package main

import (
	"bytes"
	"fmt"
	"os"

	td "github.com/go-text/typesetting-utils/opentype"
	"github.com/go-text/typesetting/font"
	"github.com/go-text/typesetting/font/opentype/tables"
	"github.com/go-text/typesetting/harfbuzz"
	"github.com/go-text/typesetting/language"
)

func main() {
	b, err := td.Files.ReadFile("common/NotoSansArabic.ttf")
	if err != nil {
		fmt.Println(err)
		os.Exit(2)
	}
	face, err := font.ParseTTF(bytes.NewReader(b))
	if err != nil {
		fmt.Println(err)
		os.Exit(2)
	}
	n := 0
	for _, lk := range face.GPOS.Lookups {
		for _, st := range lk.Subtables {
			if mb, ok := st.(tables.MarkBasePos); ok {
				classCount := 0
				for _, r := range mb.MarkArray.MarkRecords {
					if int(r.MarkClass)+1 > classCount {
						classCount = int(r.MarkClass) + 1
					}
				}
				// the slices are shared with the lookup stored in the font
				for i := range mb.MarkArray.MarkRecords {
					mb.MarkArray.MarkRecords[i].MarkClass = uint16(classCount)
					n++
				}
			}
		}
	}
	if n == 0 {
		fmt.Println("no MarkBasePos subtable")
		os.Exit(2)
	}
	defer func() {
		if r := recover(); r != nil {
			fmt.Println("DEFECT: shaping panics:", r)
			os.Exit(1)
		}
	}()
	buf := harfbuzz.NewBuffer()
	buf.AddRunes([]rune("بَبُبِّ"), 0, -1)
	buf.Props.Direction = harfbuzz.RightToLeft
	buf.Props.Script = language.Arabic
	buf.Props.Language = "ar"
	buf.Shape(harfbuzz.NewFont(face), nil)
	fmt.Println("ok", len(buf.Info))
}
