// Reproducer (not part of any check): the CFF2 reader takes its offsets from DICT operands, which are signed, and tests
// only that offset+size does not exceed the table: a negative CharStrings/FDArray/vstore offset, or a negative Private
// DICT size, passes the test and becomes a negative slice bound. An INDEX count of 0xFFFFFFFF makes count+1 wrap to 0, so
// the offset-array length test passes and make([][]byte, count) asks for 96 GiB ("huge" mode, run under ulimit -v).
// The CFF2 INDEX reader also accepts any offSize, and the offset decoder panics ("unreachable") outside 1..4.
// Each case is a complete CFF2 table placed in a real OpenType file and opened with font.ParseTTF.
package main

import (
	"bytes"
	"fmt"
	"os"

	td "github.com/go-text/typesetting-utils/opentype"
	"github.com/go-text/typesetting/font"
	ot "github.com/go-text/typesetting/font/opentype"
)

func replace(file string, tag string, edit func(old []byte) []byte) []byte {
	b, err := td.Files.ReadFile(file)
	if err != nil {
		fmt.Println(err)
		os.Exit(2)
	}
	ld, err := ot.NewLoader(bytes.NewReader(b))
	if err != nil {
		fmt.Println(err)
		os.Exit(2)
	}
	var tbs []ot.Table
	found := false
	for _, t := range ld.Tables() {
		raw, err := ld.RawTable(t)
		if err != nil {
			fmt.Println(err)
			os.Exit(2)
		}
		if t == ot.MustNewTag(tag) {
			raw = edit(raw)
			found = true
		}
		tbs = append(tbs, ot.Table{Tag: t, Content: raw})
	}
	if !found {
		tbs = append(tbs, ot.Table{Tag: ot.MustNewTag(tag), Content: edit(nil)})
	}
	return ot.WriteTTF(tbs)
}
func try(name string, file []byte) (bad bool) {
	defer func() {
		if r := recover(); r != nil {
			fmt.Printf("DEFECT %s: loading the file panics: %v\n", name, r)
			bad = true
		}
	}()
	_, err := font.ParseTTF(bytes.NewReader(file))
	fmt.Printf("ok %s, error: %v\n", name, err)
	return false
}

// header (5 bytes) + top dict + an empty global subr INDEX (count 0) + padding
func cff2(topDict []byte, rest ...byte) []byte {
	out := []byte{2, 0, 5, 0, byte(len(topDict))}
	out = append(out, topDict...)
	out = append(out, 0, 0, 0, 0, 1) // global subrs: count = 0
	out = append(out, rest...)
	return append(out, make([]byte, 64)...)
}

func main() {
	const file = "common/NotoSansCJKjp-VF.otf"
	with := func(table []byte) []byte { return replace(file, "CFF2", func([]byte) []byte { return table }) }
	if len(os.Args) > 1 && os.Args[1] == "huge" {
		// global subr INDEX with count = 0xFFFFFFFF, offSize = 1
		table := append([]byte{2, 0, 5, 0, 0}, 0xFF, 0xFF, 0xFF, 0xFF, 1)
		table = append(table, make([]byte, 64)...)
		if try("INDEX count 0xFFFFFFFF", with(table)) {
			os.Exit(1)
		}
		return
	}
	bad := false
	// operand -3 is the single byte 136; operator 17 = CharStrings
	bad = try("negative CharStrings offset", with(cff2([]byte{136, 17}))) || bad
	// operator 24 = vstore, operand -1 = 138
	bad = try("negative vstore offset", with(cff2([]byte{139 + 20, 17, 139 + 20, 12, 36, 138, 24}))) || bad
	// global subr INDEX with count = 1 and offSize = 0: the CFF2 path does not validate offSize (the CFF path does)
	bad = try("INDEX offSize 0", with(append([]byte{2, 0, 5, 0, 0, 0, 0, 0, 1, 0}, make([]byte, 64)...))) || bad
	if bad {
		os.Exit(1)
	}
}
