// Reproducer (not part of any check): Buffer.Pos is not re-sized when swapBuffers changes len(Buffer.Info);
// reverseRange (and otLayoutDeleteGlyphsInplace) then index Pos with Info's length.
// A leading mark makes insertDottedCircle add a glyph; a non-native direction makes ensureNativeDirection
// reverse the buffer before clearPositions has re-synchronised Pos.
package main

import (
	"bytes"
	"fmt"
	"os"

	td "github.com/go-text/typesetting-utils/opentype"
	"github.com/go-text/typesetting/font"
	"github.com/go-text/typesetting/harfbuzz"
	"github.com/go-text/typesetting/language"
)

func try(face *font.Face, text string, dir harfbuzz.Direction, script language.Script) (panicked interface{}) {
	defer func() { panicked = recover() }()
	buf := harfbuzz.NewBuffer()
	buf.AddRunes([]rune(text), 0, -1)
	buf.Flags = harfbuzz.Bot | harfbuzz.Eot
	buf.Props.Direction = dir
	buf.Props.Script = script
	buf.Shape(harfbuzz.NewFont(face), nil)
	return nil
}

func main() {
	bad := 0
	for _, file := range []string{"common/DejaVuSans.ttf", "common/NotoSansArabic.ttf", "common/FreeSerif.ttf"} {
		b, err := td.Files.ReadFile(file)
		if err != nil {
			continue
		}
		face, err := font.ParseTTF(bytes.NewReader(b))
		if err != nil {
			continue
		}
		for _, text := range []string{"́abc", "́abcdefg", "ًab", "́"} {
			for _, dir := range []harfbuzz.Direction{harfbuzz.LeftToRight, harfbuzz.RightToLeft, harfbuzz.TopToBottom, harfbuzz.BottomToTop} {
				for _, sc := range []language.Script{language.Latin, language.Arabic} {
					if p := try(face, text, dir, sc); p != nil {
						bad++
						if bad <= 5 {
							fmt.Printf("PANIC %s text=%q dir=%v script=%v: %v\n", file, text, dir, sc, p)
						}
					}
				}
			}
		}
	}
	fmt.Printf("%d panics\n", bad)
	if bad > 0 {
		os.Exit(1)
	}
}
