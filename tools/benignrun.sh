#!/bin/sh
# usage: benignrun.sh <patch.diff>
# Applies a (behaviour-preserving) patch to a scratch worktree of /repo and runs the quick tier of every claimed property
# against it. Prints one line per check that does not exit 0, or "silent". Nothing is written into /repo or /verif.
PATCH=$(realpath "$1")
D=$(mktemp -d /tmp/ben.XXXXXX)
git -C /repo worktree add -q --detach "$D/repo" HEAD || exit 2
if ! git -C "$D/repo" apply "$PATCH" 2>/dev/null; then echo "$1: patch does not apply"; git -C /repo worktree remove --force "$D/repo"; rm -rf "$D"; exit 2; fi
mkdir -p "$D/verif/evidence"; ln -s /verif/sa "$D/verif/sa"; cp /verif/known_findings.json "$D/verif/"
bad=0
for id in C01 C02 C03 C06 C07 C08 C09 C11 C12 C13 C14 C15 C16 C17 C18 C19 C20; do
  VERIF_DIR="$D/verif" /verif/bin/vsa check "$id" --repo "$D/repo" > "$D/out.$id" 2>&1; rc=$?
  if [ $rc -ne 0 ]; then bad=1; echo "$1: $id exit=$rc"; grep -E "UNDECIDED|violated:" "$D/out.$id" | cut -c1-330 | head -4; fi
done
[ $bad -eq 0 ] && echo "$1: silent"
git -C /repo worktree remove --force "$D/repo"; rm -rf "$D"
exit $bad
