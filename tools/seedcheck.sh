#!/bin/bash
# usage: seedcheck.sh <seed_out_dir(with patch.diff + zz_seed*_test.go)> <Cxx> [more checks...]
# Confirms the seed in a scratch worktree of /repo HEAD (suite passes with patch, demo fails with patch, passes without)
# and runs the given checks against the patched tree.
set -u
S=$(realpath "$1"); shift
export GOFLAGS=-mod=mod GOPROXY=off GOSUMDB=off GOTOOLCHAIN=local
D=$(mktemp -d /tmp/seedchk.XXXXXX)
git -C /repo worktree add -q --detach "$D/repo" HEAD || exit 2
cd "$D/repo"
DEMO=$(ls "$S"/*_test.go 2>/dev/null | head -1)
if [ -z "$DEMO" ]; then echo "no demo test"; fi
PKGNAME=$(grep -m1 '^package ' "$DEMO" | awk '{print $2}' | sed 's/_test$//')
case "$PKGNAME" in
  opentype) PKGDIR=font/opentype;; tables) PKGDIR=font/opentype/tables;; cff) PKGDIR=font/cff;; *) PKGDIR=$PKGNAME;;
esac
RUNNAME=$(grep -o '^func Test[A-Za-z0-9_]*' "$DEMO" | sed 's/func //' | paste -sd'|')
cp "$DEMO" "$PKGDIR/"
echo "demo: $PKGDIR/$(basename $DEMO) run=$RUNNAME"
timeout 900 go test -vet=off -count=1 -run "^($RUNNAME)\$" ./$PKGDIR/ > "$D/demo_clean.log" 2>&1; echo "demo on clean tree: exit=$?"
if ! git apply "$S/patch.diff"; then echo "PATCH DOES NOT APPLY"; fi
go build ./... > "$D/build.log" 2>&1; echo "build with patch: exit=$?"
timeout 900 go test -vet=off -count=1 -run "^($RUNNAME)\$" ./$PKGDIR/ > "$D/demo_patched.log" 2>&1; echo "demo on patched tree: exit=$? (expected non-zero)"
tail -3 "$D/demo_patched.log" | cut -c1-200
rm "$PKGDIR/$(basename $DEMO)"
timeout 1500 go test -vet=off -count=1 ./... > "$D/suite.log" 2>&1; echo "suite with patch: exit=$?"
grep -v "^ok\|no test files" "$D/suite.log" | head -5
mkdir -p "$D/verif/evidence"; ln -s /verif/sa "$D/verif/sa"; cp /verif/known_findings.json "$D/verif/"
for id in "$@"; do
  VERIF_DIR="$D/verif" /verif/bin/vsa check "$id" --repo "$D/repo" > "$D/out.$id" 2>&1
  echo "== check $id exit=$?"
  grep -E "violated:|UNDECIDED" "$D/out.$id" | cut -c1-260
done
cd /; git -C /repo worktree remove --force "$D/repo"; rm -rf "$D"
