#!/usr/bin/env python3
# Regenerates /verif/MANIFEST.json. Claimed properties are listed in CLAIMS; everything else goes to not_applicable.
import json, os
ROOT = os.path.dirname(os.path.dirname(os.path.abspath(__file__)))

CLAIMS = {
 "C01": dict(
  text="Structural necessary conditions of 'shaping is total', decided on all paths of all functions: every recursive SCC has a re-derived termination argument and recursion in loops a shared work budget (R-REC); every writer of Buffer.Info re-sizes Buffer.Pos or is confined to an output-mode bracket that is closed on all paths, and the re-sync takes its length from len(Info) (R-SYNC); the operation/length budgets are initialised from the input length before any reader runs and tested in the lookup loop (R-BUDGET); integer divisors are provably non-zero (R-DIV); every array access indexed by a Coverage index is bounded by a test in its function or by a loader comparison of len(<that field>) with <that coverage>.Len(), matched by field identity, one obligation per call site when the array is a parameter (R-COVIDX, 22 accesses); and the slice accesses of package harfbuzz whose bounds were locally derivable when the set was frozen (132 function/field keys, among them the tests on font-supplied lookup, mark-set and nested-lookup indices) are still derivable (R-IDX, a regression rule). Does not decide cluster accounting, loop termination, or index arithmetic that rests on buffer invariants. (R-NIL) no method is invoked on an interface field of the table structures that a NULL offset leaves nil: the NULL-able fields are found in the parsers (stores control-dependent on `offset != 0`), closed under field copies, and every invoke site whose receiver may be such a field — through parameters to all callers, captured variables, call results — is dominated by a nil test of that field, or the field is replaced by an empty table in a fill function through which every parsed lookup is handed out. (R-FONTIDX) in the shaper an index read directly from a field of a font table is compared with an upper bound on the way to every array access, or is one the loader replaces when out of range; (R-COVIDX/resolved) the lookup sanitizers are dispatched, directly or through a helper, on the subtable as it is after extensions are resolved. (R-BUDGET/grow) every site that makes the buffer longer by an amount the font chooses (a loop emitting one glyph per element of a given slice, a replaceGlyphs with a non-literal list, an append of a computed make to Info) is bounded by Buffer.maxLen.",
  note="VTA call graph over-approximates dynamic calls; stdlib and x/text are not analysed; guards are recognised as SSA comparisons of the counter with a bound",
  technique="static analysis: call-graph SCC inventory + CFG path rules (edge dominance, must-precede/must-follow) on go/ssa + backward value-origin analysis of interface receivers with dominance of nil tests (R-NIL)",
  ref="DESIGN.md §4 C01"),
 "C02": dict(
  text="Structural clauses of 'wrapping conserves every glyph': (R-GLYPHS) no function reachable from the LineWrapper entry points stores to a field of shaping.Glyph, except into a slice that the same function has just copied (make or append(nil, ...), copy-on-write): candidate, committed and input runs share glyph backing arrays; (R-ADV) every store to Glyph.XAdvance/YAdvance is followed on all paths by RecomputeAdvance/RecalculateAll, in the function or in every caller up to the exported API; (R-CUT) every run handed to the candidate line originates from the iterator, from cutRun or from processBreakOption; (R-TRIM/start) the run of a line built by the single-run shortcut has its leading letter spacing trimmed on every path, as the first run of the lines built by WrapNextLine. The two R-GLYPHS findings of the pinned tree were repaired (copy-on-write) and their reverts are part of the thorough tier. Coverage/contiguity/termination arithmetic is NOT decided.",
  note="VTA call graph reachability; RunIterator implementations outside the module are not analysed",
  technique="static analysis: who-may-write over call-graph reachability, CFG must-follow with propagation to callers, value-origin check on go/ssa",
  ref="DESIGN.md §4 C02"),
 "C03": dict(
  text="Path rules on the wrapper's state machine, decided on every CFG path: (R-VALID) a candidate is cut and committed only on the accepted edge of breakOption.isValid / never on the breakInvalid edge; (R-NEVER) with BreakPolicy == Never (field not written in the region, P-FX) and the exhaustive switch over processBreakOption's constant results closed, the grapheme fallback is unreachable; (R-REQ) after a fitting mandatory candidate the line ends before any further candidate is requested, and every path from a fitting UAX#14 candidate to the next request tests the required flag. That candidates equal UAX opportunities, and the WhenNecessary law, are NOT decided.",
  note="anchored on the functions the property names (processBreakOption, wrapNextLine, isValid, cutRun, nextWordBreak/nextGraphemeBreak); renaming them makes the check undecided, not failing",
  technique="static analysis: CFG edge-dominance and gated reachability on go/ssa (assumed field value, callee return-constant sets)",
  ref="DESIGN.md §4 C03"),
 "C06": dict(
  text="Two clauses of the segmentation property, decided statically: (history independence) with P-FX, Segmenter.Init writes every field that it or the line/grapheme/word iterators may read, and the rule cursor is a fresh local, so results cannot depend on earlier uses of the object; (one class per rune) the line, grapheme and word class tables are well-formed as unicode.Is requires, pairwise disjoint, and the two pre-filter tables equal the union of their families, for all 0x110000 code points. Agreement of the rule functions with UAX #29/#14 is NOT decided. (R-TABONLY) the three break-class lookups return only entries of their table or the documented default and compare their rune with no constant.",
  note="field-based effects; unicode.Is trusted; the UAX rule tables are not available in the sandbox",
  technique="static analysis: field-effect fixpoint (exposed-read/must-write) on go/ssa + constant evaluation of table literals",
  ref="DESIGN.md §4 C06"),
 "C07": dict(
  text="Three clauses of the itemization property: (history independence) every field of shaping.Segmenter that Split may read before writing is classified (the pools are read by reset only to drop stale pointers); (frame) no function reachable from Split other than reset assigns Input.Text, Input.Size or Input.FontFeatures; (table preconditions) pairedDelims is strictly increasing and ScriptRanges sorted and disjoint, as the two bisections require. Exact cover, level parity, script uniformity and face resolution are NOT decided. (R-BIDI/par) every caller of bidi.Paragraph.SetString uses the consumed count or cuts the text at the paragraph separators itself, so that the text after a newline gets its own levels. (R-TAB/parity) the paired delimiters table, consulted by position, has no opening punctuation at an odd index and no closing one at an even index; (R-TAB/scriptlang) the representative language of a script is written in that script according to the language table.",
  note="field-based effects over the VTA call graph; x/text bidi.Paragraph.SetString trusted as a full reset",
  technique="static analysis: field-effect fixpoint + who-may-write check over call-graph reachability + constant evaluation of tables",
  ref="DESIGN.md §4 C07"),
 "C08": dict(
  text="Two clauses of the visual-order property: (R-OWN) only computeBidiOrdering and swapVisualOrder store Output.VisualIndex in package shaping, and swapVisualOrder's two stores are a transposition of the same two locations (so an ordering that is a permutation stays one); (R-ORDER) in postProcessLine every append to the line is followed on all paths by computeBidiOrdering and every read of VisualIndex is preceded by it. Agreement with rule L2 of UAX #9 for embedding levels is NOT decided: Output carries only the level parity, so the level-2 mis-ordering the property mentions is invisible to these rules. (R-TRIM, R-TRIM/fast) the trimmed run is selected by comparing VisualIndex values, and the line built by the single run shortcut of WrapParagraph is returned only after the trailing whitespace trim unless the trim is disabled. (R-STATE) the direction and trim flag the wrapper orders and trims with are not those of a previous paragraph.",
  note="who-may-write by field identity; exchange recognised on SSA address expressions",
  technique="static analysis: who-may-write check + CFG must-follow/must-precede on go/ssa",
  ref="DESIGN.md §4 C08"),
 "C11": dict(
  text="Structural clauses of 'lookup, enumeration and coverage agree': (R-SIB) every type of package font that implements Cmap by embedding a Cmap and declares its own Lookup also declares Iter — the three findings of the pinned tree (the symbol / legacy-Arabic remappers) were repaired and their revert is part of the thorough tier; (R-COV) both coverage builders of fontscan are fed with the cmap the face uses (Font.Cmap, respectively font.ProcessCmap(tables.ParseCmap(raw), page), the constructor NewFont stores into Font.Cmap), and the font page the scanner hands to ProcessCmap is (Os2).FontPage() read on the edge where ParseOs2 succeeded (it was read on the error edge on the pinned tree: repaired); (R-TAB) ScriptRanges sorted and disjoint, the precondition of the merge in scriptsFromRanges. Agreement of Lookup and Iter inside each cmap format, RuneSet algebra and page arithmetic are NOT decided.",
  note="method sets from go/types; SSA def-use for the coverage source",
  technique="static analysis: sibling-method agreement over go/types method sets + SSA value-origin check + table evaluation",
  ref="DESIGN.md §4 C11"),
 "C12": dict(
  text="Two clauses of geometric self-consistency: (R-ADV) every store to Glyph.XAdvance/YAdvance in package shaping is followed on all paths by RecomputeAdvance/RecalculateAll in the function or in every caller up to the exported API (Shape, AddWordSpacing, AddLetterSpacing, sideways, cutRun, postProcessLine), so Output.Advance tracks the glyphs; (R-SIDE) for a sideways input the buffer direction is assigned only after SwitchAxis, and Output.sideways precedes the font-extents read for out.Direction. Numeric identities (bounds, rotation, spacing amounts) are NOT decided.",
  note="the recompute call is not tied to the same Output value (any RecomputeAdvance/RecalculateAll on the path counts)",
  technique="static analysis: CFG must-follow with propagation to callers, must-precede under an assumed flag on go/ssa",
  ref="DESIGN.md §4 C12"),
 "C09": dict(
  text="Structural necessary conditions of 'font loading is total', decided over the whole module: (R-REC) every recursive SCC has a re-derived termination argument and recursion in loops a shared work budget; (R-ALLOC) every make in the font-reading packages whose size has a 32/64-bit file value in its backward slice is guarded by a comparison on that value whose other edge returns a definite error (the capacity idiom is not a guard); (R-COUNT) every signed count parameter that sizes a make without a sign test receives, at every in-module call site, an argument that is provably non-negative (unsigned conversions, len/cap, guarded differences, clamped phis, fields and callee results with the same property); (R-GEN) in the five font-reading packages every index, slice and binary.*.UintN access to a []byte follows, by linear arithmetic over the length tests that dominate it, from those tests (upper bounds and non-negative lower bounds; 331 functions decided, 35 listed with a reason as not claimed because the argument is non-linear or spans sibling functions); (R-LOOP) data-driven loops have a counted exit; (R-DIV) divisors are provably non-zero. A guard whose operand is computed by a wrapping 32-bit operation does not count unless the allocation is sized by the wrapped value. (R-IDX) the accesses to slices of any element type in hand-written font code whose bounds were locally derivable when the set was frozen (231 function/field keys) are still derivable. The two findings that were recorded as known (composite-glyph fan-out, findTableBuffer) have been repaired; their reverts are part of the thorough tier. Index panics on parsed (non-byte) structures and general loop termination are NOT decided. (R-NIL) no method is invoked on an interface field of the table structures that a NULL offset leaves nil: the NULL-able fields are found in the parsers (stores control-dependent on `offset != 0`), closed under field copies, and every invoke site whose receiver may be such a field — through parameters to all callers, captured variables, call results — is dominated by a nil test of that field, or the field is replaced by an empty table in a fill function through which every parsed lookup is handed out. Inside readers the length of every make is provably non-negative. (R-PROGRESS) parse loops that advance by the length a nested reader returns, for a 32-bit count of the file, advance by at least one byte on every successful return. (R-OPBUDGET) the charstring interpreter counts every dispatched operator against a constant bound that fails when exceeded, and every iteration that dispatched an operator carries the incremented count.",
  note="64-bit int assumed for unsigned-to-int conversions; 16-bit sizes are bounded by type; stdlib decoders (zlib, png, ...) trusted",
  technique="static analysis: call-graph SCC inventory, backward value slices and CFG edge-dominance on go/ssa, interprocedural sign analysis, linear length-fact prover (P-LIN) over dominating comparisons + backward value-origin analysis of interface receivers with dominance of nil tests (R-NIL)",
  ref="DESIGN.md §4 C09"),
 "C13": dict(
  text="Structural necessary conditions of 'reusable objects never leak state', decided for the caches of the reusable objects: (R-KEY/fields) every leaf of the shape-plan cache key that shapePlan.init fills from an input not covered by the map key is read by shapePlan.equal (data/control dependence of each stored value on each parameter, through callees); (R-KEY/projection) the key of the shaper's font cache is not a strict projection of an argument that the constructor of the cached value captures; (R-INV) every function outside the cached computation that may write a field read by Face.glyphExtentsRaw resets the extents cache on all paths, up to the exported API. Reset completeness of scratch state (R-STATE) is reported separately in the evidence when built. Equality of results with a fresh object in general is not decided. (R-STALE) kept storage is re-extended in place past its length only where the exposed elements are overwritten whole or for three reviewed fields; (R-STATE/array) both elements of Buffer.context are reset on every path through Buffer.Clear; (R-KEY/globals) package-level options read while a plan is built are part of the plan key.",
  note="field-based effects (one abstract object per type), VTA call graph; dependence analysis is scoped to the key constructor and its callees; classification tables for exempt fields carry one-line reasons in sa/c13.go",
  technique="static analysis: data/control-dependence (P-ORG) of key fields, field-effect sets and CFG must-follow/must-precede of invalidators on go/ssa",
  ref="DESIGN.md §4 C13"),
 "C14": dict(
  text="Cache transparency and step order of FontMap, structurally: (R-INV) every writer of a field read by ResolveFace's miss path other than the key components clears the rune LRU — the key components being the fields ResolveFace passes to the runeLRU.KeyFor* constructor in a parameter that reaches the returned key, among which query and script must be —, and every writer of a field read by buildCandidates resets built, on every path through the write or in every caller up to the exported API; (R-KEY/hash) the LRU key hashes the query families and runeLRU.Get returns a hit only on the equal edge of an exact comparison of them; (R-STEPS) on the miss path buildCandidates runs first and the four documented searches occur in order on every path, each returning the face it finds before a later step, and every path of buildCandidates that sets built has run the substitution pass, the user-font pass and the aspect narrowing. Totality (non-nil result) and the substitution scoring are not decided.",
  note="field-based effects; exempt fields (idempotent memos, scratch buffers, logger) are listed with reasons in sa/c13.go; the LRU key function is trusted to keep apart the values of the parameters that reach its result (data flow, not injectivity); a function that only forwards to another one is the same step",
  technique="static analysis: field-effect sets over the VTA call graph + CFG must-follow/must-precede of invalidators on go/ssa",
  ref="DESIGN.md §4 C14"),
 "C15": dict(
  text="One structural clause of the style-matching property: (R-STEPS) retainsBestMatches returns filterByWeight(filterByStyle(filterByStretch(candidates, matchStretch), matchStyle), matchWeight) with each matcher evaluated on exactly the list its filter narrows and asked for the corresponding field of the query after SetDefaults (stretch, then style, then weight). The search orders inside the three matchers (boundaries at 400/500 and StretchNormal) are comparisons on runtime floats and are NOT decided; the finite grid enumeration the property suggests is a dynamic technique.",
  note="SSA expression-tree match of the narrowing chain; anchored on the function names of fontscan/match.go",
  technique="static analysis: dataflow chain (SSA def-use) and must-precede on go/ssa",
  ref="DESIGN.md §4 C15"),
 "C16": dict(
  text="The crash/corruption clause of the font-index property, decided for every reader of the cache format: (R-GEN) in each deserialize* function of fontscan every index, slice and binary.*.UintN access to the input bytes follows, by linear arithmetic, from the length tests that dominate it (failing edges of comparisons, loop invariants, lengths of made slices, `read <= len(arg)` post-conditions of nested readers, constant length preconditions of helpers checked at every call site), so a truncated or corrupted cache yields an error and not a panic; (R-ERR) the error of every deserialize* call is returned or tested, the single deliberate discard feeding only a rescan. Round-trip equality of writer and reader, and 'incremental refresh equals a from-scratch scan' over file-system histories, are NOT decided (behaviour over an external mutable world). And one structural necessary condition of the round-trip clause: (R-LAYOUT) each serialize* function and its deserialize* sibling (11 pairs; every codec-named function of fontscan must be in the pair table) go through the same sequence of layout items — fixed-width integers, single bytes, raw runs, nested records — with the same widths, constant offsets and strides (named constants folded), loop nesting and struct field. Values, clamping and lengths of the round trip are not decided. (R-STAMP) every FileInfo reaching the time stamp that keys scan reuse comes from a stat that follows symbolic links, or from lstat only where the entry was tested not to be a link; (R-DRAIN) the index reader returns success only after the gzip stream was read to its end with the error tested, so that its checksum is verified. Refresh-versus-rescan over file-system histories is otherwise not decided.",
  note="integer overflow of offset arithmetic is not modelled (64-bit int); compress/gzip and bytes.Buffer trusted; readers are recognised by name (deserialize*), with an instance floor",
  technique="static analysis: linear length-fact prover (P-LIN) over dominating comparisons on go/ssa + error-use check at call sites + writer/reader layout-sequence comparison on the type-checked syntax tree (sibling cross-check)",
  ref="DESIGN.md §4 C16"),
 "C17": dict(
  text="Static effect argument for 'a parsed font can be shared': no function that can run after package initialisation writes memory derived from a package-level variable (R-GLOBAL, only exemption: a direct store inside a literal passed to sync.Once.Do), and no function reachable from the exported API outside constructors writes memory derived from any *font.Font (R-FONT; subsumes caching a per-goroutine object on the font). All mutation kinds are covered (stores, map updates, copy/append destinations, delete/clear, sort.*, binary Put*, io.Read*). Absence of such writes implies absence of data races on that memory under every schedule; equality of concurrent and sequential results beyond that is not decided.",
  note="origin tracking is context-insensitive and field-based; references stored as elements of non-derived containers are re-discovered by type only; stdlib/x-text/x-image trusted; no unsafe/reflect/cgo (checked)",
  technique="static analysis: interprocedural origin (taint) tracking on go/ssa + VTA call-graph reachability (init-only / post-construction sets)",
  ref="DESIGN.md §4 C17"),
 "C18": dict(
  text="Two structural clauses of the unsafe-to-break property: (R-PROP) in shaperOpentype.shape propagateFlags runs on every path to the exit and nothing that may write GlyphInfo.Mask (P-FX) runs after it, and Buffer.setGlyphFlags sets the scratch flag that enables propagation before any mask write; (R-UTB/exists) every function of the OpenType layout engine that reads neighbouring glyphs through a context primitive (skippingIterator.next/prev, matchInput/Backtrack/Lookahead) can reach, after that read, a call that marks the inspected range (unsafeToBreak*, mergeClusters*, or a helper reaching one), itself or in all its callers; (R-UTB/must) in those functions no path from the context read to a constant `return true` within the same loop iteration avoids every marking call; (R-MINCL) in Buffer.setGlyphFlags the cluster exempted from an interior flag is the result of a findMinCluster chain over exactly the ranges that receive the flag. (R-UTB/syllables) every function that calls a syllable finder iterates over the syllables on every path and flags each of them whole with unsafeToBreak(start, end) on the two results of syllableIterator.next(); (R-UTB/halfopen) no function flags the half-open range [start, end) and stores into the glyph at index end; (R-UTB/cursor) a marking call whose range starts at the cursor is not preceded in the same loop iteration by anything that may move the cursor. That the marked range is the right one beyond these clauses, and the script shapers' joining and reordering decisions, are NOT decided.",
  note="R-UTB/must is path-insensitive apart from cutting loop back edges; one instance (applyGPOS/next) is decided by reading and listed with its reason; R-MINCL is anchored on setGlyphFlags/findMinCluster/infosSetGlyphFlags and is undecided (exit 2) if their shape changes",
  technique="static analysis: CFG must-follow, field-effect sets and reachability on go/ssa",
  ref="DESIGN.md §4 C18"),
 "C19": dict(
  text="Two structural clauses of 'written files read back unchanged': (R-RO) origin tracking from WriteTTF's tables parameter shows that no store, copy/append/Put* destination in any function targets caller memory (an append whose first operand is caller memory counts as a write into its spare capacity); (R-DIR) the directory entry layout of the writer agrees with readOTFEntry field by field — at the offset where the reader assigns Tag/CheckSum/Offset/Length the writer stores a 32-bit value of that role (the table's tag, checksum(table.Content), the running offset, len(Content)), the body copy loop follows the same offset recurrence, and numTables is written where readOTFHeader reads it. Checksum arithmetic and header search fields are not decided. The running offset is rounded up to a multiple of 4 after each table, by the same arithmetic in the directory and in the body.",
  note="encoding/binary trusted; roles are recognised on SSA values (field of Table, call of checksum on that table's Content, len(Content), phi advanced by len(Content))",
  technique="static analysis: origin tracking (P-ORG) + writer/reader layout extraction on go/ssa",
  ref="DESIGN.md §4 C19"),
 "C20": dict(
  text="Static, exhaustive evaluation of every generated table literal (P-LIT) against the coherence conditions the lookups rely on (sortedness/disjointness for bisection, family disjointness, pre-filter = union, compose/decompose inverse, mirroring involution, language table order/canonical form/identifier correspondence) plus an SSA-derived bit-effect check of di.Direction setters/getters, R-TABONLY (table-driven lookups return only table values), R-BISECT (bisected tables are sorted by the searched key) and R-LANGID (NewLangID is exact-first, so unique tags imply that every identifier round-trips). Decides internal coherence for all code points; does not decide agreement with the UCD. (R-TAB/blocks) no two-point entry of a general-category table spans a block whose interior has the same category; (R-TAB/scriptlang) as in C07; the class lookups decide through table membership only.",
  note="trusts unicode.Is, sort.Search and the short bisection loops; tables are evaluated from syntax with go/types constants, nothing is executed",
  technique="static analysis: constant evaluation of table literals (AST + go/types) and SSA bit-effect analysis",
  ref="DESIGN.md §4 C20"),
}

NA = {
 "C04": "every clause compares sums of runtime glyph advances with a runtime width or counts lines; no structural necessary condition beyond what C02/C03 claim (DESIGN.md §5)",
 "C05": "differential equality with reference HarfBuzz; no shape of the Go source implies agreement and the reference is not available as source (DESIGN.md §5)",
 "C10": "differential, numeric equality with independent decoders over every glyph; not decidable from the shape of the code (DESIGN.md §5)",
}
PENDING = "check under construction in this revision (see DESIGN.md §4); not claimed until its rules are exact on the pinned tree"

def main():
    extra = {}
    p = os.path.join(ROOT, "tools", "claims_extra.json")
    if os.path.exists(p):
        extra = json.load(open(p))
    claims = dict(CLAIMS); claims.update(extra.get("claims", {}))
    na = dict(NA); na.update(extra.get("na", {}))
    ids = ["C%02d" % i for i in range(1, 21)]
    checks = []
    for pid in ids:
        if pid not in claims: continue
        c = claims[pid]
        checks.append({
          "property_id": pid,
          "quick_cmd": "sh ./check.sh %s quick" % pid,
          "thorough_cmd": "sh ./check.sh %s thorough" % pid,
          "evidence_file": "evidence/%s.json" % pid,
          "replay_cmd_template": "./bin/vsa explain {path}",
          "engine": "vsa",
          "level_claimed": {"category": "other", "text": c["text"], "design_ref": c["ref"]},
          "level_note": c["note"],
          "technique": c["technique"],
        })
    not_app = []
    for pid in ids:
        if pid in claims: continue
        not_app.append({"property_id": pid, "reason": na.get(pid, PENDING)})
    m = {
     "version": 1,
     "setup_cmd": "sh ./setup.sh",
     "hooks": {"guard": "verif", "enable": "none: static analysis reads the source, no instrumentation is compiled into /repo",
               "baseline_off_cmd": "cd /repo && GOFLAGS=-mod=mod go test -vet=off -count=1 ./...", "source_commits": [], "add_only": True},
     "engines": [{"name": "vsa", "path": "sa/", "serves_properties": sorted(claims),
                  "kind_free_text": "custom static analyser over go/packages + go/types + go/ssa + VTA call graph (x/tools v0.29.0, vendored); rule tables specific to go-text/typesetting; positive controls in sa/testdata/ctl run before every verdict"}],
     "checks": checks,
     "not_applicable": not_app,
     "notes": "All checks are static analyses run by sa/ (vsa) on /repo's working tree; level 'other' = structural necessary conditions decided exhaustively over the obligations the rules generate. Known findings: known_findings.json. Seeded changes: seeded/.",
    }
    json.dump(m, open(os.path.join(ROOT, "MANIFEST.json"), "w"), indent=1)
    print("claimed:", " ".join(sorted(claims)))

main()
