#!/bin/sh
# usage: fixflow.sh <pkgdir of reproducer> <reproducer .go.txt> <RunRegex> <commit message>
# After an edit of /repo: package tests, the reproducer, every quick check; commits in /repo only if all pass.
export GOFLAGS=-mod=mod GOPROXY=off GOSUMDB=off GOTOOLCHAIN=local
cd /repo || exit 2
go build ./... || exit 1
go test -count=1 ./... 2>&1 | grep -v "^ok\|no test files" ; 
if go test -count=1 ./... 2>&1 | grep -q "^FAIL\|^---"; then echo "TESTS FAIL"; exit 1; fi
out=$(sh /verif/repro/hunt_run.sh "$1" "$2" "$3" 2>&1); echo "$out" | tail -4
echo "$out" | grep -q "^ok" || { echo "REPRODUCER STILL FAILS"; exit 1; }
cd /verif && bash tools/allquick.sh 2>&1 | tail -6 | grep -q "all 17 quick checks exit 0" || { echo "QUICK CHECKS NOT GREEN"; bash tools/allquick.sh 2>&1 | tail -15; exit 1; }
git -C /repo commit -qam "$4" && git -C /repo log --oneline | head -1
