#!/bin/sh
# usage: muttest.sh <patch.diff> <Cxx> [<Cxx>...]
# Applies the patch to a scratch worktree of /repo (outside /repo and /verif), runs the given checks against it with
# evidence redirected to a scratch VERIF_DIR, prints the verdict lines and removes everything.
set -u
PATCH=$(realpath "$1"); shift
D=$(mktemp -d /tmp/mut.XXXXXX)
git -C /repo worktree add -q --detach "$D/repo" HEAD || exit 2
if ! git -C "$D/repo" apply "$PATCH"; then echo "patch does not apply"; git -C /repo worktree remove --force "$D/repo"; rm -rf "$D"; exit 2; fi
mkdir -p "$D/verif/evidence"
ln -s /verif/sa "$D/verif/sa"
cp /verif/known_findings.json "$D/verif/" 2>/dev/null
for id in "$@"; do
  VERIF_DIR="$D/verif" /verif/bin/vsa check "$id" --repo "$D/repo" > "$D/out.$id" 2>&1
  rc=$?
  echo "== $id exit=$rc"
  grep -E "VIOLATION|UNDECIDED|violated:|KNOWN-FINDING" "$D/out.$id" | cut -c1-400
done
git -C /repo worktree remove --force "$D/repo"
rm -rf "$D"
