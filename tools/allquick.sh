#!/bin/sh
# runs the quick tier of every claimed property and prints one line per check that does not exit 0
cd "$(dirname "$0")/.."
bad=0
for c in C01 C02 C03 C06 C07 C08 C09 C11 C12 C13 C14 C15 C16 C17 C18 C19 C20; do
  out=$(sh ./check.sh $c quick 2>&1); rc=$?
  if [ $rc -ne 0 ]; then bad=1; echo "$c exit=$rc"; echo "$out" | grep -E "violated|UNDECIDED" | cut -c1-300 | head -5; fi
done
[ $bad -eq 0 ] && echo "all 17 quick checks exit 0"
exit $bad
