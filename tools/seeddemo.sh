#!/bin/bash
# usage: seeddemo.sh <seeded/<id> dir>
# Quick re-confirmation of a stored seed on the current /repo HEAD: its demonstration passes on the clean tree and fails with
# the patch applied (scratch worktree; nothing is written into /repo). The complete suite is NOT re-run (tools/seedcheck.sh does).
S=$(realpath "$1")
export GOFLAGS=-mod=mod GOPROXY=off GOSUMDB=off GOTOOLCHAIN=local
D=$(mktemp -d /tmp/seeddemo.XXXXXX)
git -C /repo worktree add -q --detach "$D/repo" HEAD || exit 2
cd "$D/repo"
res="$(basename $S):"
for DEMO in "$S"/*_test.go.txt; do
  [ -f "$DEMO" ] || { res="$res no-demo"; continue; }
  B=$(basename "$DEMO" .txt)
  PKGNAME=$(grep -m1 '^package ' "$DEMO" | awk '{print $2}' | sed 's/_test$//')
  case "$PKGNAME" in
    opentype) PKGDIR=font/opentype;; tables) PKGDIR=font/opentype/tables;; cff) PKGDIR=font/cff;; interpreter) PKGDIR=font/cff/interpreter;; *) PKGDIR=$PKGNAME;;
  esac
  RUNNAME=$(grep -o '^func Test[A-Za-z0-9_]*' "$DEMO" | sed 's/func //' | paste -sd'|')
  cp "$DEMO" "$PKGDIR/$B"
  timeout 900 go test -vet=off -count=1 -run "^($RUNNAME)\$" ./$PKGDIR/ > "$D/clean.log" 2>&1; c=$?
  if ! git apply "$S/patch.diff" 2>/dev/null; then res="$res PATCH-DOES-NOT-APPLY"; rm -f "$PKGDIR/$B"; continue; fi
  timeout 900 go test -vet=off -count=1 -run "^($RUNNAME)\$" ./$PKGDIR/ > "$D/patched.log" 2>&1; p=$?
  git apply -R "$S/patch.diff"; rm -f "$PKGDIR/$B"
  if [ $c -eq 0 ] && [ $p -ne 0 ]; then res="$res ok"; else res="$res DRIFT(clean=$c,patched=$p)"; fi
done
echo "$res"
cd /; git -C /repo worktree remove --force "$D/repo"; rm -rf "$D"
