package main

// raliascmp.go — R-ALIASCMP: change detection is not made against storage that aliases the caller's.

import (
	"fmt"
	"go/types"
	"sort"

	"golang.org/x/tools/go/ssa"
)

// ruleAliasCompare: a method that keeps a parameter holding a slice or a map as it is in a field of its receiver (no
// copy: the field then aliases memory the caller may rewrite in place) must not decide that "nothing has changed" by
// comparing the parameter with that field: when the caller edits its storage and passes it again, the comparison sees the
// storage compared with itself and whatever the method does on a change (invalidating a cache) is skipped. Reported: a
// function with such a store, and a test whose condition depends on both the parameter and a load of the field, one
// branch of which reaches a return without passing through the store.
func ruleAliasCompare(p *Prog, r *Report, pkgs []string, floor int) {
	const rule = "R-ALIASCMP"
	in := map[string]bool{}
	for _, k := range pkgs {
		in[p.pkgPath(k)] = true
	}
	var fns []*ssa.Function
	for _, f := range p.ModFns() {
		if fnPkg(f) != nil && in[fnPkg(f).Path()] && f.Signature.Recv() != nil && len(f.Blocks) > 0 {
			fns = append(fns, f)
		}
	}
	sort.Slice(fns, func(i, j int) bool { return fns[i].String() < fns[j].String() })
	n := 0
	for _, f := range fns {
		for _, par := range f.Params[1:] {
			if !carriesRef(par.Type()) {
				continue
			}
			if _, isPtr := par.Type().Underlying().(*types.Pointer); isPtr {
				continue // a pointer is an identity, not a value that is compared
			}
			// stores of the parameter, whole, into a field reached from the receiver
			var stores []*ssa.Store
			var fld *types.Var
			for _, b := range f.Blocks {
				for _, ins := range b.Instrs {
					st, ok := ins.(*ssa.Store)
					if !ok || st.Val != ssa.Value(par) {
						continue
					}
					if fv := fieldOf(st.Addr); fv != nil {
						stores = append(stores, st)
						fld = fv
					}
				}
			}
			if len(stores) == 0 {
				continue
			}
			n++
			key := fmt.Sprintf("%s(%s) -> %s", p.FnName(f), par.Name(), fld.Name())
			r.Instance(rule, key)
			isStore := func(x ssa.Instruction) bool {
				for _, st := range stores {
					if x == ssa.Instruction(st) {
						return true
					}
				}
				return false
			}
			usesPar := func(v ssa.Value) bool { return v == ssa.Value(par) }
			usesFld := func(v ssa.Value) bool { return isLoadOfField(v, fld) }
			bad := ""
			for _, b := range f.Blocks {
				iff := ifOf(b)
				if iff == nil {
					continue
				}
				if !derivesFrom(iff.Cond, usesPar, 0) || !derivesFrom(iff.Cond, usesFld, 0) {
					continue
				}
				for _, succ := range b.Succs {
					if len(succ.Instrs) == 0 {
						continue
					}
					if hit, _ := reachableFrom(p, f, point{succ, 0}, isExit, isStore, nil); hit != nil {
						bad = p.IPos(iff)
					}
				}
			}
			r.Check(bad == "", rule, key, p.Pos(f.Pos()), fmt.Sprintf("%s keeps its parameter %s in %s without copying it and does not compare the two to decide that nothing has changed", p.FnName(f), par.Name(), fld.Name())+pref(bad))
		}
	}
	r.Floor(rule, n, floor)
}
