package main

// plin.go — P-LIN: linear length facts for byte-slice readers. For every access to a []byte value (index, slice,
// binary.*.UintN, calls of readers with a length precondition) the required inequality `len(s) >= e` is proved from the
// comparisons that dominate the access (their failing edges), loop headers, lengths of made slices, and callee
// post-conditions (`read <= len(arg)`), by non-negative combination of facts (exact rational arithmetic).
// Integer overflow of the index arithmetic is not modelled (documented assumption).

import (
	"fmt"
	"go/token"
	"go/types"
	"math/big"
	"sort"
	"strings"

	"golang.org/x/tools/go/ssa"
)

// ---- linear forms ------------------------------------------------------------------------------------------------

type atom struct {
	v     ssa.Value
	isLen bool // len(v) rather than v
}

type lin struct {
	c map[atom]*big.Rat
	k *big.Rat
}

func newLin() *lin { return &lin{c: map[atom]*big.Rat{}, k: new(big.Rat)} }

func (a *lin) clone() *lin {
	b := newLin()
	b.k.Set(a.k)
	for x, q := range a.c {
		b.c[x] = new(big.Rat).Set(q)
	}
	return b
}

func (a *lin) addScaled(b *lin, s *big.Rat) *lin {
	out := a.clone()
	out.k.Add(out.k, new(big.Rat).Mul(b.k, s))
	for x, q := range b.c {
		cur := out.c[x]
		if cur == nil {
			cur = new(big.Rat)
			out.c[x] = cur
		}
		cur.Add(cur, new(big.Rat).Mul(q, s))
		if cur.Sign() == 0 {
			delete(out.c, x)
		}
	}
	return out
}

func linConst(k int64) *lin { l := newLin(); l.k.SetInt64(k); return l }
func linAtom(x atom) *lin   { l := newLin(); l.c[x] = big.NewRat(1, 1); return l }

var ratOne = big.NewRat(1, 1)
var ratMinusOne = big.NewRat(-1, 1)

func (a *lin) sub(b *lin) *lin { return a.addScaled(b, ratMinusOne) }
func (a *lin) add(b *lin) *lin { return a.addScaled(b, ratOne) }

func (a *lin) String() string {
	var parts []string
	for x, q := range a.c {
		n := x.v.Name()
		if x.isLen {
			n = "len(" + n + ")"
		}
		parts = append(parts, q.RatString()+"*"+n)
	}
	sort.Strings(parts)
	parts = append(parts, a.k.RatString())
	return strings.Join(parts, " + ")
}

// ---- per-function context ------------------------------------------------------------------------------------------

type linFn struct {
	noConstSplit bool // re-entrancy guard of the constant-edge case of the phi split
	px      *linProver
	fn      *ssa.Function
	facts   map[*ssa.BasicBlock][]*lin // facts F >= 0 valid on entry of the block (from dominating edges)
	extra   []*lin                     // facts valid everywhere after their defining instruction (call post-conditions): guarded by dominance at use
	extraAt []ssa.Instruction
	canonM  map[ssa.Value]ssa.Value
	// diseq: forms known to be different from 0 on entry of the block (x != k edges whose sign could not be decided when
	// the facts were built: the sign may follow from facts that come later, e.g. the invariant i >= 0 of a range loop)
	diseq        map[*ssa.BasicBlock][]*lin
	pendingDiseq []*lin
}

// canon: two loads of the same field path of a local that is written only by the store of a parameter into it (a spilled
// value parameter), and two Field reads of the same field of the same value, denote the same quantity: the first of them
// in block order stands for all.
func (lf *linFn) canon(v ssa.Value) ssa.Value {
	if lf.canonM == nil {
		lf.canonM = map[ssa.Value]ssa.Value{}
		var loads []*ssa.UnOp
		var volatile []*ssa.UnOp
		var fields []*ssa.Field
		var convs []*ssa.Convert
		var bins []*ssa.BinOp
		for _, b := range lf.fn.Blocks {
			for _, in := range b.Instrs {
				switch x := in.(type) {
				case *ssa.UnOp:
					if x.Op != token.MUL {
						continue
					}
					if fa, isFA := x.X.(*ssa.FieldAddr); !isFA || !(readOnlyLocalAddr(x.X) || lf.stableField(fa)) {
						// any other location: a second load of the same address denotes the same quantity as a first
						// one that dominates it when nothing that may write memory lies on a path between the two
						// (no CSE in go/ssa: `p := &s[i]; if n < int(p.f)+2 {..}; use(p.f)` loads p.f twice)
						for _, y := range volatile {
							if sameAddr(y.X, x.X) && noClobberBetween(y, x) {
								lf.canonM[x] = y
								break
							}
						}
						if _, done := lf.canonM[x]; !done {
							volatile = append(volatile, x)
						}
						continue
					}
					rep := ssa.Value(x)
					for _, y := range loads {
						if sameAddr(y.X, x.X) {
							rep = y
							break
						}
					}
					if rep == ssa.Value(x) {
						loads = append(loads, x)
					}
					lf.canonM[x] = rep
				case *ssa.Convert:
					rep := ssa.Value(x)
					for _, y := range convs {
						if types.Identical(y.Type(), x.Type()) && lf.canon2(y.X) == lf.canon2(x.X) {
							rep = y
							break
						}
					}
					if rep == ssa.Value(x) {
						convs = append(convs, x)
					}
					lf.canonM[x] = rep
				case *ssa.BinOp:
					// a pure arithmetic expression evaluated twice on the same operands (no CSE in go/ssa)
					switch x.Op {
					case token.SHR, token.SHL, token.AND, token.OR, token.XOR, token.AND_NOT:
						rep := ssa.Value(x)
						for _, y := range bins {
							if y.Op == x.Op && types.Identical(y.Type(), x.Type()) && sameOperand(lf, y.X, x.X) && sameOperand(lf, y.Y, x.Y) {
								rep = y
								break
							}
						}
						if rep == ssa.Value(x) {
							bins = append(bins, x)
						}
						lf.canonM[x] = rep
					}
				case *ssa.Field:
					rep := ssa.Value(x)
					for _, y := range fields {
						if y.Field == x.Field && lf.canon2(y.X) == lf.canon2(x.X) {
							rep = y
							break
						}
					}
					if rep == ssa.Value(x) {
						fields = append(fields, x)
					}
					lf.canonM[x] = rep
				}
			}
		}
	}
	if r, ok := lf.canonM[v]; ok {
		return r
	}
	return v
}

// noClobberBetween: l1 dominates l2 and no instruction that may write memory (a store that is not to a local whose
// address does not escape, a call other than a pure builtin, a map update, send, go, defer) lies on a path from l1 to l2
// that does not pass l1 again.
func noClobberBetween(l1, l2 *ssa.UnOp) bool {
	b1, b2 := l1.Block(), l2.Block()
	clobbers := func(in ssa.Instruction) bool {
		switch x := in.(type) {
		case *ssa.Store:
			if al, ok := x.Addr.(*ssa.Alloc); ok && !al.Heap {
				return false
			}
			return true
		case *ssa.Call:
			if bi, ok := x.Call.Value.(*ssa.Builtin); ok {
				switch bi.Name() {
				case "len", "cap", "min", "max", "real", "imag", "complex":
					return false
				}
			}
			return true
		case *ssa.MapUpdate, *ssa.Send, *ssa.Go, *ssa.Defer, *ssa.RunDefers, *ssa.Select, *ssa.Panic:
			return true
		}
		return false
	}
	i1, i2 := instrIndex(l1), instrIndex(l2)
	if b1 == b2 {
		if i1 >= i2 {
			return false
		}
		for _, in := range b1.Instrs[i1+1 : i2] {
			if clobbers(in) {
				return false
			}
		}
		return true
	}
	if !b1.Dominates(b2) {
		return false
	}
	// blocks on a path from b1 to b2 not passing b1 again: forward from b1's successors, backward from b2's predecessors
	fwd := map[*ssa.BasicBlock]bool{}
	var f func(b *ssa.BasicBlock)
	f = func(b *ssa.BasicBlock) {
		if b == b1 || fwd[b] {
			return
		}
		fwd[b] = true
		if b == b2 {
			return
		}
		for _, s := range b.Succs {
			f(s)
		}
	}
	for _, s := range b1.Succs {
		f(s)
	}
	bwd := map[*ssa.BasicBlock]bool{}
	var g func(b *ssa.BasicBlock)
	g = func(b *ssa.BasicBlock) {
		if b == b1 || bwd[b] {
			return
		}
		bwd[b] = true
		for _, pr := range b.Preds {
			g(pr)
		}
	}
	for _, pr := range b2.Preds {
		g(pr)
	}
	for _, in := range b1.Instrs[i1+1:] {
		if clobbers(in) {
			return false
		}
	}
	for _, in := range b2.Instrs[:i2] {
		if clobbers(in) {
			return false
		}
	}
	for b := range fwd {
		if b == b2 || !bwd[b] {
			continue
		}
		for _, in := range b.Instrs {
			if clobbers(in) {
				return false
			}
		}
	}
	// b2 inside a cycle that does not pass b1: its own tail may run before l2 executes again
	if bwd[b2] && fwd[b2] {
		for _, in := range b2.Instrs[i2:] {
			if clobbers(in) {
				return false
			}
		}
	}
	return true
}

func sameOperand(lf *linFn, a, b ssa.Value) bool {
	if lf.canon2(a) == lf.canon2(b) {
		return true
	}
	ka, ok1 := intConst(a)
	kb, ok2 := intConst(b)
	return ok1 && ok2 && ka == kb
}

func (lf *linFn) canon2(v ssa.Value) ssa.Value {
	if r, ok := lf.canonM[v]; ok {
		return r
	}
	return v
}

type linProver struct {
	p    *Prog
	nn   *nonNegCtx
	wr   map[*ssa.Function]*fieldWrites
	post map[*ssa.Function]map[int]int   // fn -> result index -> index of the []byte parameter it is bounded by (result <= len(param))
	pre  map[*ssa.Function]map[int]int64 // fn -> []byte parameter index -> required minimal length
	fns  map[*ssa.Function]*linFn
}

func isByteSlice(t types.Type) bool {
	if allSlices {
		if pt, ok := t.Underlying().(*types.Pointer); ok {
			if _, isArr := pt.Elem().Underlying().(*types.Array); isArr {
				return true
			}
		}
	}
	s, ok := t.Underlying().(*types.Slice)
	if !ok {
		return false
	}
	if allSlices {
		return true
	}
	b, ok := s.Elem().Underlying().(*types.Basic)
	return ok && b.Kind() == types.Uint8
}

// allSlices widens the obligations of R-GEN from []byte to every slice type (exploration only: `vsa plin -all`).
var allSlices = false

// lenForm: linear form of len(s).
func (lf *linFn) lenForm(s ssa.Value, d int) *lin {
	if d > 10 {
		return linAtom(atom{s, true})
	}
	s = lf.canon(s)
	if pt, ok := s.Type().Underlying().(*types.Pointer); ok {
		if ar, ok := pt.Elem().Underlying().(*types.Array); ok {
			return linConst(ar.Len())
		}
	}
	switch x := s.(type) {
	case *ssa.Slice:
		var hi *lin
		if x.High != nil {
			hi = lf.form(x.High, d+1)
		} else {
			hi = lf.lenForm(x.X, d+1)
			if pt, ok := x.X.Type().Underlying().(*types.Pointer); ok {
				if ar, ok := pt.Elem().Underlying().(*types.Array); ok {
					hi = linConst(ar.Len())
				}
			}
		}
		lo := linConst(0)
		if x.Low != nil {
			lo = lf.form(x.Low, d+1)
		}
		return hi.sub(lo)
	case *ssa.MakeSlice:
		return lf.form(x.Len, d+1)
	case *ssa.Phi:
		// all edges with the same form
		var f0 *lin
		for _, e := range x.Edges {
			f := lf.lenForm(e, d+1)
			if f0 == nil {
				f0 = f
			} else if f0.String() != f.String() {
				return linAtom(atom{s, true})
			}
		}
		if f0 != nil {
			return f0
		}
	case *ssa.UnOp:
		// load of a field (or variable) of a local object that is assigned exactly once, by a store that dominates the load
		if x.Op == token.MUL {
			if st := lf.uniqueStore(x.X, x); st != nil {
				return lf.lenForm(st.Val, d+1)
			}
		}
	case *ssa.Convert:
		// string(bytes) etc.
	}
	return linAtom(atom{s, true})
}

// uniqueStore: the single store of the function into the local location addr, provided it dominates `use`.
func (lf *linFn) uniqueStore(addr ssa.Value, use ssa.Instruction) *ssa.Store {
	if localRoot(addr) == nil {
		if _, isAlloc := addr.(*ssa.Alloc); !isAlloc {
			// a field of an object reached from a parameter (`cp.EntryExits = make(..)` followed by `cp.EntryExits[i]`):
			// forwarded when the field is assigned once in the function and nothing the function calls may write it
			fa, isFA := addr.(*ssa.FieldAddr)
			if !isFA || !lf.fieldOnlyWrittenHere(fa) {
				return nil
			}
		}
	}
	var found *ssa.Store
	for _, b := range lf.fn.Blocks {
		for _, in := range b.Instrs {
			st, ok := in.(*ssa.Store)
			if !ok || !sameAddr(st.Addr, addr) {
				continue
			}
			if found != nil {
				return nil
			}
			found = st
		}
	}
	if found == nil {
		return nil
	}
	if found.Block() == use.Block() {
		if instrIndex(found) < instrIndex(use) {
			return found
		}
		return nil
	}
	if found.Block().Dominates(use.Block()) {
		return found
	}
	return nil
}

// form: linear form of an integer value.
func (lf *linFn) form(v ssa.Value, d int) *lin {
	if d > 12 {
		return linAtom(atom{v, false})
	}
	if k, ok := intConst(v); ok {
		return linConst(k)
	}
	v = lf.canon(v)
	switch x := v.(type) {
	case *ssa.Convert:
		// value-preserving conversions between integer types are the identity; a narrowing or sign-changing conversion
		// yields a new quantity (64-bit int: 32-bit targets are not modelled)
		if valuePreserving(x.X.Type(), x.Type()) {
			return lf.form(x.X, d+1)
		}
	case *ssa.ChangeType:
		return lf.form(x.X, d+1)
	case *ssa.BinOp:
		// arithmetic carried out in a type of at most 32 bits can wrap: it is linear only when its operands are too small
		// to overflow the type (constants, or values converted from a type of at most half the width)
		if x.Op == token.ADD || x.Op == token.MUL || x.Op == token.SHL {
			if bits, _, ok := intKind(x.Type()); ok && bits <= 32 && !(smallOperand(x.X, bits) && smallOperand(x.Y, bits)) {
				return linAtom(atom{v, false})
			}
		}
		switch x.Op {
		case token.ADD:
			return lf.form(x.X, d+1).add(lf.form(x.Y, d+1))
		case token.SUB:
			return lf.form(x.X, d+1).sub(lf.form(x.Y, d+1))
		case token.MUL:
			if k, ok := intConst(x.X); ok {
				return newLin().addScaled(lf.form(x.Y, d+1), big.NewRat(k, 1))
			}
			if k, ok := intConst(x.Y); ok {
				return newLin().addScaled(lf.form(x.X, d+1), big.NewRat(k, 1))
			}
		case token.SHL:
			if k, ok := intConst(x.Y); ok && k >= 0 && k < 31 {
				return newLin().addScaled(lf.form(x.X, d+1), big.NewRat(1<<uint(k), 1))
			}
		}
	case *ssa.Call:
		if bi, ok := x.Common().Value.(*ssa.Builtin); ok && bi.Name() == "len" {
			return lf.lenForm(x.Common().Args[0], d+1)
		}
	}
	return linAtom(atom{v, false})
}

func intKind(t types.Type) (bits int, signed, ok bool) {
	bt, isB := t.Underlying().(*types.Basic)
	if !isB || bt.Info()&types.IsInteger == 0 {
		return 0, false, false
	}
	switch bt.Kind() {
	case types.Int8:
		return 8, true, true
	case types.Int16:
		return 16, true, true
	case types.Int32:
		return 32, true, true
	case types.Int64, types.Int, types.UntypedInt, types.UntypedRune:
		return 64, true, true
	case types.Uint8:
		return 8, false, true
	case types.Uint16:
		return 16, false, true
	case types.Uint32:
		return 32, false, true
	case types.Uint64, types.Uint, types.Uintptr:
		return 64, false, true
	}
	return 0, false, false
}

func valuePreserving(from, to types.Type) bool {
	fb, fs, ok1 := intKind(from)
	tb, ts, ok2 := intKind(to)
	if !ok1 || !ok2 {
		return false
	}
	switch {
	case fs == ts:
		return tb >= fb
	case !fs && ts:
		return tb > fb
	}
	return false
}

// nonNegAtom: atoms known to be >= 0: lengths, and values converted from unsigned types or loaded as unsigned.
func nonNegAtom(a atom) bool {
	if a.isLen {
		return true
	}
	if bt, ok := a.v.Type().Underlying().(*types.Basic); ok && bt.Info()&types.IsUnsigned != 0 {
		return true
	}
	switch x := a.v.(type) {
	case *ssa.Call:
		if bi, ok := x.Common().Value.(*ssa.Builtin); ok && (bi.Name() == "len" || bi.Name() == "cap") {
			return true
		}
	}
	return false
}

// condFact: the linear fact implied by cond being `truth`.
func (lf *linFn) condFacts(cond ssa.Value, truth bool) []*lin {
	bo, ok := cond.(*ssa.BinOp)
	if !ok {
		return nil
	}
	bx, okx := bo.X.Type().Underlying().(*types.Basic)
	if !okx || bx.Info()&types.IsInteger == 0 {
		return nil
	}
	x, y := lf.form(bo.X, 0), lf.form(bo.Y, 0)
	op := bo.Op
	if !truth {
		switch op {
		case token.LSS:
			op = token.GEQ
		case token.LEQ:
			op = token.GTR
		case token.GTR:
			op = token.LEQ
		case token.GEQ:
			op = token.LSS
		case token.EQL:
			op = token.NEQ
		case token.NEQ:
			op = token.EQL
		}
	}
	switch op {
	case token.LSS: // x < y  => y - x - 1 >= 0
		return []*lin{y.sub(x).add(linConst(-1))}
	case token.LEQ:
		return []*lin{y.sub(x)}
	case token.GTR:
		return []*lin{x.sub(y).add(linConst(-1))}
	case token.GEQ:
		return []*lin{x.sub(y)}
	case token.EQL:
		return []*lin{x.sub(y), y.sub(x)}
	case token.NEQ:
		// a quantity that cannot be negative and is not zero is at least one (len(data) != 0)
		d := x.sub(y)
		if prove(d, nil, 0) {
			return []*lin{d.add(linConst(-1))}
		}
		if d = y.sub(x); prove(d, nil, 0) {
			return []*lin{d.add(linConst(-1))}
		}
		lf.pendingDiseq = append(lf.pendingDiseq, x.sub(y))
	}
	return nil
}

// buildFacts: facts valid on entry of each block: for every block d that strictly dominates b through a single-predecessor
// successor edge of an If, the corresponding condition.
func (lf *linFn) buildFacts() {
	lf.facts = map[*ssa.BasicBlock][]*lin{}
	fn := lf.fn
	// edge facts: succ block s of If-block p where s has exactly one predecessor
	edgeFacts := map[*ssa.BasicBlock][]*lin{}
	edgeDiseq := map[*ssa.BasicBlock][]*lin{}
	lf.diseq = map[*ssa.BasicBlock][]*lin{}
	for _, b := range fn.Blocks {
		iff := ifOf(b)
		if iff == nil || b.Succs[0] == b.Succs[1] {
			continue
		}
		for i, s := range b.Succs {
			if len(s.Preds) != 1 {
				continue
			}
			lf.pendingDiseq = nil
			edgeFacts[s] = append(edgeFacts[s], lf.condFacts(iff.Cond, i == 0)...)
			edgeDiseq[s] = append(edgeDiseq[s], lf.pendingDiseq...)
			lf.pendingDiseq = nil
		}
	}
	for _, b := range fn.Blocks {
		var fs, ds []*lin
		for d := b; d != nil; d = d.Idom() {
			fs = append(fs, edgeFacts[d]...)
			ds = append(ds, edgeDiseq[d]...)
		}
		lf.facts[b] = fs
		lf.diseq[b] = ds
	}
}

// prove: goal >= 0 follows from the facts (each >= 0) and the sign of the atoms: search for non-negative multipliers such
// that goal - sum(lambda_j * fact_j) has no atom of the wrong sign and a non-negative constant. Each step removes one
// offending component (an atom with a negative coefficient, an atom of unknown sign, or a negative constant) exactly.
// sortedAtoms: the atoms of a form in a fixed order (the verdicts must not depend on map iteration).
func sortedAtoms(l *lin) []atom {
	out := make([]atom, 0, len(l.c))
	for x := range l.c {
		out = append(out, x)
	}
	sort.Slice(out, func(i, j int) bool {
		a, b := out[i], out[j]
		if a.v.Name() != b.v.Name() {
			return a.v.Name() < b.v.Name()
		}
		if a.isLen != b.isLen {
			return !a.isLen
		}
		return a.v.Pos() < b.v.Pos()
	})
	return out
}

func prove(goal *lin, facts []*lin, depth int) bool {
	var neg []atom
	for x, q := range goal.c {
		if q.Sign() != 0 && (q.Sign() < 0 || !nonNegAtom(x)) {
			neg = append(neg, x)
		}
	}
	if len(neg) == 0 && goal.k.Sign() >= 0 {
		return true
	}
	if depth > 6 {
		return false
	}
	sort.Slice(neg, func(i, j int) bool {
		if neg[i].v.Name() != neg[j].v.Name() {
			return neg[i].v.Name() < neg[j].v.Name()
		}
		return !neg[i].isLen && neg[j].isLen
	})
	if len(neg) > 0 {
		x := neg[0]
		q := goal.c[x]
		for _, f := range facts {
			fq := f.c[x]
			if fq == nil || fq.Sign() != q.Sign() {
				continue
			}
			lambda := new(big.Rat).Quo(q, fq) // positive
			if prove(goal.addScaled(f, new(big.Rat).Neg(lambda)), facts, depth+1) {
				return true
			}
		}
		return false
	}
	// only the constant is negative: use a fact with a negative constant
	for _, f := range facts {
		if f.k.Sign() >= 0 {
			continue
		}
		lambda := new(big.Rat).Quo(goal.k, f.k)
		if prove(goal.addScaled(f, new(big.Rat).Neg(lambda)), facts, depth+1) {
			return true
		}
	}
	return false
}

// proveAt: prove goal >= 0 at instruction in; when that fails and the goal mentions a phi, prove it separately for each
// incoming value with the facts available at the end of the corresponding predecessor.
func (lf *linFn) proveAt(goal *lin, in ssa.Instruction, depth int) bool {
	return lf.proveAtWith(goal, in, depth, nil)
}

// proveAtWith: extra are facts that hold where the goal is needed although they do not hold at `in` itself: the outcome
// of the test that ends a predecessor block, on the edge a phi value arrives through.
func (lf *linFn) proveAtWith(goal *lin, in ssa.Instruction, depth int, extra []*lin) bool {
	facts := append(append([]*lin{}, lf.factsAt(in)...), extra...)
	if prove(goal, facts, 0) {
		return true
	}
	added := false
	// an integer that is not zero and whose sign follows from the facts is at least one in absolute value
	for _, d := range lf.diseq[in.Block()] {
		if prove(d, facts, 0) {
			facts = append(facts, d.add(linConst(-1)))
			added = true
		} else if nd := linConst(0).sub(d); prove(nd, facts, 0) {
			facts = append(facts, nd.add(linConst(-1)))
			added = true
		}
	}
	// a value of an 8- or 16-bit unsigned type is bounded by its type
	for _, x := range sortedAtoms(goal) {
		q := goal.c[x]
		if q.Sign() < 0 && !x.isLen {
			if bits, signed, ok := intKind(x.v.Type()); ok && !signed && bits <= 16 {
				facts = append(facts, linConst(int64(1)<<uint(bits)-1).sub(linAtom(x)))
				added = true
			}
		}
	}
	// a quotient by a positive constant, q = a / k with a >= 0, satisfies k*q <= a
	{
		seen := map[atom]bool{}
		var quos []*ssa.BinOp
		collect := func(l *lin) {
			for _, x := range sortedAtoms(l) {
				if seen[x] || x.isLen {
					continue
				}
				seen[x] = true
				if bo, ok := x.v.(*ssa.BinOp); ok && bo.Op == token.QUO {
					quos = append(quos, bo)
				}
			}
		}
		collect(goal)
		for _, f := range facts {
			collect(f)
		}
		for _, bo := range quos {
			k, ok := intConst(bo.Y)
			if !ok || k <= 0 {
				continue
			}
			a := lf.form(bo.X, 0)
			if !prove(a, facts, 0) && !lf.px.nn.nonNeg(bo.X, in, 0) {
				continue
			}
			facts = append(facts, a.addScaled(linAtom(atom{bo, false}), big.NewRat(-k, 1)))
			added = true
		}
	}
	// atoms of unknown sign that the interprocedural sign prover shows non-negative become facts
	for _, x := range sortedAtoms(goal) {
		q := goal.c[x]
		if q.Sign() > 0 && !x.isLen && !nonNegAtom(x) && lf.px.nn.nonNeg(x.v, in, 0) {
			facts = append(facts, linAtom(x))
			added = true
		}
	}
	if added && prove(goal, facts, 0) {
		return true
	}
	if depth > 2 {
		return false
	}
	for _, x := range sortedAtoms(goal) {
		q := goal.c[x]
		ph, ok := x.v.(*ssa.Phi)
		if !ok || x.isLen {
			continue
		}
		okAll := true
		for i, e := range ph.Edges {
			pred := ph.Block().Preds[i]
			if len(pred.Instrs) == 0 {
				okAll = false
				break
			}
			g := goal.clone()
			delete(g.c, x)
			g = g.addScaled(lf.form(e, 0), q)
			// a constant arriving through the edge is the value of the phi wherever the phi is used: the goal with
			// the constant in its place can be proved where it is needed, with the facts that hold there (tests
			// made after the join are not known at the end of the predecessor)
			if _, isConst := e.(*ssa.Const); isConst && !lf.noConstSplit {
				lf.noConstSplit = true
				okc := lf.proveAtWith(g, in, depth+1, extra)
				lf.noConstSplit = false
				if okc {
					continue
				}
			}
			// the test that ends the predecessor has a known outcome on the edge to the phi
			var edge []*lin
			if iff, isIf := pred.Instrs[len(pred.Instrs)-1].(*ssa.If); isIf && pred.Succs[0] != pred.Succs[1] {
				edge = lf.condFacts(iff.Cond, pred.Succs[0] == ph.Block())
			}
			if !lf.proveAtWith(g, pred.Instrs[len(pred.Instrs)-1], depth+1, edge) {
				okAll = false
				break
			}
		}
		if okAll {
			return true
		}
	}
	return false
}

// ---- obligations -----------------------------------------------------------------------------------------------------

type linObl struct {
	in   ssa.Instruction
	goal *lin
	what string
	sgn  ssa.Value // for a sign obligation: the value that must be >= 0 (also decided by the interprocedural sign prover)
}

func (o linObl) sign(v ssa.Value) linObl { o.sgn = v; return o }

var binaryWidth = map[string]int64{"Uint16": 2, "Uint32": 4, "Uint64": 8}

// obligations of a function: accesses to []byte values.
func (lf *linFn) obligations() []linObl {
	var out []linObl
	for _, b := range lf.fn.Blocks {
		for _, in := range b.Instrs {
			switch x := in.(type) {
			case *ssa.IndexAddr:
				if isByteSlice(x.X.Type()) {
					// len(x.X) - index - 1 >= 0
					out = append(out, linObl{in: in, goal: lf.lenForm(x.X, 0).sub(lf.form(x.Index, 0)).add(linConst(-1)), what: "index"})
					out = append(out, linObl{in: in, goal: lf.form(x.Index, 0), what: "index is not negative"}.sign(x.Index))
				}
			case *ssa.Slice:
				if isByteSlice(x.X.Type()) {
					lenX := lf.lenForm(x.X, 0)
					if x.High != nil {
						// high <= cap(x): for input data cap == len is assumed to be the limit that matters: require high <= len
						out = append(out, linObl{in: in, goal: lenX.sub(lf.form(x.High, 0)), what: "slice high bound"})
						if x.Low != nil {
							out = append(out, linObl{in: in, goal: lf.form(x.High, 0).sub(lf.form(x.Low, 0)), what: "slice low <= high"})
						} else {
							out = append(out, linObl{in: in, goal: lf.form(x.High, 0), what: "slice high bound is not negative"}.sign(x.High))
						}
					} else if x.Low != nil {
						out = append(out, linObl{in: in, goal: lenX.sub(lf.form(x.Low, 0)), what: "slice low bound"})
					}
					if x.Low != nil {
						out = append(out, linObl{in: in, goal: lf.form(x.Low, 0), what: "slice low bound is not negative"}.sign(x.Low))
					}
				}
			case *ssa.MakeSlice:
				// a reader sizes arrays from the data: a negative length is a run-time panic
				if allSlices {
					if _, isConst := x.Len.(*ssa.Const); !isConst {
						out = append(out, linObl{in: in, goal: lf.form(x.Len, 0), what: "make length is not negative"}.sign(x.Len))
					}
				}
			case *ssa.Call:
				if sc := x.Common().StaticCallee(); sc != nil {
					s := sc.String()
					if strings.HasPrefix(s, "(encoding/binary.bigEndian).") || strings.HasPrefix(s, "(encoding/binary.littleEndian).") {
						if w, ok := binaryWidth[sc.Name()]; ok {
							arg := x.Common().Args[len(x.Common().Args)-1]
							out = append(out, linObl{in: in, goal: lf.lenForm(arg, 0).add(linConst(-w)), what: "binary." + sc.Name()})
						}
						continue
					}
					// callee preconditions
					if pre := lf.px.pre[sc]; pre != nil {
						for pi, k := range pre {
							if pi < len(x.Common().Args) {
								out = append(out, linObl{in: in, goal: lf.lenForm(x.Common().Args[pi], 0).add(linConst(-k)), what: fmt.Sprintf("precondition of %s (len >= %d)", sc.Name(), k)})
							}
						}
					}
				}
			}
		}
	}
	return out
}

// factsAt: facts valid at instruction in.
func (lf *linFn) factsAt(in ssa.Instruction) []*lin {
	fs := append([]*lin{}, lf.facts[in.Block()]...)
	// post-conditions of calls that dominate `in`
	for i, at := range lf.extraAt {
		if at.Block() == in.Block() {
			if instrIndex(at) < instrIndex(in) {
				fs = append(fs, lf.extra[i])
			}
		} else if at.Block().Dominates(in.Block()) {
			fs = append(fs, lf.extra[i])
		}
	}
	return fs
}

// addCallFacts: for calls to functions with a post-condition result_k <= len(param_s).
func (lf *linFn) addCallFacts() {
	for _, b := range lf.fn.Blocks {
		for _, in := range b.Instrs {
			call, ok := in.(*ssa.Call)
			if !ok {
				continue
			}
			sc := call.Common().StaticCallee()
			if sc == nil {
				continue
			}
			post := lf.px.post[sc]
			for ri, pi := range post {
				if pi >= len(call.Common().Args) {
					continue
				}
				var res ssa.Value
				if refs := call.Referrers(); refs != nil {
					for _, r := range *refs {
						if ex, ok := r.(*ssa.Extract); ok && ex.Index == ri {
							res = ex
						}
					}
				}
				if _, isTuple := call.Type().(*types.Tuple); !isTuple && ri == 0 {
					res = call
				}
				if res == nil {
					continue
				}
				// len(arg) - res >= 0 ; res >= 0
				lf.extra = append(lf.extra, lf.lenForm(call.Common().Args[pi], 0).sub(linAtom(atom{res, false})))
				lf.extraAt = append(lf.extraAt, call)
				lf.extra = append(lf.extra, linAtom(atom{res, false}))
				lf.extraAt = append(lf.extraAt, call)
			}
		}
	}
}

// addLoopInvariants: for every integer header phi and every []byte value s of the function, try the inductive invariant
// len(s) - phi >= 0: it must hold for the values entering the loop (with the facts at the end of the predecessor) and be
// preserved along the back edges (assuming it at the header). Proven invariants become facts for the blocks the header
// dominates.
func (lf *linFn) addLoopInvariants() {
	var slices []ssa.Value
	seen := map[ssa.Value]bool{}
	for _, prm := range lf.fn.Params {
		if isByteSlice(prm.Type()) {
			slices = append(slices, prm)
			seen[prm] = true
		}
	}
	for _, l := range naturalLoops(lf.fn) {
		for _, in := range l.header.Instrs {
			ph, ok := in.(*ssa.Phi)
			if !ok {
				break
			}
			bt, ok := ph.Type().Underlying().(*types.Basic)
			if !ok || bt.Info()&types.IsInteger == 0 {
				continue
			}
			// lower bound: ph >= k, k the smallest constant entering from outside the loop (0 without one)
			{
				k, haveK := int64(0), false
				for i, e := range ph.Edges {
					if l.blocks[l.header.Preds[i]] {
						continue
					}
					if c, ok := intConst(e); ok && (!haveK || c < k) {
						k, haveK = c, true
					}
				}
				inv := linAtom(atom{ph, false}).add(linConst(-k))
				okAll := true
				for i, e := range ph.Edges {
					pred := l.header.Preds[i]
					if len(pred.Instrs) == 0 {
						okAll = false
						break
					}
					at := pred.Instrs[len(pred.Instrs)-1]
					facts := lf.factsAt(at)
					if l.blocks[pred] {
						facts = append(facts, inv)
					}
					if prove(lf.form(e, 0).add(linConst(-k)), facts, 0) {
						continue
					}
					if !l.blocks[pred] && k <= 0 && lf.px.nn.nonNeg(e, at, 0) {
						continue
					}
					okAll = false
					break
				}
				if okAll {
					lf.extra = append(lf.extra, inv)
					lf.extraAt = append(lf.extraAt, in)
				}
			}
			for _, s := range slices {
				inv := lf.lenForm(s, 0).sub(linAtom(atom{ph, false}))
				okAll := true
				for i, e := range ph.Edges {
					pred := l.header.Preds[i]
					if len(pred.Instrs) == 0 {
						okAll = false
						break
					}
					at := pred.Instrs[len(pred.Instrs)-1]
					facts := lf.factsAt(at)
					if l.blocks[pred] {
						facts = append(facts, inv) // induction hypothesis
					}
					goal := lf.lenForm(s, 0).sub(lf.form(e, 0))
					if !prove(goal, facts, 0) {
						okAll = false
						break
					}
				}
				if okAll {
					lf.extra = append(lf.extra, inv)
					lf.extraAt = append(lf.extraAt, in)
				}
			}
		}
	}
}

// fieldWrites: for every module function, the struct fields that it or anything it may call (call graph) can write: a
// field is counted as written as soon as its address has any use other than a load or a further field selection, and
// a store through a pointer to a struct writes all the fields of that struct. `all` marks functions with a call whose
// callees are unknown.
type fieldWrites struct {
	fields map[*types.Var]bool
	whole  map[string]bool // struct types (by type string) stored to as a whole
	all    bool
}

func (px *linProver) writes(f *ssa.Function) *fieldWrites {
	if px.wr == nil {
		px.wr = map[*ssa.Function]*fieldWrites{}
		local := map[*ssa.Function]*fieldWrites{}
		fns := px.p.ModFns()
		for _, g := range fns {
			w := &fieldWrites{fields: map[*types.Var]bool{}, whole: map[string]bool{}}
			for _, b := range g.Blocks {
				for _, in := range b.Instrs {
					switch x := in.(type) {
					case *ssa.FieldAddr:
						fld := fieldOf(x)
						if refs := x.Referrers(); fld != nil && refs != nil {
							for _, r := range *refs {
								switch y := r.(type) {
								case *ssa.UnOp:
									if y.Op == token.MUL {
										continue
									}
								case *ssa.FieldAddr, *ssa.DebugRef:
									continue
								}
								w.fields[fld] = true
							}
						}
					case *ssa.Store:
						if _, isFA := x.Addr.(*ssa.FieldAddr); isFA {
							continue
						}
						if _, isAl := x.Addr.(*ssa.Alloc); isAl {
							continue
						}
						if st, ok := deref(x.Addr.Type()).Underlying().(*types.Struct); ok && st.NumFields() > 0 {
							w.whole[deref(x.Addr.Type()).String()] = true
						}
					}
				}
			}
			local[g] = w
		}
		for _, g := range fns {
			px.wr[g] = &fieldWrites{fields: map[*types.Var]bool{}, whole: map[string]bool{}}
		}
		for changed := true; changed; {
			changed = false
			for _, g := range fns {
				w := px.wr[g]
				merge := func(o *fieldWrites) {
					for k := range o.fields {
						if !w.fields[k] {
							w.fields[k] = true
							changed = true
						}
					}
					for k := range o.whole {
						if !w.whole[k] {
							w.whole[k] = true
							changed = true
						}
					}
					if o.all && !w.all {
						w.all = true
						changed = true
					}
				}
				merge(local[g])
				for _, b := range g.Blocks {
					for _, in := range b.Instrs {
						call, ok := in.(ssa.CallInstruction)
						if !ok {
							continue
						}
						if _, isB := call.Common().Value.(*ssa.Builtin); isB {
							continue
						}
						cs := px.p.Callees(call)
						if len(cs) == 0 && !w.all {
							// an unresolved dynamic call: anything may be written
							if call.Common().StaticCallee() == nil {
								w.all = true
								changed = true
							}
						}
						for _, c := range cs {
							if o := px.wr[c]; o != nil {
								merge(o)
							}
							// functions outside the module cannot name the module's unexported struct fields; the address of
							// a field handed to them counts as a write at the FieldAddr above
						}
					}
				}
			}
		}
	}
	return px.wr[f]
}

// fieldOnlyWrittenHere: fa selects a field, through a pointer parameter, that no callee of the function may write.
func (lf *linFn) fieldOnlyWrittenHere(fa *ssa.FieldAddr) bool {
	root := ssa.Value(fa)
	for {
		x, ok := root.(*ssa.FieldAddr)
		if !ok {
			break
		}
		root = x.X
	}
	if _, isParam := root.(*ssa.Parameter); !isParam {
		return false
	}
	fld := fieldOf(fa)
	if fld == nil {
		return false
	}
	for _, b := range lf.fn.Blocks {
		for _, in := range b.Instrs {
			call, ok := in.(ssa.CallInstruction)
			if !ok {
				continue
			}
			if _, isB := call.Common().Value.(*ssa.Builtin); isB {
				continue
			}
			cs := lf.px.p.Callees(call)
			if len(cs) == 0 && call.Common().StaticCallee() == nil {
				return false
			}
			for _, c := range cs {
				if w := lf.px.writes(c); w != nil && (w.all || w.fields[fld] || w.whole[deref(fa.X.Type()).String()]) {
					return false
				}
			}
		}
	}
	return true
}

// stableField: the field selected by fa (through a pointer that is a parameter of the function, possibly through more
// field selections) is not written by the function or its callees, so that two loads of it read the same value.
func (lf *linFn) stableField(fa *ssa.FieldAddr) bool {
	root := ssa.Value(fa)
	for {
		x, ok := root.(*ssa.FieldAddr)
		if !ok {
			break
		}
		root = x.X
	}
	if _, isParam := root.(*ssa.Parameter); !isParam {
		return false
	}
	w := lf.px.writes(lf.fn)
	if w == nil || w.all {
		return false
	}
	for v := ssa.Value(fa); ; {
		x, ok := v.(*ssa.FieldAddr)
		if !ok {
			break
		}
		fld := fieldOf(x)
		if fld == nil || w.fields[fld] || w.whole[deref(x.X.Type()).String()] {
			return false
		}
		v = x.X
	}
	return true
}

func newLinProver(p *Prog) *linProver {
	return &linProver{p: p, nn: &nonNegCtx{p: p, memoP: map[*ssa.Parameter]int{}}, post: map[*ssa.Function]map[int]int{}, pre: map[*ssa.Function]map[int]int64{}, fns: map[*ssa.Function]*linFn{}}
}

func (px *linProver) ctx(f *ssa.Function) *linFn {
	if lf, ok := px.fns[f]; ok {
		return lf
	}
	lf := &linFn{px: px, fn: f}
	lf.buildFacts()
	px.fns[f] = lf
	return lf
}

// fresh: the context of f with the post-conditions of the calls it makes and its loop invariants (re)computed.
func (px *linProver) fresh(f *ssa.Function) *linFn {
	lf := px.ctx(f)
	lf.extra, lf.extraAt = nil, nil
	lf.addCallFacts()
	lf.addLoopInvariants()
	return lf
}

// provedAtCallSites: an obligation of an unexported helper that its own tests do not establish is proved in the context of
// each of its call sites instead — the facts valid at the call (in the caller's values), the bindings parameter = argument
// (integers by value, slices by length) and the helper's own facts together entail the goal. The helper must only be called
// statically from the module (its value is not passed around), so the call sites are all there are. One level: the callers'
// own callers are not consulted.
func (px *linProver) provedAtCallSites(f *ssa.Function, o linObl) bool {
	if f.Object() == nil || f.Object().Exported() || len(f.Blocks) == 0 || len(f.Blocks[0].Instrs) == 0 {
		return false
	}
	node := px.p.CG().Nodes[f]
	if node == nil || len(node.In) == 0 {
		return false
	}
	lf := px.ctx(f)
	entry := f.Blocks[0].Instrs[0]
	if o.in == entry {
		return false
	}
	for _, e := range node.In {
		if e.Site == nil || e.Site.Common().StaticCallee() != f || !px.p.inModule(fnPkg(e.Caller.Func)) || e.Caller.Func == f {
			return false
		}
		args := e.Site.Common().Args
		if len(args) != len(f.Params) {
			return false
		}
		clf := px.fresh(e.Caller.Func)
		facts := clf.factsAt(e.Site)
		for i, par := range f.Params {
			var d *lin
			if _, isSlice := par.Type().Underlying().(*types.Slice); isSlice {
				d = linAtom(atom{par, true}).sub(clf.lenForm(args[i], 0))
			} else if _, _, isInt := intKind(par.Type()); isInt {
				d = linAtom(atom{par, false}).sub(clf.form(args[i], 0))
			} else {
				continue
			}
			facts = append(facts, d, linConst(0).sub(d))
		}
		n := len(lf.extra)
		for _, ft := range facts {
			lf.extra = append(lf.extra, ft)
			lf.extraAt = append(lf.extraAt, entry)
		}
		ok := lf.proveAt(o.goal, o.in, 0)
		lf.extra, lf.extraAt = lf.extra[:n], lf.extraAt[:n]
		if !ok {
			return false
		}
	}
	return true
}

// inheritsNotClaimed: the underivable access of an unexported helper is an access to one of its parameters, and at every
// call site (all static, all in functions listed as not claimed) the argument bound to that parameter is one of the
// accesses that were reviewed as underivable in the caller: the helper is a piece of a reviewed function that was moved
// out of it, and inherits its status (not claimed: nothing is decided about it).
func (px *linProver) inheritsNotClaimed(f *ssa.Function, o linObl, excluded map[string]string) bool {
	if f.Object() == nil || f.Object().Exported() {
		return false
	}
	var base ssa.Value
	switch in := o.in.(type) {
	case *ssa.IndexAddr:
		base = in.X
	case *ssa.Slice:
		base = in.X
	case *ssa.Call:
		if n := len(in.Common().Args); n > 0 {
			base = in.Common().Args[n-1]
		}
	}
	for base != nil {
		if sl, ok := base.(*ssa.Slice); ok {
			base = sl.X
			continue
		}
		break
	}
	// the accessed slice is a parameter, or a field (path) of a parameter — a receiver the callers pass through
	fieldPath := "" // ".instructions" for p.instructions
	root := base
	for {
		if u, ok := root.(*ssa.UnOp); ok && u.Op == token.MUL {
			root = u.X
			continue
		}
		if fa, ok := root.(*ssa.FieldAddr); ok {
			if fo := fieldOf(fa); fo != nil {
				fieldPath = "." + fo.Name() + fieldPath
			}
			root = fa.X
			continue
		}
		break
	}
	par, ok := root.(*ssa.Parameter)
	if !ok {
		return false
	}
	pi := -1
	for i, q := range f.Params {
		if q == par {
			pi = i
		}
	}
	node := px.p.CG().Nodes[f]
	if pi < 0 || node == nil || len(node.In) == 0 {
		return false
	}
	for _, e := range node.In {
		if e.Site == nil || e.Site.Common().StaticCallee() != f || pi >= len(e.Site.Common().Args) {
			return false
		}
		g := px.p.FnName(e.Caller.Func)
		if _, isExcl := excluded[g]; !isExcl {
			return false
		}
		arg := e.Site.Common().Args[pi]
		d := sliceDescr(arg, 0)
		if fieldPath != "" {
			// the same field of the object the caller passes on
			if d == "" {
				return false
			}
			d += fieldPath
		}
		found := false
		for _, t := range rgenNotClaimedAccess[g] {
			if t == d {
				found = true
			}
		}
		if !found {
			return false
		}
	}
	return true
}

// derivePost: for functions returning an int count with an error, try to prove count <= len(param) on every return.
func (px *linProver) derivePost(fns []*ssa.Function) {
	for round := 0; round < 4; round++ {
		changed := false
		for _, f := range fns {
			res := f.Signature.Results()
			for ri := 0; ri < res.Len(); ri++ {
				bt, ok := res.At(ri).Type().Underlying().(*types.Basic)
				if !ok || bt.Kind() != types.Int {
					continue
				}
				if _, done := px.post[f][ri]; done {
					continue
				}
				for pi, prm := range f.Params {
					if !isByteSlice(prm.Type()) {
						continue
					}
					lf := px.ctx(f)
					lf.extra, lf.extraAt = nil, nil
					lf.addCallFacts()
					lf.addLoopInvariants()
					okAll, n := true, 0
					for _, b := range f.Blocks {
						for _, in := range b.Instrs {
							ret, ok := in.(*ssa.Return)
							if !ok {
								continue
							}
							n++
							goal := lf.lenForm(prm, 0).sub(lf.form(ret.Results[ri], 0))
							if !lf.proveAt(goal, in, 0) {
								okAll = false
							}
						}
					}
					if okAll && n > 0 {
						if px.post[f] == nil {
							px.post[f] = map[int]int{}
						}
						px.post[f][ri] = pi
						changed = true
					}
				}
			}
		}
		if !changed {
			break
		}
	}
}

// derivePre: for unexported helpers, the constant length their []byte parameter must have for their own accesses
// (accesses provable without any fact except `len(param) >= K`).
func (px *linProver) derivePre(fns []*ssa.Function) {
	for _, f := range fns {
		if f.Object() == nil || f.Object().Exported() {
			continue
		}
		// a precondition is only meaningful when somebody in the module calls the function
		if n := px.p.CG().Nodes[f]; n == nil || len(n.In) == 0 {
			continue
		}
		lf := px.ctx(f)
		lf.extra, lf.extraAt = nil, nil
		lf.addCallFacts()
		lf.addLoopInvariants()
		for pi, prm := range f.Params {
			if !isByteSlice(prm.Type()) {
				continue
			}
			var need int64
			for _, o := range lf.obligations() {
				if lf.proveAt(o.goal, o.in, 0) {
					continue
				}
				// goal = len(prm) - K ?
				if len(o.goal.c) == 1 {
					if q, ok := o.goal.c[atom{prm, true}]; ok && q.Cmp(ratOne) == 0 && o.goal.k.IsInt() {
						k := -o.goal.k.Num().Int64()
						if k > need {
							need = k
						}
					}
				}
			}
			if need > 0 {
				if px.pre[f] == nil {
					px.pre[f] = map[int]int64{}
				}
				px.pre[f][pi] = need
			}
		}
	}
}

// ruleGen: every access obligation of the selected functions is proved.
func ruleGen(p *Prog, r *Report, rule string, sel func(f *ssa.Function) bool, excluded map[string]string, floor int) {
	ruleGenX(p, r, rule, sel, excluded, nil, floor)
}

// ruleGenX: with a non-nil `claimed` set the rule is a regression rule — only the functions of the set are obligations
// (each was proved when the set was frozen); any other function with an underivable access is reported as a "not claimed"
// instance and decides nothing.
func ruleGenX(p *Prog, r *Report, rule string, sel func(f *ssa.Function) bool, excluded map[string]string, claimed map[string]bool, floor int) {
	ruleGenY(p, r, rule, sel, excluded, claimed, floor, false)
}

// ruleGenReaders: R-GEN where, inside every function that takes a []byte parameter (a reader), the accesses to slices of
// ANY element type are obligations: a reader fills arrays whose sizes come from the data it reads, so an index that the
// function's own tests do not bound is exactly the defect the property is about.
func ruleGenReaders(p *Prog, r *Report, rule string, sel func(f *ssa.Function) bool, excluded map[string]string, floor int) {
	ruleGenY(p, r, rule, sel, excluded, nil, floor, true)
}

func ruleGenY(p *Prog, r *Report, rule string, sel func(f *ssa.Function) bool, excluded map[string]string, claimed map[string]bool, floor int, readersAll bool) {
	if readersAll {
		defer func() { allSlices = false }()
	}
	px := newLinProver(p)
	var fns []*ssa.Function
	for _, f := range p.ModFns() {
		if sel(f) {
			fns = append(fns, f)
		}
	}
	px.derivePre(fns)
	px.derivePost(fns)
	// with post-conditions known, preconditions may shrink: recompute once
	px.pre = map[*ssa.Function]map[int]int64{}
	for _, lf := range px.fns {
		lf.extra, lf.extraAt = nil, nil
	}
	px.derivePre(fns)
	nObl, nFn := 0, 0
	for _, f := range fns {
		if readersAll {
			allSlices = isReader(f)
		}
		lf := px.ctx(f)
		lf.extra, lf.extraAt = nil, nil
		lf.addCallFacts()
		lf.addLoopInvariants()
		obls := lf.obligations()
		if len(obls) == 0 {
			continue
		}
		key := p.FnName(f)
		if why, ok := excluded[key]; ok {
			r.Instance(rule+"(not claimed)", key+": "+why)
			// the exclusion covers the accesses that were underivable when the function was reviewed (named by the indexed
			// value); any OTHER access of the function is still an obligation
			tolerated := map[string]bool{}
			for _, d := range rgenNotClaimedAccess[key] {
				tolerated[d] = true
			}
			pre := px.pre[f]
			var badX *linObl
			for i := range obls {
				o := obls[i]
				if lf.proveAt(o.goal, o.in, 0) || o.sgn != nil && px.nn.nonNeg(o.sgn, o.in, 0) {
					continue
				}
				if len(o.goal.c) == 1 && pre != nil {
					okPre := false
					for pi, k := range pre {
						if q, ok := o.goal.c[atom{f.Params[pi], true}]; ok && q.Cmp(ratOne) == 0 && o.goal.k.IsInt() && -o.goal.k.Num().Int64() <= k {
							okPre = true
						}
					}
					if okPre {
						continue
					}
				}
				if px.provedAtCallSites(f, o) {
					continue
				}
				if !tolerated[oblDescr(o)] {
					badX = &obls[i]
					break
				}
			}
			if genAccessKeys != nil {
				for i := range obls {
					o := obls[i]
					if !(lf.proveAt(o.goal, o.in, 0) || o.sgn != nil && px.nn.nonNeg(o.sgn, o.in, 0)) {
						genAccessKeys(key, oblDescr(o))
					}
				}
			} else if badX != nil {
				r.Bad(rule, key+"/"+oblDescr(*badX), p.IPos(badX.in), fmt.Sprintf("%s: the required %s >= 0 does not follow from the length tests that dominate this access, and the access is not among those reviewed when %s was listed as not claimed: truncated or corrupted input panics here", badX.what, badX.goal.String(), key))
			}
			continue
		}
		nFn++
		r.Instance(rule, key)
		var bad *linObl
		pre := px.pre[f]
		for i := range obls {
			o := obls[i]
			nObl++
			if lf.proveAt(o.goal, o.in, 0) {
				continue
			}
			if o.sgn != nil && px.nn.nonNeg(o.sgn, o.in, 0) {
				continue
			}
			// discharged by the function's own precondition (checked at its call sites)
			if len(o.goal.c) == 1 && pre != nil {
				okPre := false
				for pi, k := range pre {
					if q, ok := o.goal.c[atom{f.Params[pi], true}]; ok && q.Cmp(ratOne) == 0 && o.goal.k.IsInt() && -o.goal.k.Num().Int64() <= k {
						okPre = true
					}
				}
				if okPre {
					continue
				}
			}
			// or in the context of each call site of the (unexported) helper
			if px.provedAtCallSites(f, o) {
				continue
			}
			if px.inheritsNotClaimed(f, o, excluded) {
				r.Instance(rule+"(not claimed)", key+"/"+oblDescr(o)+": helper of a function listed as not claimed, for an access reviewed there")
				continue
			}
			bad = &obls[i]
			break
		}
		if bad == nil && pre != nil {
			// every caller must be among the analysed functions, otherwise the precondition is unchecked
			selSet := map[*ssa.Function]bool{}
			for _, g := range fns {
				selSet[g] = true
			}
			if n := p.CG().Nodes[f]; n != nil {
				for _, e := range n.In {
					if !selSet[e.Caller.Func] && p.inModule(fnPkg(e.Caller.Func)) && e.Caller.Func.Synthetic == "" {
						if claimed != nil && !claimed[key] {
							bad = &linObl{}
							continue
						}
						r.Bad(rule, key, p.IPos(e.Site), fmt.Sprintf("%s relies on its caller for the length of its input (needs %v) but is called from %s, which is outside the analysed readers", p.FnName(f), pre, p.FnName(e.Caller.Func)))
						bad = &linObl{}
					}
				}
			}
			if bad != nil && (claimed == nil || claimed[key]) {
				continue
			}
		}
		if bad != nil && claimed != nil && !claimed[key] {
			r.Instance(rule+"(not claimed)", key+": needs an invariant that is established outside the function")
			nFn--
			continue
		}
		if bad == nil {
			extra := ""
			if pre != nil {
				extra = fmt.Sprintf(" (precondition on its input length, checked at every call site: %v)", pre)
			}
			r.OK(rule, key, p.Pos(f.Pos()), fmt.Sprintf("all %d byte-slice accesses are covered by dominating length tests%s", len(obls), extra))
		} else {
			r.Bad(rule, key, p.IPos(bad.in), fmt.Sprintf("%s: the required %s >= 0 does not follow from the length tests that dominate this access: truncated or corrupted input panics here", bad.what, bad.goal.String()))
		}
	}
	r.Count("length_obligations", nObl)
	r.Floor(rule, nFn, floor)
}

// isReader: a function that takes input bytes: a []byte parameter (or receiver field access is not considered).
func isReader(f *ssa.Function) bool {
	for _, prm := range f.Params {
		if s, ok := prm.Type().Underlying().(*types.Slice); ok {
			if b, ok := s.Elem().Underlying().(*types.Basic); ok && b.Kind() == types.Uint8 {
				return true
			}
		}
	}
	return false
}

// oblDescr names the value an obligation is about (see sliceDescr); "" when it has no stable name.
func oblDescr(o linObl) string {
	switch in := o.in.(type) {
	case *ssa.IndexAddr:
		return sliceDescr(in.X, 0)
	case *ssa.Slice:
		return sliceDescr(in.X, 0)
	case *ssa.Call:
		if n := len(in.Common().Args); n > 0 {
			return sliceDescr(in.Common().Args[n-1], 0)
		}
	case *ssa.MakeSlice:
		return "length of make(" + types.TypeString(in.Type(), func(p *types.Package) string { return p.Name() }) + ")"
	}
	return ""
}

// genAccessKeys, when set (vsa rgenkeys), receives the underivable accesses of the not-claimed functions.
var genAccessKeys func(fn, descr string)

// smallOperand: the operand of an addition/product in a `bits`-wide type cannot make it wrap together with another such
// operand: a constant below 2^(bits/2), or a value converted (without change of value) from a type of at most bits/2 bits.
func smallOperand(v ssa.Value, bits int) bool {
	if k, ok := intConst(v); ok {
		return k >= 0 && k < int64(1)<<uint(bits/2)
	}
	w := stripValueConv(v)
	if b, _, ok := intKind(w.Type()); ok && b <= bits/2 {
		return true
	}
	return false
}
