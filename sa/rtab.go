package main

// rtab.go — R-TAB: coherence of generated lookup tables (P-LIT), and R-BITS.

import (
	"fmt"
	"go/constant"
	"go/token"
	"go/types"
	"sort"
	"strings"
	"unicode"

	"golang.org/x/tools/go/ssa"
)

const maxRune = 0x10FFFF

func isRangeTablePtr(t types.Type) bool {
	n := namedOf(t)
	return n != nil && n.Obj().Pkg() != nil && n.Obj().Pkg().Path() == "unicode" && n.Obj().Name() == "RangeTable"
}

// checkRangeTableWF: well-formedness conditions that unicode.Is relies on.
func checkRangeTableWF(p *Prog, r *Report, rule, key string, rt *rangeTable) bool {
	ok := true
	bad := func(pos token.Pos, f string, a ...interface{}) {
		ok = false
		r.Bad(rule, key, p.Pos(pos), fmt.Sprintf(f, a...))
	}
	prevHi := int64(-1)
	for i, g := range rt.r16 {
		if g.stride < 1 {
			bad(g.pos, "R16[%d] has Stride %d < 1 (unicode.Is divides by it)", i, g.stride)
		}
		if g.lo > g.hi {
			bad(g.pos, "R16[%d] has Lo %#x > Hi %#x", i, g.lo, g.hi)
		}
		if g.lo <= prevHi {
			bad(g.pos, "R16[%d] Lo %#x is not above the previous Hi %#x: ranges must be sorted and disjoint for the bisection in unicode.Is", i, g.lo, prevHi)
		}
		if g.hi > prevHi {
			prevHi = g.hi
		}
	}
	for i, g := range rt.r32 {
		if g.stride < 1 {
			bad(g.pos, "R32[%d] has Stride %d < 1", i, g.stride)
		}
		if g.lo > g.hi {
			bad(g.pos, "R32[%d] has Lo %#x > Hi %#x", i, g.lo, g.hi)
		}
		if g.lo <= prevHi {
			bad(g.pos, "R32[%d] Lo %#x is not above the previous Hi %#x (R32 entries at or below the last R16 Hi are never consulted)", i, g.lo, prevHi)
		}
		if g.hi > maxRune {
			bad(g.pos, "R32[%d] Hi %#x exceeds unicode.MaxRune", i, g.hi)
		}
		if g.hi > prevHi {
			prevHi = g.hi
		}
	}
	if ok {
		r.OK(rule, key, p.Pos(rt.pos), fmt.Sprintf("%d R16 + %d R32 ranges sorted, disjoint, Stride>=1, Lo<=Hi", len(rt.r16), len(rt.r32)))
	}
	return ok
}

// ruleRangeTablesWF: every package-level *unicode.RangeTable literal (and every element of arrays of them).
// Returns the evaluated tables by variable for later rules.
func ruleRangeTablesWF(p *Prog, r *Report, le *litEval, pkgs []string) (map[*types.Var]*rangeTable, map[*types.Var]bool) {
	const rule = "R-TAB/wf"
	tables := map[*types.Var]*rangeTable{}
	wf := map[*types.Var]bool{}
	n := 0
	for _, short := range pkgs {
		pk := p.Pkg(short)
		sc := pk.Types.Scope()
		names := sc.Names()
		sort.Strings(names)
		for _, name := range names {
			v, ok := sc.Lookup(name).(*types.Var)
			if !ok || !le.HasInit(v) {
				continue
			}
			if isRangeTablePtr(v.Type()) {
				lv := le.Var(v)
				if lv.Kind == LRef { // alias of another table
					continue
				}
				rt, err := le.rangeTable(short+"."+name, lv)
				if err != nil {
					undecided("R-TAB: %v", err)
				}
				tables[v] = rt
				wf[v] = checkRangeTableWF(p, r, rule, short+"."+name, rt)
				r.Instance(rule, short+"."+name)
				n++
				continue
			}
			// arrays / slices of *RangeTable with inline literals
			var et types.Type
			switch u := v.Type().Underlying().(type) {
			case *types.Array:
				et = u.Elem()
			case *types.Slice:
				et = u.Elem()
			}
			if et != nil && isRangeTablePtr(et) {
				lv := le.Var(v)
				if lv.Kind != LList {
					continue
				}
				for i, e := range lv.Elems {
					if e.Kind == LRef || e.Kind == LNil {
						continue
					}
					key := fmt.Sprintf("%s.%s[%d]", short, name, lv.Index[i])
					rt, err := le.rangeTable(key, e)
					if err != nil {
						undecided("R-TAB: %v", err)
					}
					checkRangeTableWF(p, r, rule, key, rt)
					r.Instance(rule, key)
					n++
				}
			}
		}
	}
	r.Count("range_tables", n)
	return tables, wf
}

// family evaluates an array of *unicode.RangeTable (refs or inline) into named tables.
type famMember struct {
	name string
	rt   *rangeTable
}

func evalFamily(p *Prog, le *litEval, pkg, arr string) []famMember {
	v, ok := p.Obj(pkg, arr).(*types.Var)
	if !ok {
		undecided("anchor: %s.%s is not a variable", pkg, arr)
	}
	lv := le.Var(v)
	if lv.Kind != LList {
		undecided("P-LIT: %s.%s is not an array literal", pkg, arr)
	}
	var out []famMember
	for i, e := range lv.Elems {
		var name string
		switch e.Kind {
		case LNil:
			continue
		case LRef:
			name = e.Ref.Pkg().Name() + "." + e.Ref.Name()
		default:
			name = fmt.Sprintf("%s.%s[%d]", pkg, arr, lv.Index[i])
		}
		rt, err := le.rangeTable(name, e)
		if err != nil {
			undecided("R-TAB: family %s.%s: %v", pkg, arr, err)
		}
		out = append(out, famMember{name, rt})
	}
	return out
}

// ruleFamilyDisjoint: members of a lookup family are pairwise disjoint (so "first match" == "the match");
// optional all-table equals the union.
func ruleFamilyDisjoint(p *Prog, r *Report, le *litEval, pkg, arr, all string, floor int) {
	const rule = "R-TAB/family"
	fam := evalFamily(p, le, pkg, arr)
	r.Instance(rule, pkg+"."+arr)
	r.Floor(rule+"("+arr+")", len(fam), floor)
	owner := make([]int16, maxRune+1)
	members := 0
	for i, m := range fam {
		conflict := int64(-1)
		with := ""
		m.rt.each(func(c int64) {
			if c < 0 || c > maxRune {
				return
			}
			if owner[c] != 0 && int(owner[c])-1 != i {
				if conflict < 0 {
					conflict = c
					with = fam[owner[c]-1].name
				}
				return
			}
			owner[c] = int16(i + 1)
			members++
		})
		key := pkg + "." + arr + "/" + m.name
		if conflict >= 0 {
			r.Bad(rule, key, p.Pos(m.rt.pos), fmt.Sprintf("U+%04X belongs both to %s and to %s: the lookup over %s no longer returns a single class", conflict, with, m.name, arr))
		} else {
			r.OK(rule, key, p.Pos(m.rt.pos), "disjoint from every earlier member of "+arr)
		}
	}
	r.Count("code_points_classified", members)
	if all != "" {
		v := p.Obj(pkg, all).(*types.Var)
		rt, err := le.rangeTable(pkg+"."+all, le.Var(v))
		if err != nil {
			undecided("R-TAB: %v", err)
		}
		inAll := make([]bool, maxRune+1)
		rt.each(func(c int64) {
			if c >= 0 && c <= maxRune {
				inAll[c] = true
			}
		})
		missing, extra := int64(-1), int64(-1)
		for c := int64(0); c <= maxRune; c++ {
			if owner[c] != 0 && !inAll[c] && missing < 0 {
				missing = c
			}
			if owner[c] == 0 && inAll[c] && extra < 0 {
				extra = c
			}
		}
		key := pkg + "." + all + "=union(" + arr + ")"
		switch {
		case missing >= 0:
			r.Bad(rule, key, p.Pos(rt.pos), fmt.Sprintf("U+%04X is in %s but not in the pre-filter %s: the lookup hides its class", missing, fam[owner[missing]-1].name, all))
		case extra >= 0:
			r.Bad(rule, key, p.Pos(rt.pos), fmt.Sprintf("U+%04X is in the pre-filter %s but in no member of %s", extra, all, arr))
		default:
			r.OK(rule, key, p.Pos(rt.pos), "pre-filter equals the union of the family")
		}
	}
}

// ruleScriptRanges: sorted, disjoint, Start<=End (bisection precondition of LookupScript).
func ruleSortedRanges(p *Prog, r *Report, le *litEval, pkg, arr, lo, hi string, floor int) {
	const rule = "R-TAB/sorted"
	v := p.Obj(pkg, arr).(*types.Var)
	lv := le.Var(v)
	if lv.Kind != LList {
		undecided("P-LIT: %s.%s is not an array literal", pkg, arr)
	}
	r.Instance(rule, pkg+"."+arr)
	r.Floor(rule+"("+arr+")", len(lv.Elems), floor)
	prev := int64(-1)
	bad := 0
	for i, e := range lv.Elems {
		s, ok1 := e.field(lo).Int()
		en, ok2 := e.field(hi).Int()
		if !ok1 || !ok2 {
			undecided("P-LIT: %s.%s[%d] has non-constant bounds", pkg, arr, i)
		}
		if s > en || s <= prev {
			bad++
			r.Bad(rule, fmt.Sprintf("%s.%s", pkg, arr), p.Pos(e.Pos), fmt.Sprintf("entry %d [%#x,%#x] is empty or not above the previous End %#x: bisection over %s is no longer a function of the rune", i, s, en, prev, arr))
			if bad > 5 {
				break
			}
		}
		if en > prev {
			prev = en
		}
	}
	if bad == 0 {
		r.OK(rule, pkg+"."+arr, p.Pos(lv.Pos), fmt.Sprintf("%d entries strictly increasing and disjoint", len(lv.Elems)))
	}
	r.Count("table_entries", len(lv.Elems))
}

// ---- maps --------------------------------------------------------------------------------

func runeMap(p *Prog, le *litEval, pkg, name string) (map[int64]int64, map[int64]token.Pos, *LV) {
	lv := le.Var(p.Obj(pkg, name).(*types.Var))
	if lv.Kind != LMap {
		undecided("P-LIT: %s.%s is not a map literal", pkg, name)
	}
	m := map[int64]int64{}
	pos := map[int64]token.Pos{}
	for i, k := range lv.Keys {
		kk, ok1 := k.Int()
		vv, ok2 := lv.Elems[i].Int()
		if !ok1 || !ok2 {
			undecided("P-LIT: %s.%s has a non-constant entry", pkg, name)
		}
		m[kk] = vv
		pos[kk] = k.Pos
	}
	return m, pos, lv
}

func pair(v *LV) ([2]int64, bool) {
	if v == nil || v.Kind != LList || len(v.Elems) > 2 {
		return [2]int64{}, false
	}
	var out [2]int64
	for i, e := range v.Elems {
		x, ok := e.Int()
		if !ok || v.Index[i] > 1 {
			return out, false
		}
		out[v.Index[i]] = x
	}
	return out, true
}

func ruleInvolution(p *Prog, r *Report, le *litEval, pkg, name string, floor int) {
	const rule = "R-TAB/involution"
	m, pos, lv := runeMap(p, le, pkg, name)
	r.Instance(rule, pkg+"."+name)
	r.Floor(rule, len(m), floor)
	keys := sortedKeys(m)
	bad := 0
	for _, a := range keys {
		b := m[a]
		if back, ok := m[b]; !ok || back != a {
			bad++
			r.Bad(rule, pkg+"."+name, p.Pos(pos[a]), fmt.Sprintf("%s[%#x]=%#x but %s[%#x]=%#x (present=%v): mirroring is not an involution", name, a, b, name, b, back, ok))
			if bad > 5 {
				break
			}
		}
	}
	if bad == 0 {
		r.OK(rule, pkg+"."+name, p.Pos(lv.Pos), fmt.Sprintf("m[m[a]]==a for all %d keys", len(m)))
	}
	r.Count("table_entries", len(m))
}

func sortedKeys(m map[int64]int64) []int64 {
	ks := make([]int64, 0, len(m))
	for k := range m {
		ks = append(ks, k)
	}
	sort.Slice(ks, func(i, j int) bool { return ks[i] < ks[j] })
	return ks
}

type decompCfg struct {
	pkg, d1, d2, comp              string
	hangulSBase, hangulSCount      string // constant names
	floorD1, floorD2, floorCompose int
}

// ruleDecomposition: compose/decompose2 mutual inverse modulo exclusions (value 0), key sets disjoint,
// disjoint from the algorithmic Hangul block, decomposition graph acyclic.
func ruleDecomposition(p *Prog, r *Report, le *litEval, c decompCfg) {
	const rule = "R-TAB/decomp"
	d1, d1pos, _ := runeMap(p, le, c.pkg, c.d1)
	lv2 := le.Var(p.Obj(c.pkg, c.d2).(*types.Var))
	lvc := le.Var(p.Obj(c.pkg, c.comp).(*types.Var))
	if lv2.Kind != LMap || lvc.Kind != LMap {
		undecided("P-LIT: %s or %s is not a map literal", c.d2, c.comp)
	}
	d2 := map[int64][2]int64{}
	d2pos := map[int64]token.Pos{}
	for i, k := range lv2.Keys {
		kk, ok := k.Int()
		pr, ok2 := pair(lv2.Elems[i])
		if !ok || !ok2 {
			undecided("P-LIT: %s has a non-constant entry", c.d2)
		}
		d2[kk] = pr
		d2pos[kk] = k.Pos
	}
	comp := map[[2]int64]int64{}
	compPos := map[[2]int64]token.Pos{}
	for i, k := range lvc.Keys {
		pr, ok := pair(k)
		vv, ok2 := lvc.Elems[i].Int()
		if !ok || !ok2 {
			undecided("P-LIT: %s has a non-constant entry", c.comp)
		}
		if _, dup := comp[pr]; dup {
			undecided("P-LIT: duplicate key in %s (would not compile)", c.comp)
		}
		comp[pr] = vv
		compPos[pr] = k.Pos
	}
	r.Floor(rule+"(d1)", len(d1), c.floorD1)
	r.Floor(rule+"(d2)", len(d2), c.floorD2)
	r.Floor(rule+"(compose)", len(comp), c.floorCompose)
	for _, n := range []string{c.d1, c.d2, c.comp} {
		r.Instance(rule, c.pkg+"."+n)
	}
	r.Count("table_entries", len(d1)+len(d2)+len(comp))

	sbase := constInt(p, c.pkg, c.hangulSBase)
	scount := constInt(p, c.pkg, c.hangulSCount)

	report := func(key string, pos token.Pos, n *int, f string, a ...interface{}) {
		*n++
		if *n <= 5 {
			r.Bad(rule, key, p.Pos(pos), fmt.Sprintf(f, a...))
		}
	}
	// compose -> decompose2
	nb := 0
	var ck [][2]int64
	for k := range comp {
		ck = append(ck, k)
	}
	sort.Slice(ck, func(i, j int) bool { return ck[i][0] < ck[j][0] || ck[i][0] == ck[j][0] && ck[i][1] < ck[j][1] })
	for _, k := range ck {
		cc := comp[k]
		if cc == 0 {
			continue
		}
		if d, ok := d2[cc]; !ok || d != k {
			report(c.pkg+"."+c.comp+"->"+c.d2, compPos[k], &nb, "%s[{%#x,%#x}]=%#x but %s[%#x]={%#x,%#x} (present=%v): composition is not undone by decomposition", c.comp, k[0], k[1], cc, c.d2, cc, d[0], d[1], ok)
		}
	}
	if nb == 0 {
		r.OK(rule, c.pkg+"."+c.comp+"->"+c.d2, p.Pos(lvc.Pos), "every non-excluded composition decomposes back to its pair")
	}
	// decompose2 -> compose
	nb = 0
	var dk []int64
	for k := range d2 {
		dk = append(dk, k)
	}
	sort.Slice(dk, func(i, j int) bool { return dk[i] < dk[j] })
	for _, k := range dk {
		pr := d2[k]
		if cc, ok := comp[pr]; ok && cc != k && cc != 0 {
			report(c.pkg+"."+c.d2+"->"+c.comp, d2pos[k], &nb, "%s[%#x]={%#x,%#x} but %s of that pair is %#x", c.d2, k, pr[0], pr[1], c.comp, cc)
		} else if !ok {
			report(c.pkg+"."+c.d2+"->"+c.comp, d2pos[k], &nb, "%s[%#x]={%#x,%#x} has no entry in %s (neither a composition nor an explicit exclusion)", c.d2, k, pr[0], pr[1], c.comp)
		}
	}
	if nb == 0 {
		r.OK(rule, c.pkg+"."+c.d2+"->"+c.comp, p.Pos(lv2.Pos), "every two-part decomposition composes back to its source or is an explicit exclusion (0)")
	}
	// key sets
	nb = 0
	for _, k := range dk {
		if _, ok := d1[k]; ok {
			report(c.pkg+".decompose-keys", d2pos[k], &nb, "%#x is a key of both %s and %s: Decompose depends on lookup order", k, c.d1, c.d2)
		}
		if k >= sbase && k < sbase+scount {
			report(c.pkg+".decompose-keys", d2pos[k], &nb, "%#x is inside the algorithmic Hangul block and in %s", k, c.d2)
		}
	}
	for _, k := range sortedKeys(d1) {
		if k >= sbase && k < sbase+scount {
			report(c.pkg+".decompose-keys", d1pos[k], &nb, "%#x is inside the algorithmic Hangul block and in %s", k, c.d1)
		}
	}
	if nb == 0 {
		r.OK(rule, c.pkg+".decompose-keys", p.Pos(lv2.Pos), "key sets of the two decomposition maps are disjoint and outside the Hangul syllable block")
	}
	// acyclic (also termination of recursive decomposition)
	state := map[int64]int{}
	var cyc []int64
	var visit func(x int64, depth int) int
	maxDepth := 0
	visit = func(x int64, depth int) int {
		if depth > maxDepth {
			maxDepth = depth
		}
		switch state[x] {
		case 1:
			cyc = append(cyc, x)
			return -1
		case 2:
			return 0
		}
		state[x] = 1
		var next []int64
		if y, ok := d1[x]; ok {
			next = append(next, y)
		}
		if y, ok := d2[x]; ok {
			next = append(next, y[0], y[1])
		}
		for _, y := range next {
			if visit(y, depth+1) < 0 {
				return -1
			}
		}
		state[x] = 2
		return 0
	}
	acyclic := true
	for _, k := range append(sortedKeys(d1), dk...) {
		if visit(k, 0) < 0 {
			acyclic = false
			break
		}
	}
	if acyclic {
		r.OK(rule, c.pkg+".decompose-acyclic", p.Pos(lv2.Pos), fmt.Sprintf("decomposition graph is acyclic, depth <= %d", maxDepth))
	} else {
		r.Bad(rule, c.pkg+".decompose-acyclic", p.Pos(lv2.Pos), fmt.Sprintf("decomposition graph has a cycle through %#x: recursive decomposition does not terminate", cyc[0]))
	}
}

func constInt(p *Prog, pkg, name string) int64 {
	c, ok := p.Obj(pkg, name).(*types.Const)
	if !ok {
		undecided("anchor: %s.%s is not a constant", pkg, name)
	}
	v, ok := constant.Int64Val(constant.ToInt(c.Val()))
	if !ok {
		undecided("anchor: %s.%s is not an integer constant", pkg, name)
	}
	return v
}

// ---- language table -----------------------------------------------------------------------

type langCfg struct {
	pkg, table, split, canon, idType, constPrefix string
	floor                                         int
}

func ruleLanguages(p *Prog, r *Report, le *litEval, c langCfg) {
	const rule = "R-TAB/lang"
	lv := le.Var(p.Obj(c.pkg, c.table).(*types.Var))
	if lv.Kind != LList {
		undecided("P-LIT: %s is not an array literal", c.table)
	}
	split := constInt(p, c.pkg, c.split)
	r.Instance(rule, c.pkg+"."+c.table)
	r.Floor(rule, len(lv.Elems), c.floor)
	r.Count("table_entries", len(lv.Elems))
	// canonMap
	cm := le.Var(p.Obj(c.pkg, c.canon).(*types.Var))
	if cm.Kind != LList || cm.Len != 256 {
		undecided("P-LIT: %s is not a [256]byte literal", c.canon)
	}
	var canon [256]int64
	for i, e := range cm.Elems {
		x, ok := e.Int()
		if !ok || cm.Index[i] > 255 {
			undecided("P-LIT: %s has a non-constant entry", c.canon)
		}
		canon[cm.Index[i]] = x
	}
	r.Instance(rule, c.pkg+"."+c.canon)
	idem := true
	for b := 0; b < 256; b++ {
		cb := canon[b]
		if cb != 0 && canon[cb] != cb {
			idem = false
			r.Bad(rule, c.pkg+"."+c.canon, p.Pos(cm.Pos), fmt.Sprintf("%s[%d]=%d but %s[%d]=%d: canonicalization is not idempotent", c.canon, b, cb, c.canon, cb, canon[cb]))
			break
		}
	}
	if idem {
		r.OK(rule, c.pkg+"."+c.canon, p.Pos(cm.Pos), "canonMap[canonMap[b]] == canonMap[b] for all 256 bytes")
	}
	tags := make([]string, len(lv.Elems))
	for i, e := range lv.Elems {
		if lv.Index[i] != int64(i) {
			undecided("P-LIT: %s uses keyed elements", c.table)
		}
		if f := e.field("lang"); f != nil {
			s, ok := f.Str()
			if !ok {
				undecided("P-LIT: %s[%d].lang not constant", c.table, i)
			}
			tags[i] = s
		}
	}
	if split < 0 || split > int64(len(tags)) {
		r.Bad(rule, c.pkg+"."+c.split, "-", fmt.Sprintf("%s=%d is outside the table (%d entries)", c.split, split, len(tags)))
		return
	}
	segs := [][2]int{{0, int(split)}, {int(split), len(tags)}}
	for si, sg := range segs {
		key := fmt.Sprintf("%s.%s[segment %d]", c.pkg, c.table, si)
		ok := true
		for i := sg[0] + 1; i < sg[1]; i++ {
			if !(tags[i-1] < tags[i]) {
				ok = false
				r.Bad(rule, key, p.Pos(lv.Elems[i].Pos), fmt.Sprintf("entry %d %q is not above entry %d %q: binary search over the segment misses it", i, tags[i], i-1, tags[i-1]))
				break
			}
		}
		if ok {
			r.OK(rule, key, p.Pos(lv.Pos), fmt.Sprintf("entries [%d,%d) strictly sorted (unique)", sg[0], sg[1]))
		}
	}
	// tags are fixed points of the canonicalization
	okc := true
	for i, t := range tags {
		for j := 0; j < len(t); j++ {
			b := t[j]
			if b >= 0xFF || canon[b] != int64(b) {
				okc = false
				r.Bad(rule, c.pkg+"."+c.table+"/canonical", p.Pos(lv.Elems[i].Pos), fmt.Sprintf("tag %q of entry %d is not in canonical form: no canonicalized input can ever match it", t, i))
				break
			}
		}
		if !okc {
			break
		}
	}
	if okc {
		r.OK(rule, c.pkg+"."+c.table+"/canonical", p.Pos(lv.Pos), "every tag is a fixed point of canonMap")
	}
	// LangXx constants name the entry they index
	sc := p.Pkg(c.pkg).Types.Scope()
	idT := p.Named(c.pkg, c.idType)
	nconst, okn := 0, true
	for _, name := range sc.Names() {
		cst, ok := sc.Lookup(name).(*types.Const)
		if !ok || !types.Identical(cst.Type(), idT) || !strings.HasPrefix(name, c.constPrefix) {
			continue
		}
		nconst++
		v, _ := constant.Int64Val(constant.ToInt(cst.Val()))
		want := ""
		if v >= 0 && v < int64(len(tags)) {
			want = c.constPrefix + tagToIdent(tags[v])
		}
		if want != name {
			okn = false
			r.Bad(rule, c.pkg+"."+name, p.Pos(cst.Pos()), fmt.Sprintf("constant %s = %d indexes the entry %q (expected name %s): identifier and tag no longer correspond", name, v, safeTag(tags, v), want))
		}
	}
	r.Floor(rule+"(constants)", nconst, c.floor-1)
	if okn {
		r.OK(rule, c.pkg+"."+c.constPrefix+"*", p.Pos(lv.Pos), fmt.Sprintf("all %d identifier constants index the entry whose tag they spell", nconst))
	}
	// round trip through NewLangID (model: an exact match in either segment wins, then the primary part is
	// searched in segment 0, then in segment 1 — the exact-first shape itself is checked by R-LANGID, ruleLangID below):
	// identifiers round-trip iff tags are unique over the whole table.
	first := map[string]int{}
	uniq := true
	for i := 1; i < len(tags); i++ {
		if j, dup := first[tags[i]]; dup {
			uniq = false
			r.Bad(rule, fmt.Sprintf("%s.%s/roundtrip/%s", c.pkg, c.table, tags[i]), p.Pos(lv.Elems[i].Pos), fmt.Sprintf("identifiers %d and %d share the tag %q: one of them cannot round-trip through its tag", j, i, tags[i]))
		} else {
			first[tags[i]] = i
		}
	}
	if uniq {
		r.OK(rule, c.pkg+"."+c.table+"/roundtrip", p.Pos(lv.Pos), fmt.Sprintf("all %d tags are distinct over both segments, so an exact-first search maps each tag back to its identifier", len(tags)-1))
	}
}

func safeTag(tags []string, i int64) string {
	if i < 0 || i >= int64(len(tags)) {
		return "<none>"
	}
	return tags[i]
}

func tagToIdent(t string) string {
	parts := strings.Split(t, "-")
	for i, s := range parts {
		if s != "" {
			parts[i] = strings.ToUpper(s[:1]) + s[1:]
		}
	}
	return strings.Join(parts, "_")
}

// ---- R-BITS ------------------------------------------------------------------------------

type bitsCfg struct {
	pkg, typ string
	masks    []string // constant names that must be distinct single bits
	// setters: method -> names of masks it may change
	setters map[string][]string
	// getters: method -> names of masks it may read
	getters map[string][]string
	// independence: setter -> getters whose read mask must be disjoint from what the setter changes
	independent map[string][]string
}

func ruleBits(p *Prog, r *Report, c bitsCfg) {
	const rule = "R-BITS"
	mask := map[string]uint64{}
	seen := map[uint64]string{}
	for _, m := range c.masks {
		v := uint64(constInt(p, c.pkg, m))
		mask[m] = v
		key := c.pkg + "." + m
		r.Instance(rule, key)
		if v == 0 || v&(v-1) != 0 {
			r.Bad(rule, key, p.Pos(p.Obj(c.pkg, m).Pos()), fmt.Sprintf("%s = %#x is not a single bit", m, v))
		} else if o, dup := seen[v]; dup {
			r.Bad(rule, key, p.Pos(p.Obj(c.pkg, m).Pos()), fmt.Sprintf("%s and %s are the same bit %#x", m, o, v))
		} else {
			r.OK(rule, key, p.Pos(p.Obj(c.pkg, m).Pos()), fmt.Sprintf("single bit %#x, distinct from the other masks", v))
		}
		seen[v] = m
	}
	union := func(names []string) uint64 {
		var u uint64
		for _, n := range names {
			u |= mask[n]
		}
		return u
	}
	T := p.Named(c.pkg, c.typ)
	changed := map[string]uint64{}
	var snames []string
	for s := range c.setters {
		snames = append(snames, s)
	}
	sort.Strings(snames)
	for _, s := range snames {
		fn := p.Func(c.pkg, c.typ, s)
		ch, ok := bitsChanged(fn, T)
		key := c.pkg + "." + c.typ + "." + s
		r.Instance(rule, key)
		changed[s] = ch
		allowed := union(c.setters[s])
		if !ok {
			r.Bad(rule, key, p.Pos(fn.Pos()), "the value written is not derived from the previous value by constant bit operations: other attributes are not preserved")
		} else if ch&^allowed != 0 {
			r.Bad(rule, key, p.Pos(fn.Pos()), fmt.Sprintf("may change bits %#x outside its own attribute mask %#x", ch&^allowed, allowed))
		} else {
			r.OK(rule, key, p.Pos(fn.Pos()), fmt.Sprintf("changes only bits %#x ⊆ %#x", ch, allowed))
		}
	}
	read := map[string]uint64{}
	var gnames []string
	for g := range c.getters {
		gnames = append(gnames, g)
	}
	sort.Strings(gnames)
	for _, g := range gnames {
		fn := p.Func(c.pkg, c.typ, g)
		rd, ok := bitsRead(p, fn, T, map[*ssa.Function]bool{})
		key := c.pkg + "." + c.typ + "." + g
		r.Instance(rule, key)
		read[g] = rd
		allowed := union(c.getters[g])
		if !ok {
			r.Bad(rule, key, p.Pos(fn.Pos()), "reads the value other than through constant masks: its result depends on unrelated attributes")
		} else if rd&^allowed != 0 {
			r.Bad(rule, key, p.Pos(fn.Pos()), fmt.Sprintf("reads bits %#x outside its own attribute mask %#x", rd&^allowed, allowed))
		} else {
			r.OK(rule, key, p.Pos(fn.Pos()), fmt.Sprintf("reads only bits %#x ⊆ %#x", rd, allowed))
		}
	}
	for _, s := range snames {
		for _, g := range c.independent[s] {
			key := c.pkg + "." + c.typ + "." + s + "⊥" + g
			if changed[s]&read[g] != 0 {
				r.Bad(rule, key, p.Pos(p.Func(c.pkg, c.typ, s).Pos()), fmt.Sprintf("%s changes bits %#x that %s reads", s, changed[s]&read[g], g))
			} else {
				r.OK(rule, key, p.Pos(p.Func(c.pkg, c.typ, s).Pos()), "write set disjoint from read set")
			}
		}
	}
}

// bitsChanged: for a setter (pointer receiver storing to *d, or value receiver returning T), the set of bits
// of the result that may differ from the receiver's previous value.
func bitsChanged(fn *ssa.Function, T *types.Named) (uint64, bool) {
	if len(fn.Params) == 0 {
		return 0, false
	}
	recv := fn.Params[0]
	const all = ^uint64(0)
	var eval func(v ssa.Value, depth int) (uint64, bool)
	eval = func(v ssa.Value, depth int) (uint64, bool) {
		if depth > 50 {
			return all, false
		}
		switch x := v.(type) {
		case *ssa.Parameter:
			if x == recv {
				return 0, true
			}
		case *ssa.UnOp:
			if x.Op == token.MUL && x.X == recv {
				return 0, true
			}
			if x.Op == token.XOR { // ^x : not a preserved form unless constant (handled as Const)
				return all, false
			}
		case *ssa.Phi:
			var u uint64
			for _, e := range x.Edges {
				m, ok := eval(e, depth+1)
				if !ok {
					return all, false
				}
				u |= m
			}
			return u, true
		case *ssa.BinOp:
			cx, okx := constU(x.X)
			cy, oky := constU(x.Y)
			switch x.Op {
			case token.OR, token.XOR, token.AND_NOT:
				if oky {
					m, ok := eval(x.X, depth+1)
					return m | cy, ok
				}
				if okx && x.Op != token.AND_NOT {
					m, ok := eval(x.Y, depth+1)
					return m | cx, ok
				}
			case token.AND:
				if oky {
					m, ok := eval(x.X, depth+1)
					return m | (^cy & 0xFF), ok
				}
				if okx {
					m, ok := eval(x.Y, depth+1)
					return m | (^cx & 0xFF), ok
				}
			}
		}
		return all, false
	}
	var res uint64
	found := false
	ok := true
	for _, b := range fn.Blocks {
		for _, in := range b.Instrs {
			switch x := in.(type) {
			case *ssa.Store:
				if x.Addr == recv {
					m, o := eval(x.Val, 0)
					res |= m
					ok = ok && o
					found = true
				}
			case *ssa.Return:
				for _, rv := range x.Results {
					if types.Identical(rv.Type(), T) {
						m, o := eval(rv, 0)
						res |= m
						ok = ok && o
						found = true
					}
				}
			}
		}
	}
	return res, ok && found
}

func constU(v ssa.Value) (uint64, bool) {
	c, ok := v.(*ssa.Const)
	if !ok || c.Value == nil {
		return 0, false
	}
	x := constant.ToInt(c.Value)
	if x.Kind() != constant.Int {
		return 0, false
	}
	if u, ok := constant.Uint64Val(x); ok {
		return u, true
	}
	if i, ok := constant.Int64Val(x); ok {
		return uint64(i), true
	}
	return 0, false
}

// bitsRead: the bits of the receiver that may influence the result of a getter: every use of the receiver
// must be `recv & C`, a comparison of such, or a call of another method on it (followed).
func bitsRead(p *Prog, fn *ssa.Function, T *types.Named, seen map[*ssa.Function]bool) (uint64, bool) {
	if seen[fn] || len(fn.Params) == 0 {
		return 0, true
	}
	seen[fn] = true
	recv := fn.Params[0]
	var res uint64
	ok := true
	var uses func(v ssa.Value)
	uses = func(v ssa.Value) {
		refs := v.Referrers()
		if refs == nil {
			return
		}
		for _, in := range *refs {
			switch x := in.(type) {
			case *ssa.BinOp:
				if x.Op == token.AND {
					if c, o := constU(x.Y); o && x.X == v {
						res |= c
						continue
					}
					if c, o := constU(x.X); o && x.Y == v {
						res |= c
						continue
					}
				}
				ok = false
			case *ssa.UnOp:
				if x.Op == token.MUL { // *d
					uses(x)
					continue
				}
				ok = false
			case *ssa.Call:
				cal := x.Common().StaticCallee()
				if cal != nil && len(x.Common().Args) > 0 && x.Common().Args[0] == v && cal.Signature.Recv() != nil {
					m, o := bitsRead(p, cal, T, seen)
					res |= m
					ok = ok && o
					continue
				}
				ok = false
			case *ssa.DebugRef:
			default:
				ok = false
			}
		}
	}
	uses(recv)
	return res, ok
}

// ruleSortedList: a [...]rune / []int literal is strictly increasing (bisection precondition).
func ruleSortedList(p *Prog, r *Report, le *litEval, pkg, name string, floor int) {
	const rule = "R-TAB/list"
	lv := le.Var(p.Obj(pkg, name).(*types.Var))
	if lv.Kind != LList {
		undecided("P-LIT: %s.%s is not a list literal", pkg, name)
	}
	r.Instance(rule, pkg+"."+name)
	r.Floor(rule+"("+name+")", len(lv.Elems), floor)
	prev := int64(-1 << 62)
	for i, e := range lv.Elems {
		x, ok := e.Int()
		if !ok {
			undecided("P-LIT: %s.%s[%d] is not constant", pkg, name, i)
		}
		if x <= prev {
			r.Bad(rule, pkg+"."+name, p.Pos(e.Pos), fmt.Sprintf("entry %d (%#x) is not above entry %d (%#x): the bisection over %s misses entries", i, x, i-1, prev, name))
			return
		}
		prev = x
	}
	r.OK(rule, pkg+"."+name, p.Pos(lv.Pos), fmt.Sprintf("%d entries strictly increasing", len(lv.Elems)))
}

// ruleBisect: every sort.Search in the module whose predicate indexes a package-level table literal and compares one of its
// fields (or the element itself) with a searched value requires that table to be sorted by that field.
func ruleBisect(p *Prog, r *Report, le *litEval) {
	const rule = "R-BISECT"
	n := 0
	for _, f := range p.ModFns() {
		for _, b := range f.Blocks {
			for _, in := range b.Instrs {
				call, ok := in.(*ssa.Call)
				if !ok {
					continue
				}
				sc := call.Common().StaticCallee()
				if sc == nil || sc.String() != "sort.Search" {
					continue
				}
				var pred *ssa.Function
				switch x := call.Common().Args[1].(type) {
				case *ssa.MakeClosure:
					pred, _ = x.Fn.(*ssa.Function)
				case *ssa.Function:
					pred = x
				}
				if pred == nil {
					continue
				}
				// predicate: compares T[i] or T[i].F, T a package-level variable with a literal
				for _, pb := range pred.Blocks {
					for _, pin := range pb.Instrs {
						bo, ok := pin.(*ssa.BinOp)
						if !ok {
							continue
						}
						for _, side := range []ssa.Value{bo.X, bo.Y} {
							g, field := tableElem(side)
							if g == nil {
								continue
							}
							v, ok := g.Object().(*types.Var)
							if !ok || !le.HasInit(v) {
								continue
							}
							n++
							key := p.FnName(f) + "/" + g.Name()
							r.Instance(rule, key)
							lv := le.Var(v)
							if lv.Kind != LList {
								continue
							}
							sorted, at := true, -1
							var prev *LV
							for i, e := range lv.Elems {
								cur := e
								if field != "" {
									cur = le.resolve(e).field(field)
								}
								if cur == nil {
									sorted, at = false, i
									break
								}
								if prev != nil && !lvLess(prev, cur) {
									sorted, at = false, i
									break
								}
								prev = cur
							}
							what := g.Name()
							if field != "" {
								what += "[i]." + field
							}
							r.Check(sorted, rule, key, p.IPos(call), fmt.Sprintf("sort.Search over %s requires the table to be strictly increasing by that key%s", what, map[bool]string{true: "", false: fmt.Sprintf(" — entry %d is out of order: the bisection misses entries", at)}[sorted]))
						}
					}
				}
			}
		}
	}
	r.Count("bisections_over_tables", n)
}

// tableElem: v is (a load of) T[i] or T[i].F for a package-level T.
func tableElem(v ssa.Value) (*ssa.Global, string) {
	v = stripConv(v)
	field := ""
	if u, ok := v.(*ssa.UnOp); ok && u.Op == token.MUL {
		v = u.X
	}
	if fa, ok := v.(*ssa.FieldAddr); ok {
		field = fieldOf(fa).Name()
		v = fa.X
	}
	if fv, ok := v.(*ssa.Field); ok {
		field = fieldOf(fv).Name()
		v = fv.X
		if u, ok := v.(*ssa.UnOp); ok && u.Op == token.MUL {
			v = u.X
		}
	}
	ia, ok := v.(*ssa.IndexAddr)
	if !ok {
		return nil, ""
	}
	g, ok := ia.X.(*ssa.Global)
	if !ok {
		return nil, ""
	}
	return g, field
}

func lvLess(a, b *LV) bool {
	if x, ok := a.Int(); ok {
		if y, ok := b.Int(); ok {
			return x < y
		}
	}
	if x, ok := a.Str(); ok {
		if y, ok := b.Str(); ok {
			return x < y
		}
	}
	return false
}

// ---- R-LANGID ----------------------------------------------------------------------------------------------------------

// ruleLangID: the tag -> identifier search is exact-first. The table has two sorted segments and binarySearchLang falls
// back to the primary part of the tag inside the segment it is given; a result of the segment-0 search may therefore be
// returned only (a) on the true edge of a comparison of the found entry's tag with the searched tag (an exact match), or
// (b) after the segment-1 search has run on every path (an exact entry there had its chance). Otherwise an identifier of
// segment 1 whose primary part is listed in segment 0 does not round-trip — which R-TAB/lang's uniqueness argument assumes.
func ruleLangID(p *Prog, r *Report) {
	const rule = "R-LANGID"
	f := p.Func("language", "", "NewLangID")
	bs := p.Func("language", "", "binarySearchLang")
	var first, second *ssa.Call
	for _, c := range callsOf(f, bs) {
		sl, ok := c.Common().Args[1].(*ssa.Slice)
		if !ok {
			undecided("R-LANGID: a binarySearchLang call of NewLangID is not given a slice of the table")
		}
		switch {
		case sl.Low == nil && sl.High != nil && first == nil:
			first = c
		case sl.Low != nil && second == nil:
			second = c
		default:
			undecided("R-LANGID: NewLangID no longer searches one low and one high segment")
		}
	}
	if first == nil || second == nil {
		undecided("R-LANGID: NewLangID no longer searches the two segments of the table with binarySearchLang")
	}
	fromFirst := func(v ssa.Value) bool {
		return derivesFrom(v, func(x ssa.Value) bool {
			ex, ok := x.(*ssa.Extract)
			return ok && ex.Tuple == ssa.Value(first) && ex.Index == 0
		}, 0)
	}
	fLang := p.Field("language", "languageInfo", "lang")
	// exact-match tests: `entry.lang == l` with l the parameter
	var exact []guard
	for _, b := range f.Blocks {
		iff := ifOf(b)
		if iff == nil {
			continue
		}
		bo, ok := iff.Cond.(*ssa.BinOp)
		if !ok || bo.Op != token.EQL {
			continue
		}
		isParam := func(v ssa.Value) bool { return v == ssa.Value(f.Params[0]) }
		isTag := func(v ssa.Value) bool {
			u, ok := v.(*ssa.UnOp)
			return ok && u.Op == token.MUL && fieldOf(u.X) == fLang
		}
		if isParam(bo.X) && isTag(bo.Y) || isParam(bo.Y) && isTag(bo.X) {
			exact = append(exact, guard{iff, false}) // site must be unreachable from the false edge
		}
	}
	n := 0
	for _, b := range f.Blocks {
		for _, in := range b.Instrs {
			ret, ok := in.(*ssa.Return)
			if !ok || len(ret.Results) != 2 {
				continue
			}
			if k, isC := ret.Results[1].(*ssa.Const); !isC || k.Value == nil || !constant.BoolVal(k.Value) {
				continue
			}
			if !fromFirst(ret.Results[0]) {
				continue
			}
			n++
			key := fmt.Sprintf("%s/return#%d", p.FnName(f), n)
			r.Instance(rule, key)
			okExact := false
			for _, g := range exact {
				// guard semantics: the site is unreachable from the edge named by exhaustedTrue (here: the false edge)
				if guardedBy(p, f, ret, g) {
					okExact = true
				}
			}
			okAfter, _ := mustPrecede(p, f, ret, func(x ssa.Instruction) bool { return x == ssa.Instruction(second) }, nil)
			r.Check(okExact || okAfter, rule, key, p.IPos(ret), "a result of the search of the first segment is returned only for an exact match, or after the second segment was searched (exact-first: every identifier maps back to itself through its tag)")
		}
	}
	r.Floor(rule, n, 1)
}

// delimExceptions reads, in the functions of pkg that take an index into the table and switch on the entry found there,
// the entries handled apart from the positional rule: a function returning a bool gives "is an opening delimiter" for the
// listed runes (the others: even index), a function returning an int gives the index of the counterpart as an offset
// from the index of the listed closing runes (the others: -1).
func delimExceptions(p *Prog, pkg, name string) (open map[rune]bool, offset map[rune]int) {
	open, offset = map[rune]bool{}, map[rune]int{}
	g := p.Obj(pkg, name)
	for _, f := range p.ModFns() {
		if fnPkg(f) == nil || fnPkg(f).Path() != p.pkgPath(pkg) || len(f.Params) != 1 || f.Signature.Recv() != nil || f.Signature.Results().Len() != 1 {
			continue
		}
		par := f.Params[0]
		isEntry := func(v ssa.Value) bool {
			u, ok := v.(*ssa.UnOp)
			if !ok || u.Op != token.MUL {
				return false
			}
			ia, ok := u.X.(*ssa.IndexAddr)
			if !ok || ia.Index != ssa.Value(par) {
				return false
			}
			gl, ok := ia.X.(*ssa.Global)
			return ok && gl.Object() == g
		}
		for _, b := range f.Blocks {
			iff := ifOf(b)
			if iff == nil {
				continue
			}
			bo, ok := iff.Cond.(*ssa.BinOp)
			if !ok || bo.Op != token.EQL || !isEntry(bo.X) {
				continue
			}
			k, ok := bo.Y.(*ssa.Const)
			if !ok || k.Value == nil {
				continue
			}
			c, _ := constant.Int64Val(constant.ToInt(k.Value))
			// the block taken when the entry equals the constant, through empty jumps
			tb := b.Succs[0]
			for len(tb.Instrs) == 1 && len(tb.Succs) == 1 {
				tb = tb.Succs[0]
			}
			ret, ok := tb.Instrs[len(tb.Instrs)-1].(*ssa.Return)
			if !ok || len(ret.Results) != 1 {
				continue
			}
			switch x := ret.Results[0].(type) {
			case *ssa.Const:
				if x.Value != nil && x.Value.Kind() == constant.Bool {
					open[rune(c)] = constant.BoolVal(x.Value)
				}
			case *ssa.BinOp:
				if d, ok := x.Y.(*ssa.Const); ok && x.X == ssa.Value(par) && d.Value != nil && (x.Op == token.ADD || x.Op == token.SUB) {
					v, _ := constant.Int64Val(constant.ToInt(d.Value))
					if x.Op == token.SUB {
						v = -v
					}
					offset[rune(c)] = int(v)
				}
			}
		}
	}
	return open, offset
}

// ruleOTLanguages — R-TAB/otlang: the table mapping language subtags to OpenType language system tags is searched by a
// hand-written bisection on the language and then read forwards and backwards over equal keys: the keys must be
// non-decreasing, every key must be a primary language subtag (two or three lower case ASCII letters: anything else can
// never be asked for, the lookup key being cut at the first '-' of a canonical tag), and every tag is 0 ("no tag": the row
// only blocks an inheritance) or four printable ASCII bytes.
func ruleOTLanguages(p *Prog, r *Report, le *litEval, pkg, name, fKey, fTag string, floor int) {
	const rule = "R-TAB/otlang"
	lv := le.Var(p.Obj(pkg, name).(*types.Var))
	if lv.Kind != LList {
		undecided("P-LIT: %s.%s is not a list literal", pkg, name)
	}
	key := pkg + "." + name
	r.Instance(rule, key)
	r.Floor(rule+"("+name+")", len(lv.Elems), floor)
	prev := ""
	for i, e := range lv.Elems {
		fk, ft := e.field(fKey), e.field(fTag)
		if fk == nil || ft == nil {
			undecided("P-LIT: %s.%s[%d] lacks a field", pkg, name, i)
		}
		k, ok := fk.Str()
		if !ok {
			undecided("P-LIT: %s.%s[%d].%s is not constant", pkg, name, i, fKey)
		}
		t, ok := ft.Int()
		if !ok {
			undecided("P-LIT: %s.%s[%d].%s is not constant", pkg, name, i, fTag)
		}
		wf := len(k) == 2 || len(k) == 3
		for _, c := range []byte(k) {
			if c < 'a' || c > 'z' {
				wf = false
			}
		}
		if !wf {
			r.Bad(rule, key, p.Pos(e.Pos), fmt.Sprintf("entry %d has the key %q, which is not a primary language subtag (2 or 3 lower case letters): no language can select it", i, k))
			return
		}
		if k < prev {
			r.Bad(rule, key, p.Pos(e.Pos), fmt.Sprintf("entry %d (%q) is below entry %d (%q): the bisection misses entries", i, k, i-1, prev))
			return
		}
		prev = k
		if t != 0 {
			for sh := 0; sh < 32; sh += 8 {
				if c := byte(t >> uint(sh)); c < 0x20 || c > 0x7E {
					r.Bad(rule, key, p.Pos(e.Pos), fmt.Sprintf("entry %d (%q) has the tag %#x, which is not made of four printable ASCII bytes", i, k, t))
					return
				}
			}
		}
	}
	r.OK(rule, key, p.Pos(lv.Pos), fmt.Sprintf("%d entries: keys are primary language subtags in non-decreasing order, tags are 0 or four printable bytes", len(lv.Elems)))
}

// ruleDelimParity — R-TAB/parity: the table of paired delimiters is consulted by position (even index: opening, odd index:
// closing, its counterpart at index-1), but for the runes the code itself handles apart (read from the code by
// delimExceptions, not listed here): no character of general category Ps (opening punctuation) is handled as a closing
// delimiter and none of category Pe (closing punctuation) as an opening one, and the counterpart of every closing
// delimiter is an opening one. The categories are those of the Go release running the check; characters it does not know
// have no category and decide nothing.
func ruleDelimParity(p *Prog, r *Report, le *litEval, pkg, name string) {
	const rule = "R-TAB/parity"
	lv := le.Var(p.Obj(pkg, name).(*types.Var))
	if lv.Kind != LList {
		undecided("P-LIT: %s.%s is not a list literal", pkg, name)
	}
	key := pkg + "." + name
	r.Instance(rule, key)
	openEx, offEx := delimExceptions(p, pkg, name)
	runes := make([]rune, len(lv.Elems))
	for i, e := range lv.Elems {
		x, ok := e.Int()
		if !ok {
			undecided("P-LIT: %s.%s[%d] is not constant", pkg, name, i)
		}
		runes[i] = rune(x)
	}
	isOpen := func(i int) bool {
		if v, ok := openEx[runes[i]]; ok {
			return v
		}
		return i%2 == 0
	}
	n := 0
	for i, c := range runes {
		e := lv.Elems[i]
		if unicode.Is(unicode.Ps, c) || unicode.Is(unicode.Pe, c) {
			n++
		}
		if !isOpen(i) && unicode.Is(unicode.Ps, c) {
			r.Bad(rule, key, p.Pos(e.Pos), fmt.Sprintf("U+%04X is an opening punctuation (Ps) and is handled as a closing delimiter (index %d): it never opens a pair, and with an odd index the parity of the following entries is shifted", c, i))
			return
		}
		if isOpen(i) && unicode.Is(unicode.Pe, c) {
			r.Bad(rule, key, p.Pos(e.Pos), fmt.Sprintf("U+%04X is a closing punctuation (Pe) and is handled as an opening delimiter (index %d)", c, i))
			return
		}
		if !isOpen(i) {
			j := i - 1
			if d, ok := offEx[c]; ok {
				j = i + d
			}
			if j < 0 || j >= len(runes) || !isOpen(j) {
				r.Bad(rule, key, p.Pos(e.Pos), fmt.Sprintf("the counterpart of the closing delimiter U+%04X (index %d) is looked for at index %d, which is not an opening delimiter", c, i, j))
				return
			}
		}
	}
	if len(lv.Elems)%2 != 0 {
		r.Bad(rule, key, p.Pos(lv.Pos), "odd number of entries: the last opening delimiter has no counterpart")
		return
	}
	r.Floor(rule, n, 40)
	r.OK(rule, key, p.Pos(lv.Pos), fmt.Sprintf("%d Ps/Pe characters are handled as their category requires (%d runes handled apart by the code)", n, len(openEx)))
}

// ruleCategoryBlocks — R-TAB/blocks: UnicodeData.txt describes the large uniform blocks (CJK ideographs, Hangul syllables,
// Tangut, private use, surrogates) by a <…, First>/<…, Last> pair of lines; a generator that reads the file line by line
// emits the two end points only, as one entry {Lo, Hi, Stride: Hi-Lo}. In the general-category tables of the module (a
// *unicode.RangeTable variable named after a two-letter category), no two-point entry may have all the code points between
// its ends in the same category of the Go release running the check: such an entry is a block whose interior was lost.
func ruleCategoryBlocks(p *Prog, r *Report, tables map[*types.Var]*rangeTable, pkg string, floor int) {
	const rule = "R-TAB/blocks"
	n := 0
	var vars []*types.Var
	for v := range tables {
		vars = append(vars, v)
	}
	sort.Slice(vars, func(i, j int) bool { return vars[i].Name() < vars[j].Name() })
	for _, v := range vars {
		if v.Pkg() == nil || v.Pkg().Path() != p.pkgPath(pkg) {
			continue
		}
		std, ok := unicode.Categories[v.Name()]
		if !ok || len(v.Name()) != 2 {
			continue
		}
		n++
		key := pkg + "." + v.Name()
		r.Instance(rule, key)
		rt := tables[v]
		bad := ""
		pos := rt.pos
		for _, e := range append(append([]rng{}, rt.r16...), rt.r32...) {
			if e.stride != e.hi-e.lo || e.hi-e.lo < 8 {
				continue
			}
			all := true
			for c := e.lo + 1; c < e.hi; c++ {
				if !unicode.Is(std, rune(c)) {
					all = false
					break
				}
			}
			if all {
				bad = fmt.Sprintf("the entry {%#x, %#x, stride %d} holds its two ends only, while every code point between them has the category %s: the interior of a First/Last block of UnicodeData.txt was lost (%d code points)", e.lo, e.hi, e.stride, v.Name(), e.hi-e.lo-1)
				pos = e.pos
				break
			}
		}
		r.Check(bad == "", rule, key, p.Pos(pos), "no two-point entry spans a uniform block of the category"+pref(bad))
	}
	r.Floor(rule, n, floor)
}

// ruleScriptToLang — R-TAB/scriptlang: the representative language that ScriptToLang gives for a script is a language the
// library itself knows as written in that script (languagesInfos[lang].scripts contains it): otherwise enforceLanguages
// replaces a language "not used for the script" by another one that is not either.
func ruleScriptToLang(p *Prog, r *Report, le *litEval, pkg, mapName, table string, floor int) {
	const rule = "R-TAB/scriptlang"
	mv := le.Var(p.Obj(pkg, mapName).(*types.Var))
	if mv.Kind != LMap {
		undecided("P-LIT: %s.%s is not a map literal", pkg, mapName)
	}
	tv := le.Var(p.Obj(pkg, table).(*types.Var))
	if tv.Kind != LList {
		undecided("P-LIT: %s.%s is not an array literal", pkg, table)
	}
	scriptsOf := map[int64][]int64{}
	for i, e := range tv.Elems {
		e = le.resolve(e)
		if e == nil || e.Kind != LStruct {
			continue
		}
		sc := le.resolve(e.Fields["scripts"])
		if sc == nil || sc.Kind != LList {
			continue
		}
		for _, s := range sc.Elems {
			if x, ok := s.Int(); ok {
				scriptsOf[tv.Index[i]] = append(scriptsOf[tv.Index[i]], x)
			}
		}
	}
	key := pkg + "." + mapName
	r.Instance(rule, key)
	known := constInt(p, pkg, "knownLangsCount")
	n := 0
	for i, k := range mv.Keys {
		sv, ok1 := k.Int()
		lg, ok2 := mv.Elems[i].Int()
		if !ok1 || !ok2 {
			undecided("P-LIT: %s.%s has a non-constant entry", pkg, mapName)
		}
		if lg == 0 || lg >= known {
			continue // no language, or a language nothing is known about (UseScript answers true)
		}
		n++
		found := false
		for _, s := range scriptsOf[lg] {
			if s == sv {
				found = true
			}
		}
		if !found {
			tag := ""
			if lg < int64(len(tv.Elems)) {
				if e := le.resolve(tv.Elems[lg]); e != nil && e.Kind == LStruct {
					if c := e.Fields["lang"]; c != nil && c.Const != nil {
						tag = c.Const.ExactString()
					}
				}
			}
			r.Bad(rule, key, p.Pos(k.Pos), fmt.Sprintf("the script %#x is given the language #%d %s, which %s does not list as written in that script: the language chosen for a run is not compatible with its script", sv, lg, tag, table))
			return
		}
	}
	r.Floor(rule, n, floor)
	r.OK(rule, key, p.Pos(mv.Pos), fmt.Sprintf("%d representative languages are written in their script according to %s", n, table))
}
