package main

// c09.go — C09 Font loading and querying are total on arbitrary bytes (R-REC, R-ALLOC, R-COUNT).

import (
	"fmt"
	"go/token"
	"go/types"
	"os"
	"sort"
	"strings"

	"golang.org/x/tools/go/ssa"
)

func init() {
	register(&propDef{id: "C09", run: runC09, controls: controlsC09})
}

// ---- backward slices ------------------------------------------------------------------------------------------

type srcKind int

const (
	srcNone srcKind = iota
	srcFile         // >= 32-bit value read from file bytes
)

// wideInt: integer type of at least 32 bits.
func wideInt(t types.Type) bool {
	b, ok := t.Underlying().(*types.Basic)
	if !ok || b.Info()&types.IsInteger == 0 {
		return false
	}
	switch b.Kind() {
	case types.Int8, types.Uint8, types.Int16, types.Uint16:
		return false
	}
	return true
}

type allocCtx struct {
	p         *Prog
	dataPkgs  map[string]bool // packages whose struct fields hold parsed file data
	memo      map[ssa.Value][]ssa.Value
	inProg    map[ssa.Value]bool
	paramsUnb bool
}

// unboundedSources returns the file-derived wide values in the backward slice of v (through arithmetic, conversions
// between wide types and phis). The slice stops at narrow (<=16 bit) values, len/cap, constants and parameters.
func (c *allocCtx) unboundedSources(v ssa.Value) []ssa.Value {
	if r, ok := c.memo[v]; ok {
		return r
	}
	if c.inProg[v] {
		return nil
	}
	c.inProg[v] = true
	defer delete(c.inProg, v)
	var out []ssa.Value
	add := func(xs []ssa.Value) {
		for _, x := range xs {
			dup := false
			for _, y := range out {
				if x == y {
					dup = true
				}
			}
			if !dup {
				out = append(out, x)
			}
		}
	}
	if !wideInt(v.Type()) {
		c.memo[v] = nil
		return nil
	}
	switch x := v.(type) {
	case *ssa.Const, *ssa.Parameter, *ssa.FreeVar:
	case *ssa.Convert:
		add(c.unboundedSources(x.X))
	case *ssa.ChangeType:
		add(c.unboundedSources(x.X))
	case *ssa.BinOp:
		switch x.Op {
		case token.REM, token.AND, token.SHR:
			// x % k, x & k, x >> k with a narrow or constant right operand are bounded by it (REM/AND) or smaller
			if x.Op == token.SHR {
				add(c.unboundedSources(x.X))
			} else if _, isC := x.Y.(*ssa.Const); !isC {
				add(c.unboundedSources(x.X))
				add(c.unboundedSources(x.Y))
			}
		default:
			add(c.unboundedSources(x.X))
			add(c.unboundedSources(x.Y))
		}
	case *ssa.Phi:
		for _, e := range x.Edges {
			add(c.unboundedSources(e))
		}
	case *ssa.Call:
		if sc := x.Common().StaticCallee(); sc != nil {
			s := sc.String()
			if strings.HasPrefix(s, "(encoding/binary.bigEndian).Uint32") || strings.HasPrefix(s, "(encoding/binary.bigEndian).Uint64") ||
				strings.HasPrefix(s, "(encoding/binary.littleEndian).Uint32") || strings.HasPrefix(s, "(encoding/binary.littleEndian).Uint64") {
				out = append(out, x)
			}
		}
		if bi, ok := x.Common().Value.(*ssa.Builtin); ok && (bi.Name() == "min" || bi.Name() == "max") {
			for _, a := range x.Common().Args {
				add(c.unboundedSources(a))
			}
		}
		// a pure single-block accessor of the module (`func (s tableSection) end() int64 { return int64(s.offset) +
		// int64(s.length) }`): its result depends on the fields of its arguments that it reads; they are sources here
		// when the caller loads the same field of the same object
		if sc := x.Common().StaticCallee(); sc != nil && c.p.inModule(fnPkg(sc)) && pureAccessor(sc) {
			ret := sc.Blocks[0].Instrs[len(sc.Blocks[0].Instrs)-1].(*ssa.Return)
			for _, rv := range ret.Results {
				for _, src := range c.unboundedSources(rv) {
					var par *ssa.Parameter
					fld, byValue := -1, false
					switch y := src.(type) {
					case *ssa.Field:
						par, _ = y.X.(*ssa.Parameter)
						fld, byValue = y.Field, true
					case *ssa.UnOp:
						if fa, ok := y.X.(*ssa.FieldAddr); ok {
							par, _ = fa.X.(*ssa.Parameter)
							fld = fa.Field
							// a value parameter spilled to a local
							if al, isAl := fa.X.(*ssa.Alloc); isAl {
								if st := singleStore(al); st != nil {
									par, _ = st.Val.(*ssa.Parameter)
									byValue = true
								}
							}
						}
					}
					if par == nil {
						continue
					}
					var obj ssa.Value // the address of the object in the caller
					for k, q := range sc.Params {
						if q == par && k < len(x.Common().Args) {
							arg := x.Common().Args[k]
							if !byValue {
								obj = arg
							} else if u, ok := arg.(*ssa.UnOp); ok && u.Op == token.MUL {
								obj = u.X
							}
						}
					}
					if obj == nil || x.Parent() == nil {
						continue
					}
					for _, cb := range x.Parent().Blocks {
						for _, cin := range cb.Instrs {
							if u, ok := cin.(*ssa.UnOp); ok && u.Op == token.MUL {
								if fa, ok := u.X.(*ssa.FieldAddr); ok && fa.Field == fld && (fa.X == obj || sameAddr(fa.X, obj)) {
									add([]ssa.Value{u})
								}
							}
						}
					}
				}
			}
		}
	case *ssa.UnOp:
		if x.Op == token.MUL {
			if f := fieldOf(x.X); f != nil && f.Pkg() != nil && c.dataPkgs[f.Pkg().Path()] {
				out = append(out, x)
			}
		} else {
			add(c.unboundedSources(x.X))
		}
	case *ssa.Field:
		if f := fieldOf(x); f != nil && f.Pkg() != nil && c.dataPkgs[f.Pkg().Path()] {
			out = append(out, x)
		}
	case *ssa.Extract:
		// result of a parsing helper: treated as a source when it is wide and comes from a module function of a data package
		if call, ok := x.Tuple.(*ssa.Call); ok {
			if sc := call.Common().StaticCallee(); sc != nil && fnPkg(sc) != nil && c.dataPkgs[fnPkg(sc).Path()] {
				// results of parsers are checked in the parser itself
			}
		}
	}
	c.memo[v] = out
	return out
}

// pureAccessor: a function of one block that only reads fields of its parameters and computes with them.
func pureAccessor(f *ssa.Function) bool {
	if len(f.Blocks) != 1 || len(f.Blocks[0].Instrs) == 0 {
		return false
	}
	for _, in := range f.Blocks[0].Instrs {
		switch x := in.(type) {
		case *ssa.Field, *ssa.FieldAddr, *ssa.UnOp, *ssa.BinOp, *ssa.Convert, *ssa.ChangeType, *ssa.Return, *ssa.DebugRef:
		case *ssa.Alloc:
			if x.Heap {
				return false
			}
		case *ssa.Store:
			// the spill of a value parameter
			if _, isPar := x.Val.(*ssa.Parameter); !isPar {
				return false
			}
			if al, ok := x.Addr.(*ssa.Alloc); !ok || al.Heap {
				return false
			}
		default:
			return false
		}
	}
	_, ok := f.Blocks[0].Instrs[len(f.Blocks[0].Instrs)-1].(*ssa.Return)
	return ok
}

// dependsOn: v's backward slice (same rules) contains one of the sources.
func (c *allocCtx) dependsOn(v ssa.Value, sources []ssa.Value) bool {
	for _, s := range c.unboundedSources(v) {
		for _, t := range sources {
			if s == t || sameSource(s, t) {
				return true
			}
		}
	}
	return false
}

// wrapsBefore: between a source and v there is an addition, multiplication or left shift carried out in an integer type
// of at most 32 bits: the quantity compared by the guard can wrap around although the file value is huge, so the
// comparison bounds nothing (count+1 in uint32 is 0 for count = 0xFFFFFFFF).
func (c *allocCtx) wrapsBefore(v ssa.Value, sources []ssa.Value, depth int) bool {
	return len(c.wrapOps(v, sources, depth)) > 0
}

func (c *allocCtx) wrapOps(v ssa.Value, sources []ssa.Value, depth int) []ssa.Value {
	if depth > 12 {
		return nil
	}
	switch x := v.(type) {
	case *ssa.BinOp:
		switch x.Op {
		case token.ADD, token.MUL, token.SHL:
			if bits, _, ok := intKind(x.Type()); ok && bits <= 32 && (c.dependsOn(x.X, sources) || c.dependsOn(x.Y, sources)) {
				// both operands bounded by type to 16 bits cannot wrap 32 bits with one addition; a product can
				wide := func(o ssa.Value) bool {
					if k, isC := intConst(o); isC {
						return k > 1<<15 || k < 0
					}
					b, _, ok := intKind(stripConv(o).Type())
					return !ok || b > 16
				}
				if x.Op != token.ADD || wide(x.X) || wide(x.Y) {
					return []ssa.Value{x}
				}
			}
		}
		return append(c.wrapOps(x.X, sources, depth+1), c.wrapOps(x.Y, sources, depth+1)...)
	case *ssa.Convert:
		return c.wrapOps(x.X, sources, depth+1)
	case *ssa.ChangeType:
		return c.wrapOps(x.X, sources, depth+1)
	case *ssa.Phi:
		var out []ssa.Value
		for _, e := range x.Edges {
			out = append(out, c.wrapOps(e, sources, depth+1)...)
		}
		return out
	}
	return nil
}

// sameSource: two loads of the same field path (go/ssa does no CSE).
func sameSource(a, b ssa.Value) bool {
	ua, ok1 := a.(*ssa.UnOp)
	ub, ok2 := b.(*ssa.UnOp)
	if ok1 && ok2 && ua.Op == token.MUL && ub.Op == token.MUL {
		return sameAddr(ua.X, ub.X)
	}
	fa, ok1 := a.(*ssa.Field)
	fb, ok2 := b.(*ssa.Field)
	if ok1 && ok2 {
		return fa.Field == fb.Field && (fa.X == fb.X || sameSource(fa.X, fb.X))
	}
	return false
}

// failingEdge: every path from block b to a function exit ends in a return of a non-nil error (or panics); a path that
// reaches the make site or returns normally disqualifies.
func failingEdge(fn *ssa.Function, start *ssa.BasicBlock, site ssa.Instruction) bool {
	res := fn.Signature.Results()
	errIdx := -1
	for i := 0; i < res.Len(); i++ {
		if types.Identical(res.At(i).Type(), types.Universe.Lookup("error").Type()) {
			errIdx = i
		}
	}
	if errIdx < 0 {
		return false
	}
	w := &walker{fn: fn}
	ok := true
	w.run([]point{{start, 0}}, func(in ssa.Instruction) bool {
		if in == site {
			ok = false
			return false
		}
		if ret, isRet := in.(*ssa.Return); isRet {
			if !definitelyError(ret.Results[errIdx], 0) {
				ok = false
			}
			return false
		}
		return true
	})
	return ok
}

// definitelyError: the value is a non-nil error on every path (a freshly built error, a package-level error value).
func definitelyError(v ssa.Value, d int) bool {
	if d > 6 {
		return false
	}
	switch x := v.(type) {
	case *ssa.MakeInterface:
		return true
	case *ssa.Call:
		if sc := x.Common().StaticCallee(); sc != nil {
			switch sc.String() {
			case "errors.New", "fmt.Errorf":
				return true
			}
		}
	case *ssa.Phi:
		for _, e := range x.Edges {
			if !definitelyError(e, d+1) {
				return false
			}
		}
		return len(x.Edges) > 0
	case *ssa.UnOp:
		if x.Op == token.MUL {
			if _, isG := x.X.(*ssa.Global); isG {
				return true
			}
			// a result spilled to a local because the function has a defer: the store that reaches this load in its block
			if al, ok := x.X.(*ssa.Alloc); ok {
				blk := x.Block()
				for i := instrIndex(x) - 1; i >= 0; i-- {
					if st, ok := blk.Instrs[i].(*ssa.Store); ok && st.Addr == ssa.Value(al) {
						return definitelyError(st.Val, d+1)
					}
				}
			}
		}
	}
	return false
}

type allocCfg struct {
	pkgs     []string // packages whose make sites are examined
	dataPkgs []string // packages whose wide struct fields hold file data
	floor    int
}

func ruleAlloc(p *Prog, r *Report, c allocCfg) {
	const rule = "R-ALLOC"
	ctx := &allocCtx{p: p, dataPkgs: map[string]bool{}, memo: map[ssa.Value][]ssa.Value{}, inProg: map[ssa.Value]bool{}}
	for _, d := range c.dataPkgs {
		ctx.dataPkgs[p.pkgPath(d)] = true
	}
	inPkg := map[string]bool{}
	for _, k := range c.pkgs {
		inPkg[p.pkgPath(k)] = true
	}
	nMake, nInst := 0, 0
	for _, f := range p.ModFns() {
		if fnPkg(f) == nil || !inPkg[fnPkg(f).Path()] {
			continue
		}
		for _, b := range f.Blocks {
			for _, in := range b.Instrs {
				var sizes []ssa.Value
				switch x := in.(type) {
				case *ssa.MakeSlice:
					sizes = []ssa.Value{x.Len, x.Cap}
				case *ssa.MakeMap:
					if x.Reserve != nil {
						sizes = []ssa.Value{x.Reserve}
					}
				default:
					continue
				}
				nMake++
				var srcs []ssa.Value
				for _, s := range sizes {
					if s != nil {
						srcs = append(srcs, ctx.unboundedSources(s)...)
					}
				}
				if len(srcs) == 0 {
					continue
				}
				nInst++
				key := p.FnName(f)
				r.Instance(rule, key)
				// a failing guard on the same source(s)
				guarded := false
				wrapNote := ""
				for _, gb := range f.Blocks {
					iff := ifOf(gb)
					if iff == nil {
						continue
					}
					bo, ok := iff.Cond.(*ssa.BinOp)
					if !ok {
						continue
					}
					switch bo.Op {
					case token.LSS, token.LEQ, token.GTR, token.GEQ:
					default:
						continue
					}
					if !ctx.dependsOn(bo.X, srcs) && !ctx.dependsOn(bo.Y, srcs) {
						continue
					}
					// a wrapping operation invalidates the comparison unless the allocation is sized by the wrapped value itself
					var wraps []ssa.Value
					if ctx.dependsOn(bo.X, srcs) {
						wraps = append(wraps, ctx.wrapOps(bo.X, srcs, 0)...)
					}
					if ctx.dependsOn(bo.Y, srcs) {
						wraps = append(wraps, ctx.wrapOps(bo.Y, srcs, 0)...)
					}
					escapes := false
					for _, w := range wraps {
						through := false
						for _, sz := range sizes {
							if sz != nil && derivesFrom(sz, func(v ssa.Value) bool { return v == w }, 0) {
								through = true
							}
						}
						if !through {
							escapes = true
						}
					}
					if escapes {
						wrapNote = "; a comparison exists but its operand is computed with an addition, product or shift in an integer of at most 32 bits, which wraps for large file values"
						continue
					}
					for _, exhTrue := range []bool{true, false} {
						if !guardedBy(p, f, in, guard{iff, exhTrue}) {
							continue
						}
						idx := 1
						if exhTrue {
							idx = 0
						}
						if failingEdge(f, gb.Succs[idx], in) {
							guarded = true
						}
					}
				}
				if guarded {
					r.OK(rule, key, p.IPos(in), "allocation sized by a 32/64-bit value from the file is preceded by a bound test whose failing edge returns an error")
				} else {
					var ss []string
					for _, s := range srcs {
						ss = append(ss, s.String()+" at "+p.Pos(instrPos(s.(ssa.Instruction))))
					}
					sort.Strings(ss)
					r.Bad(rule, key, p.IPos(in), fmt.Sprintf("%s allocates a buffer whose size is a 32/64-bit value taken from the file (%s) without a bound test whose failing edge leaves with an error: a few bytes of input can request gigabytes%s", p.FnName(f), strings.Join(ss, "; "), wrapNote))
				}
			}
		}
	}
	r.Count("make_sites_examined", nMake)
	r.Floor(rule, nInst, c.floor)
}

func runC09(p *Prog, r *Report) {
	recExplain(r)
	ruleRec(p, r, 6, nil)
	r.Explain = append(r.Explain, "R-ALLOC: every make in the font-reading packages whose size has, in its backward slice (arithmetic, wide conversions, phis), a 32/64-bit value read from the file (binary.*.Uint32/64, wide fields of parsed structures) is guarded by a comparison on that value whose other edge returns a non-nil error; the capacity idiom `if cap(dst) < n { dst = make(n) }` is not a guard. Sizes that are 16-bit by type are bounded by type and are not instances.")
	ruleAlloc(p, r, allocCfg{pkgs: []string{"font/opentype", "font/opentype/tables", "font/cff", "font/cff/interpreter", "font", "fontscan"},
		dataPkgs: []string{"font/opentype", "font/opentype/tables", "font/cff"}, floor: 10})
	r.Explain = append(r.Explain, "R-LOOP: in the font-reading packages, every loop whose next position is taken from the data (a header phi re-assigned on the back edge from a decoded or loaded value that is not an arithmetic step of the loop's own variables, and used as index/key/bound inside the loop) has a counted exit — a cycle of links in a file cannot keep it running.")
	ruleLoop(p, r, []string{"font", "font/opentype", "font/opentype/tables", "font/cff", "font/cff/interpreter"})
	r.Explain = append(r.Explain, "R-DIV: every integer division or remainder in the font packages whose divisor is not a non-zero constant has a provably non-zero divisor (dominating test excluding zero, switch cases, non-zero at every store of the field / every return of the callee / every call site of the parameter, 1<<n), or a reviewed reason.")
	ruleDiv(p, r, []string{"font", "font/opentype", "font/opentype/tables", "font/cff", "font/cff/interpreter"}, reviewedDivs(), 5)
	r.Explain = append(r.Explain, "R-COUNT: for every signed integer parameter that sizes a make in its function without a sign test there, every in-module call site passes an argument that is provably non-negative (conversion from an unsigned type, len/cap, constants, sums/products of those, a difference guarded by the comparison that makes it non-negative, or a parameter for which the same holds at all its call sites).")
	ruleCount(p, r, []string{"font/opentype/tables", "font/opentype", "font/cff", "font"}, 10)
	r.Explain = append(r.Explain, "R-GEN (P-LIN): in the five font-reading packages, every index, slice and binary.*.UintN access to a []byte follows from the length tests that dominate it — upper bounds and non-negative lower bounds — using linear facts only (failing edges of comparisons, loop invariants, lengths of made slices, quotients by constants, `read <= len(arg)` post-conditions and constant length preconditions checked at every call site, fields that neither the function nor its callees write, the interprocedural sign prover). Inside a reader — a function that takes a []byte parameter — the accesses to slices of every element type are obligations too (a reader fills arrays whose sizes come from the data). Functions with an access that needs a non-linear or cross-function argument are listed, with the reason, in sa/rgen_tables.go and reported as not claimed.")
	rgenPk := map[string]bool{}
	for _, k := range []string{"font/opentype/tables", "font/cff", "font/opentype", "font", "font/cff/interpreter"} {
		rgenPk[p.pkgPath(k)] = true
	}
	ruleGenReaders(p, r, "R-GEN", func(f *ssa.Function) bool { return fnPkg(f) != nil && rgenPk[fnPkg(f).Path()] }, rgenNotClaimed, 300)
	r.Explain = append(r.Explain, "R-IDX (regression rule over accesses to slices of ANY element type in the hand-written code of the five font packages): each access key (function / indexed field) of the frozen set sa/ridx_tables.go — the accesses whose bounds P-LIN derived from the function's own dominating tests on the pinned tree — is still derivable. Accesses that are safe because of invariants established elsewhere (sanitizers, parallel arrays) are outside the set and decide nothing.")
	ruleIdx(p, r, "R-IDX", []string{"font/opentype/tables", "font/cff", "font/opentype", "font", "font/cff/interpreter"}, ridxFont, 80)
	nilExplain(r)
	ruleNil(p, r, "R-NIL", p.pkgPath("font/opentype/tables"), []string{p.pkgPath("font/opentype/tables"), p.pkgPath("font")}, 20, 30)
	r.Explain = append(r.Explain, "R-PROGRESS: every parse loop that advances its offset by the length returned by a nested reader and whose trip count is a 32/64-bit value of the file makes progress: at each successful return of the nested reader the returned length is provably at least 1 (P-LIN at the return, with the same lower bound of nested readers on their success branch, to a fixpoint).")
	ruleProgress(p, r, []string{"font/opentype/tables", "font/opentype", "font", "font/cff"}, 3)
	r.Explain = append(r.Explain, "R-OPBUDGET: the charstring interpreter (Machine.Run) increments its operator counter and compares it with a constant, failing when exceeded, on every path from the loop head to the dispatch of an operator (handler.Apply), and every iteration that dispatched an operator carries the incremented value: subroutine calls multiply the work, the nesting limit alone does not bound it.")
	ruleOpBudget(p, r, "font/cff/interpreter", "Machine", "Run", "Apply")
	r.Assumptions = append(r.Assumptions,
		"R-GEN models int as 64 bits and does not model overflow of offset arithmetic; accesses to slices of other element types (parsed records) are NOT covered",
		"termination of loops and absence of index-out-of-range panics on parsed (non-byte) structures in the ~9000 lines of hand-written table processing are NOT decided",
		"allocation sizes that are products of 16-bit values are treated as bounded by type")
	r.NotDecided = append(r.NotDecided, "no out-of-range access in hand-written table code", "time/memory proportionality beyond recursion and allocation guards (e.g. CFF subroutine fan-out, cmap4 segment amplification)")
}

func controlsC09(cp *Prog, r *Report) {
	controlsRec(cp, r)
	controlsNil(cp, r)
	expectControl(r, "R-ALLOC", func(cr *Report) {
		ruleAlloc(cp, cr, allocCfg{pkgs: []string{"rd"}, dataPkgs: []string{"rd"}, floor: 2})
	}, "(*rd.Loader).tableBad", "rd.parseBad", "rd.parseWrapBad")
	expectControl(r, "R-COUNT", func(cr *Report) { ruleCount(cp, cr, []string{"rd"}, 3) }, "rd.parseN(count)<-rd.callBadDiff")
	expectControl(r, "R-LOOP", func(cr *Report) { ruleLoop(cp, cr, []string{"rd"}) }, "rd.followBad/loop@g")
	expectControl(r, "R-OPBUDGET", func(cr *Report) {
		ruleOpBudget(cp, cr, "rd", "machine", "RunGood", "Apply")
		ruleOpBudget(cp, cr, "rd", "machine", "RunBad", "Apply")
	}, "(*rd.machine).RunBad/Apply")
	expectControl(r, "R-PROGRESS", func(cr *Report) { ruleProgress(cp, cr, []string{"rd"}, 2) }, "rd.parseAllBad/advance by the length of parseRecBad")
	expectControl(r, "R-DIV", func(cr *Report) { ruleDiv(cp, cr, []string{"rd"}, nil, 3) }, "rd.divSwitchBad/kind", "rd.divBad/ppem")
	controlsC16(cp, r)
}

// ---- R-COUNT ------------------------------------------------------------------------------------------------------

// countParams: integer parameters of f that reach the length of a make in f (through arithmetic) while f has no test of
// the parameter against a lower bound (`p < 0` style).
func countParams(f *ssa.Function) []*ssa.Parameter {
	var out []*ssa.Parameter
	for _, prm := range f.Params {
		b, ok := prm.Type().Underlying().(*types.Basic)
		if !ok || b.Info()&types.IsInteger == 0 || b.Info()&types.IsUnsigned != 0 {
			continue
		}
		reaches := false
		for _, blk := range f.Blocks {
			for _, in := range blk.Instrs {
				if ms, ok := in.(*ssa.MakeSlice); ok {
					if derivesFrom(ms.Len, func(v ssa.Value) bool { return v == ssa.Value(prm) }, 0) {
						reaches = true
					}
				}
			}
		}
		if !reaches {
			continue
		}
		// a sign test on the parameter inside f discharges it
		signTest := false
		for _, blk := range f.Blocks {
			if iff := ifOf(blk); iff != nil {
				if bo, ok := iff.Cond.(*ssa.BinOp); ok {
					if c, okc := intConst(bo.Y); okc && stripConv(bo.X) == ssa.Value(prm) && (bo.Op == token.LSS && c <= 0 || bo.Op == token.LEQ && c < 0 || bo.Op == token.GEQ && c <= 0 || bo.Op == token.GTR && c < 0) {
						signTest = true
					}
				}
			}
		}
		if !signTest {
			out = append(out, prm)
		}
	}
	return out
}

type nonNegCtx struct {
	p      *Prog
	memoP  map[*ssa.Parameter]int // 0 unknown, 1 in progress, 2 yes, 3 no
	memoF  map[*types.Var]int
	stores map[*types.Var][]*ssa.Store
	inPhi  map[*ssa.Phi]bool
	// The answers must not depend on the order of the queries (the callers iterate over maps). A node in progress is
	// assumed non-negative when it is met again (induction); a "yes" obtained under an assumption about a node that was
	// in progress BEFORE the memoised node started is provisional and is not memoised (a "no" under optimistic assumptions
	// is definite). Every memoised node is evaluated with the depth counter reset, so the cut-off does not depend on who asks.
	stackPos   map[interface{}]int // node in progress -> its position in the stack of nodes in progress
	stackLen   int
	minAssumed int // smallest stack position of a node whose in-progress assumption was used since the last reset
}

const noAssumption = 1 << 30

func (c *nonNegCtx) push(node interface{}) int {
	if c.stackPos == nil {
		c.stackPos = map[interface{}]int{}
		c.minAssumed = noAssumption
	}
	c.stackPos[node] = c.stackLen
	c.stackLen++
	return c.stackLen - 1
}

func (c *nonNegCtx) pop(node interface{}) {
	delete(c.stackPos, node)
	c.stackLen--
}

// assumed records that the in-progress node was taken as non-negative.
func (c *nonNegCtx) assumed(node interface{}) {
	if pos, ok := c.stackPos[node]; ok && pos < c.minAssumed {
		c.minAssumed = pos
	}
}

// nonNeg: the value is provably >= 0 at this point.
func (c *nonNegCtx) nonNeg(v ssa.Value, at ssa.Instruction, depth int) bool {
	r := c.nonNeg0(v, at, depth)
	if !r && os.Getenv("VSA_DEBUG") != "" {
		fn := ""
		if v.Parent() != nil {
			fn = v.Parent().Name()
		}
		fmt.Printf("DEBUG nonNeg fails depth=%d %T %v in %s\n", depth, v, v, fn)
	}
	return r
}

// guardNonNeg: `at` is reachable only through the edge of a dominating test `v >= k` (k >= 0), `v > k` (k >= -1) or the
// failing edge of `v < k`, `v <= k`, on a value that is the same source as v (same value, two loads of one location, or
// the same value under conversions that do not change it).
func (c *nonNegCtx) guardNonNeg(v ssa.Value, at ssa.Instruction) bool {
	f := at.Parent()
	if f == nil {
		return false
	}
	same := func(a, b ssa.Value) bool {
		a, b = stripValueConv(a), stripValueConv(b)
		return a == b || sameSource(a, b)
	}
	for _, blk := range f.Blocks {
		iff := ifOf(blk)
		if iff == nil {
			continue
		}
		bo, ok := iff.Cond.(*ssa.BinOp)
		if !ok || !same(bo.X, v) {
			continue
		}
		k, ok := intConst(bo.Y)
		if !ok {
			continue
		}
		var negOnTrue, okOp bool
		switch bo.Op {
		case token.LSS:
			negOnTrue, okOp = true, k >= 0 // true edge: v < k may be negative; false edge: v >= k >= 0
		case token.LEQ:
			negOnTrue, okOp = true, k >= -1
		case token.GEQ:
			negOnTrue, okOp = false, k >= 0
		case token.GTR:
			negOnTrue, okOp = false, k >= -1
		}
		if okOp && guardedBy(c.p, f, at, guard{iff, negOnTrue}) {
			return true
		}
	}
	return false
}

// stripValueConv removes conversions that preserve the value.
func stripValueConv(v ssa.Value) ssa.Value {
	for {
		switch x := v.(type) {
		case *ssa.Convert:
			if valuePreserving(x.X.Type(), x.Type()) {
				v = x.X
				continue
			}
		case *ssa.ChangeType:
			v = x.X
			continue
		}
		return v
	}
}

func (c *nonNegCtx) nonNeg0(v ssa.Value, at ssa.Instruction, depth int) bool {
	if depth > 8 {
		return false
	}
	if at != nil && depth < 4 && c.guardNonNeg(v, at) {
		return true
	}
	switch x := v.(type) {
	case *ssa.Const:
		k, ok := intConst(x)
		return ok && k >= 0
	case *ssa.Convert:
		if b, ok := x.X.Type().Underlying().(*types.Basic); ok && b.Info()&types.IsUnsigned != 0 {
			// unsigned -> a strictly wider signed type (64-bit int assumed on the analysed configuration; GOARCH=386 is
			// re-checked in the thorough tier for build only), or unsigned -> unsigned
			if tb, ok := x.Type().Underlying().(*types.Basic); ok && tb.Info()&types.IsUnsigned != 0 {
				return true
			}
			return valuePreserving(x.X.Type(), x.Type())
		}
		// signed -> signed: a narrowing conversion may change the sign
		if !valuePreserving(x.X.Type(), x.Type()) {
			if tb, ok := x.Type().Underlying().(*types.Basic); ok && tb.Info()&types.IsUnsigned != 0 {
				return true
			}
			return false
		}
		return c.nonNeg(x.X, at, depth+1)
	case *ssa.ChangeType:
		return c.nonNeg(x.X, at, depth+1)
	case *ssa.Call:
		if bi, ok := x.Common().Value.(*ssa.Builtin); ok && (bi.Name() == "len" || bi.Name() == "cap") {
			return true
		}
		if bi, ok := x.Common().Value.(*ssa.Builtin); ok && (bi.Name() == "min" || bi.Name() == "max") {
			all := true
			for _, a := range x.Common().Args {
				if !c.nonNeg(a, at, depth+1) {
					all = false
				}
			}
			return all
		}
		return c.resultNonNeg(x, 0, depth+1)
	case *ssa.BinOp:
		switch x.Op {
		case token.ADD, token.MUL, token.QUO, token.SHR, token.AND, token.REM:
			return c.nonNeg(x.X, at, depth+1) && c.nonNeg(x.Y, at, depth+1)
		case token.SHL:
			// k << n with a small positive constant k and a shift amount of at most 16 bits of magnitude... only when n is
			// a narrow unsigned value tested against small constants is not tracked: accept 1<<n for n converted from a value
			// that a dominating switch restricts to constants below 32
			if k, ok := intConst(x.X); ok && k > 0 && k < 1<<16 {
				return c.smallShift(x.Y, at)
			}
			return false
		case token.SUB:
			// a - b with a dominating test that leaves when a < b
			return c.subGuarded(x, at)
		}
		return false
	case *ssa.Phi:
		// induction: while the edges of a phi are examined the phi itself is assumed non-negative (sums, products and
		// constants keep the sign; wrap-around of 64-bit counters is not modelled)
		if c.inPhi == nil {
			c.inPhi = map[*ssa.Phi]bool{}
		}
		if c.inPhi[x] {
			c.assumed(x)
			return true
		}
		c.inPhi[x] = true
		c.push(x)
		defer func() { delete(c.inPhi, x); c.pop(x) }()
		for i, e := range x.Edges {
			if c.nonNeg(e, at, depth+1) {
				continue
			}
			// the edge is taken only when a test established e >= 0
			if !edgeImpliesNonNeg(x.Block().Preds[i], x.Block(), e) {
				return false
			}
		}
		return true
	case *ssa.Parameter:
		switch c.memoP[x] {
		case 1:
			c.assumed(x)
			return true
		case 2:
			return true
		case 3:
			return false
		}
		c.memoP[x] = 1
		myPos := c.push(x)
		outer := c.minAssumed
		c.minAssumed = noAssumption
		depth = 0 // the answer for a parameter does not depend on who asks
		f := x.Parent()
		idx := -1
		for i, q := range f.Params {
			if q == x {
				idx = i
			}
		}
		ok := false
		if n := c.p.CG().Nodes[f]; f.Synthetic != "" && (n == nil || len(n.In) == 0) {
			ok = true // a compiler-made wrapper (promoted method) that nothing calls
		} else if n != nil && len(n.In) > 0 && idx >= 0 {
			ok = true
			for _, e := range n.In {
				if e.Site == nil {
					ok = false
					break
				}
				args := e.Site.Common().Args
				j := idx
				if e.Site.Common().IsInvoke() {
					j = idx - 1
				}
				if j < 0 || j >= len(args) || !c.nonNeg(args[j], e.Site, depth+1) {
					ok = false
					break
				}
			}
		}
		used := c.minAssumed
		c.pop(x)
		if used < outer {
			outer = used
		}
		c.minAssumed = outer
		switch {
		case !ok:
			c.memoP[x] = 3
		case used >= myPos: // no assumption about a node that started before this one
			c.memoP[x] = 2
		default: // provisional: not memoised
			delete(c.memoP, x)
		}
		return ok
	case *ssa.UnOp:
		if x.Op == token.MUL {
			// load of an unsigned field / variable
			if b, ok := x.Type().Underlying().(*types.Basic); ok && b.Info()&types.IsUnsigned != 0 {
				return true
			}
			// load of a signed field: every store to that field in the module stores a non-negative value
			if f := fieldOf(x.X); f != nil {
				return c.fieldNonNeg(f, depth+1)
			}
			// load of a local variable: every store into it is non-negative
			if al, ok := x.X.(*ssa.Alloc); ok {
				for _, in := range *al.Referrers() {
					if st, ok := in.(*ssa.Store); ok && st.Addr == ssa.Value(al) && !c.nonNeg(st.Val, st, depth+1) {
						return false
					}
				}
				return true
			}
		}
	case *ssa.Field:
		if f := fieldOf(x); f != nil {
			if b, ok := x.Type().Underlying().(*types.Basic); ok && b.Info()&types.IsUnsigned != 0 {
				return true
			}
			return c.fieldNonNeg(f, depth+1)
		}
	case *ssa.Extract:
		// a result of a module function: every return of that function is non-negative at that index
		if call, ok := x.Tuple.(*ssa.Call); ok {
			return c.resultNonNeg(call, x.Index, depth+1)
		}
	}
	if call, ok := v.(*ssa.Call); ok {
		return c.resultNonNeg(call, 0, depth+1)
	}
	if b, ok := v.Type().Underlying().(*types.Basic); ok && b.Info()&types.IsUnsigned != 0 {
		return true
	}
	return false
}

func (c *nonNegCtx) resultNonNeg(call *ssa.Call, idx, depth int) bool {
	sc := call.Common().StaticCallee()
	if sc != nil && fnPkg(sc) != nil && fnPkg(sc).Path() == "math/bits" {
		return true // counts of bits
	}
	if sc == nil || sc.Blocks == nil || depth > 8 {
		return false
	}
	for _, b := range sc.Blocks {
		for _, in := range b.Instrs {
			if ret, ok := in.(*ssa.Return); ok {
				if idx >= len(ret.Results) || !c.nonNeg(ret.Results[idx], ret, depth+1) {
					return false
				}
			}
		}
	}
	return true
}

func (c *nonNegCtx) fieldNonNeg(f *types.Var, depth int) bool {
	if c.memoF == nil {
		c.memoF = map[*types.Var]int{}
		c.stores = map[*types.Var][]*ssa.Store{}
		for _, fn := range c.p.ModFns() {
			for _, b := range fn.Blocks {
				for _, in := range b.Instrs {
					if st, ok := in.(*ssa.Store); ok {
						if fld := fieldOf(st.Addr); fld != nil {
							c.stores[fld] = append(c.stores[fld], st)
						}
					}
				}
			}
		}
	}
	switch c.memoF[f] {
	case 1:
		c.assumed(f)
		return true
	case 2:
		return true
	case 3:
		return false
	}
	c.memoF[f] = 1
	myPos := c.push(f)
	outer := c.minAssumed
	c.minAssumed = noAssumption
	ok := len(c.stores[f]) > 0
	for _, st := range c.stores[f] {
		if !c.nonNeg(st.Val, st, 0) { // depth reset: the answer for a field does not depend on who asks
			ok = false
			break
		}
	}
	// composite literals assign fields without a Store to a FieldAddr only when built in a local Alloc: those are Stores too.
	used := c.minAssumed
	c.pop(f)
	if used < outer {
		outer = used
	}
	c.minAssumed = outer
	switch {
	case !ok:
		c.memoF[f] = 3
	case used >= myPos:
		c.memoF[f] = 2
	default:
		delete(c.memoF, f)
	}
	return ok
}

// subGuarded: for s = a - b, the instruction `at` is unreachable from the edge of a test on which a < b.
func (c *nonNegCtx) subGuarded(s *ssa.BinOp, at ssa.Instruction) bool {
	f := at.Parent()
	for _, blk := range f.Blocks {
		iff := ifOf(blk)
		if iff == nil {
			continue
		}
		bo, ok := iff.Cond.(*ssa.BinOp)
		if !ok {
			continue
		}
		same := func(u, v ssa.Value) bool {
			return u == v || sameSource(stripConv(u), stripConv(v)) || stripConv(u) == stripConv(v)
		}
		// orientation: does the condition say a < b (or a <= b - ...)?
		var lessTrue, found bool
		switch {
		case same(bo.X, s.X) && same(bo.Y, s.Y):
			found = true
			lessTrue = bo.Op == token.LSS
			if bo.Op == token.GEQ {
				lessTrue = false
			} else if bo.Op != token.LSS {
				found = false
			}
		case same(bo.X, s.Y) && same(bo.Y, s.X):
			found = true
			lessTrue = bo.Op == token.GTR
			if bo.Op == token.LEQ {
				lessTrue = false
			} else if bo.Op != token.GTR {
				found = false
			}
		}
		if !found {
			continue
		}
		if guardedBy(c.p, f, at, guard{iff, lessTrue}) {
			return true
		}
	}
	return false
}

func ruleCount(p *Prog, r *Report, pkgs []string, floor int) {
	const rule = "R-COUNT"
	inPkg := map[string]bool{}
	for _, k := range pkgs {
		inPkg[p.pkgPath(k)] = true
	}
	ctx := &nonNegCtx{p: p, memoP: map[*ssa.Parameter]int{}}
	n := 0
	for _, f := range p.ModFns() {
		if fnPkg(f) == nil || !inPkg[fnPkg(f).Path()] {
			continue
		}
		cps := countParams(f)
		if len(cps) == 0 {
			continue
		}
		node := p.CG().Nodes[f]
		if node == nil {
			continue
		}
		for _, prm := range cps {
			idx := -1
			for i, q := range f.Params {
				if q == prm {
					idx = i
				}
			}
			var sites []ssa.CallInstruction
			for _, e := range node.In {
				if e.Site != nil && p.inModule(fnPkg(e.Caller.Func)) {
					sites = append(sites, e.Site)
				}
			}
			sort.Slice(sites, func(i, j int) bool { return sites[i].Pos() < sites[j].Pos() })
			for _, site := range sites {
				args := site.Common().Args
				j := idx
				if site.Common().IsInvoke() {
					j = idx - 1
				}
				if j < 0 || j >= len(args) {
					continue
				}
				n++
				key := fmt.Sprintf("%s(%s)<-%s", p.FnName(f), prm.Name(), p.FnName(site.Parent()))
				r.Instance(rule, key)
				ok := ctx.nonNeg(args[j], site, 0)
				r.Check(ok, rule, key, p.IPos(site), fmt.Sprintf("the argument bound to %s, which sizes an allocation in %s after an upper-bound test only, is provably non-negative (a negative count makes `make` panic)", prm.Name(), p.FnName(f)))
			}
		}
	}
	r.Floor(rule, n, floor)
}

// edgeImpliesNonNeg: the CFG edge pred->blk is the branch of a test `e < 0` / `e >= 0` (or `e <= -1`, `e > -1`) on which
// e is non-negative.
func edgeImpliesNonNeg(pred, blk *ssa.BasicBlock, e ssa.Value) bool {
	iff := ifOf(pred)
	if iff == nil || pred.Succs[0] == pred.Succs[1] {
		return false
	}
	bo, ok := iff.Cond.(*ssa.BinOp)
	if !ok || stripConv(bo.X) != stripConv(e) {
		return false
	}
	k, ok := intConst(bo.Y)
	if !ok {
		return false
	}
	onTrue := pred.Succs[0] == blk
	switch bo.Op {
	case token.LSS: // e < k : false edge means e >= k
		return !onTrue && k >= 0
	case token.LEQ:
		return !onTrue && k >= -1
	case token.GEQ:
		return onTrue && k >= 0
	case token.GTR:
		return onTrue && k >= -1
	}
	return false
}

// shiftMax: the largest constant the shift amount can take according to the dominating equality tests (see smallShift).
func (c *nonNegCtx) shiftMax(n ssa.Value, at ssa.Instruction) (int64, bool) {
	if k, ok := intConst(n); ok {
		return k, k >= 0
	}
	if at == nil || !c.smallShift(n, at) {
		return 0, false
	}
	f := at.Parent()
	base := stripConv(n)
	var max int64 = -1
	for _, b := range f.Blocks {
		if iff := ifOf(b); iff != nil {
			if bo, ok := iff.Cond.(*ssa.BinOp); ok && bo.Op == token.EQL && (stripConv(bo.X) == base || sameSource(stripConv(bo.X), base)) {
				if k, ok := intConst(bo.Y); ok && k >= 0 && k < 32 && k > max {
					max = k
				}
			}
		}
	}
	return max, max >= 0
}

// smallShift: the shift amount is restricted to constants below 32 by dominating equality tests (switch cases) on it.
func (c *nonNegCtx) smallShift(n ssa.Value, at ssa.Instruction) bool {
	if k, ok := intConst(n); ok {
		return k >= 0 && k < 32
	}
	f := at.Parent()
	base := stripConv(n)
	// collect `base == K` tests; `at` must be unreachable from the all-false path of the chain
	var ifs []*ssa.If
	for _, b := range f.Blocks {
		if iff := ifOf(b); iff != nil {
			if bo, ok := iff.Cond.(*ssa.BinOp); ok && bo.Op == token.EQL && (stripConv(bo.X) == base || sameSource(stripConv(bo.X), base)) {
				if k, ok := intConst(bo.Y); ok && k >= 0 && k < 32 {
					ifs = append(ifs, iff)
				}
			}
		}
	}
	if len(ifs) == 0 {
		return false
	}
	// cut all true edges: if `at` is still reachable from the entry, some path reaches it without matching a small constant
	hit, _ := reachableFrom(c.p, f, entryPoint(f), func(in ssa.Instruction) bool { return in == at }, nil, cutBranch(true, ifs...))
	return hit == nil
}

func reviewedDivs() map[string]string {
	return map[string]string{
		"(*font/opentype/tables.AATStateTable).parseEntries/.StateSize":          "the generated parsers call parseStates first, which rejects StateSize < 4, and return on its error before parseEntries runs",
		"(*harfbuzz.complexShaperArabic).postprocessGlyphs/nCopies+1*nRepeating": "guarded by nRepeating > 0, and nCopies was just incremented from a value >= 0 (it is 0 or a/b-1 with a > b > 0)",
	}
}
