package main

// thorough.go — extra work of the thorough tier shared by all properties:
//  * the tree is re-loaded under other GOARCH/GOOS configurations (no build-tagged source may escape the rules);
//  * mutation self-test ("firing" half): every patch kept under selfmut/<id>/ and every seeded change recorded as detected by
//    this property is applied to a scratch copy of /repo's working tree (outside /repo and /verif, removed at once) and the
//    check, run as a separate process on the copy, must report a violation. Patches that no longer apply to the working tree
//    are counted as skipped.

import (
	"encoding/json"
	"fmt"
	"os"
	"os/exec"
	"path/filepath"
	"sort"
	"strings"
	"sync"
)

func thoroughCommon(p *Prog, r *Report, d *propDef) {
	for _, env := range [][]string{{"GOARCH=386"}, {"GOOS=windows"}, {"GOOS=darwin"}, {"GOOS=js", "GOARCH=wasm"}} {
		q := Load(LoadOpts{Dir: p.Dir, Patterns: []string{"./..."}, ModPath: p.ModPath, MinPkgs: 13, NoSSA: true, Env: env})
		if q.GoFiles != p.GoFiles {
			undecided("configuration %v compiles %d source files, the default configuration %d: build-tagged sources exist that the rules did not see", env, q.GoFiles, p.GoFiles)
		}
		r.Count("configurations_rechecked", 1)
	}
	if os.Getenv("VSA_NO_SELFMUT") != "" {
		return
	}
	selfMutation(p, r, d)
}

func selfMutation(p *Prog, r *Report, d *propDef) {
	dir := verifDir()
	var patches []string
	m, _ := filepath.Glob(filepath.Join(dir, "selfmut", d.id, "*.diff"))
	patches = append(patches, m...)
	metas, _ := filepath.Glob(filepath.Join(dir, "seeded", "*", "meta.json"))
	for _, mf := range metas {
		b, err := os.ReadFile(mf)
		if err != nil {
			continue
		}
		var meta struct {
			DetectedBy []string `json:"detected_by"`
		}
		if json.Unmarshal(b, &meta) != nil {
			continue
		}
		for _, by := range meta.DetectedBy {
			if strings.HasPrefix(by, d.id+":") {
				patches = append(patches, filepath.Join(filepath.Dir(mf), "patch.diff"))
				break
			}
		}
	}
	sort.Strings(patches)
	self, err := os.Executable()
	if err != nil {
		undecided("cannot locate own executable: %v", err)
	}
	var results []string
	fired, skipped := 0, 0
	var mu sync.Mutex
	sem := make(chan struct{}, 6)
	var wg sync.WaitGroup
	var fatal string
	for _, pf := range patches {
		pf := pf
		name := strings.TrimPrefix(pf, dir+"/")
		wg.Add(1)
		sem <- struct{}{}
		go func() {
			defer wg.Done()
			defer func() { <-sem }()
			defer func() {
				if e := recover(); e != nil {
					mu.Lock()
					fatal = fmt.Sprint(e)
					mu.Unlock()
				}
			}()
			scratch, err := os.MkdirTemp("", "vsa-selfmut-")
			if err != nil {
				undecided("cannot create scratch directory: %v", err)
			}
			{
				defer os.RemoveAll(scratch)
				repo := filepath.Join(scratch, "repo")
				if out, err := exec.Command("rsync", "-a", "--exclude=.git", p.Dir+"/", repo+"/").CombinedOutput(); err != nil {
					undecided("cannot copy the working tree: %v %s", err, out)
				}
				ap := exec.Command("git", "apply", "--whitespace=nowarn", pf)
				ap.Dir = repo
				if out, err := ap.CombinedOutput(); err != nil {
					mu.Lock()
					skipped++
					results = append(results, name+": skipped (does not apply to the current working tree: "+firstLine(string(out))+")")
					mu.Unlock()
					return
				}
				vd := filepath.Join(scratch, "verif")
				os.MkdirAll(filepath.Join(vd, "evidence"), 0o755)
				os.Symlink(filepath.Join(dir, "sa"), filepath.Join(vd, "sa"))
				if b, err := os.ReadFile(filepath.Join(dir, "known_findings.json")); err == nil {
					os.WriteFile(filepath.Join(vd, "known_findings.json"), b, 0o644)
				}
				cmd := exec.Command(self, "check", d.id, "--tier", "quick", "--repo", repo)
				cmd.Env = append(os.Environ(), "VERIF_DIR="+vd, "VSA_NO_SELFMUT=1")
				out, _ := cmd.CombinedOutput()
				code := cmd.ProcessState.ExitCode()
				mu.Lock()
				defer mu.Unlock()
				if code == 1 && strings.Contains(string(out), "VIOLATION property="+d.id) {
					fired++
					var which []string
					for _, l := range strings.Split(string(out), "\n") {
						if strings.Contains(l, "violated: [") {
							s := strings.TrimSpace(l)
							if i := strings.Index(s, " at "); i > 0 {
								s = s[:i]
							}
							which = append(which, strings.TrimPrefix(s, "violated: "))
						}
					}
					results = append(results, name+": reported "+strings.Join(which, "; "))
				} else {
					results = append(results, fmt.Sprintf("%s: NOT reported (exit %d)", name, code))
					r.Bad("SELF-MUTATION", name, "-", fmt.Sprintf("the kept change %s breaks the property but the check exits %d without a violation: the rule lost its sensitivity", name, code))
				}
			}
		}()
	}
	wg.Wait()
	if fatal != "" {
		undecided("self-mutation: %s", fatal)
	}
	sort.Strings(results)
	r.Extra["self_mutation"] = results
	r.Count("self_mutations_fired", fired)
	r.Count("self_mutations_skipped", skipped)
	if len(patches) > 0 && fired > 0 {
		r.OK("SELF-MUTATION", d.id, "-", fmt.Sprintf("%d of %d kept breaking changes are reported on scratch copies (%d skipped)", fired, len(patches), skipped))
	}
}

func firstLine(s string) string {
	if i := strings.IndexByte(s, '\n'); i >= 0 {
		return s[:i]
	}
	return s
}
