package main

// thorough.go — extra work of the thorough tier shared by all properties.

func thoroughCommon(p *Prog, r *Report, d *propDef) {
	// re-load under other GOARCH/GOOS: type errors or a smaller package set make the run undecided.
	for _, env := range [][]string{{"GOARCH=386"}, {"GOOS=windows"}, {"GOOS=darwin"}, {"GOOS=js", "GOARCH=wasm"}} {
		q := Load(LoadOpts{Dir: p.Dir, Patterns: []string{"./..."}, ModPath: p.ModPath, MinPkgs: 13, NoSSA: true, Env: env})
		if q.GoFiles != p.GoFiles {
			undecided("configuration %v compiles %d source files, the default configuration %d: build-tagged sources exist that the rules did not see", env, q.GoFiles, p.GoFiles)
		}
		r.Count("configurations_rechecked", 1)
	}
}
