package main

// rstate.go — R-STATE: reset completeness of reusable objects (P-FX). For each entry method the fields of the object's
// state-holding struct types that may be read before being written in that call must be classified (config, cache —
// handled by R-KEY/R-INV —, or a reviewed exception with a reason). Continuation methods may additionally read what the
// required initialisation method writes on all its paths.

import (
	"fmt"
	"go/types"
	"sort"
	"strings"

	"golang.org/x/tools/go/ssa"
)

type typeRef struct{ pkg, name string }

type stateCfg struct {
	name    string
	types   []typeRef
	entries []fnRef
	conts   []struct{ fn, after fnRef }
	allowed map[string]string // "Type.field" -> reason
	floor   int               // minimal number of fields of the object types that the entries touch at all
}

func ruleState(p *Prog, r *Report, fx *FX, c stateCfg) {
	const rule = "R-STATE"
	objTypes := map[*types.Named]bool{}
	for _, t := range c.types {
		objTypes[p.Named(t.pkg, t.name)] = true
	}
	inObj := func(i int) bool { return objTypes[fx.owner[fx.fields[i]]] }
	fname := func(i int) string { return fx.owner[fx.fields[i]].Obj().Name() + "." + fx.fields[i].Name() }
	used := map[string]bool{}
	check := func(role string, f *ssa.Function, minus bitset) {
		key0 := c.name + "/" + p.FnName(f)
		r.Instance(rule, key0)
		ex := fx.exposed[f]
		if ex == nil {
			undecided("P-FX has no summary for %s", p.FnName(f))
		}
		var bad []int
		nobj := 0
		for i := range fx.fields {
			if !inObj(i) {
				continue
			}
			if fx.mayW[f].has(i) || ex.has(i) {
				nobj++
			}
			if !ex.has(i) || (minus != nil && minus.has(i)) {
				continue
			}
			if reason, ok := c.allowed[fname(i)]; ok {
				used[fname(i)] = true
				if strings.HasPrefix(reason, "ctor-only") {
					if w := nonCtorWriter(p, fx.fields[i]); w != nil {
						r.Bad("R-FROZEN", key0+"/"+fname(i), p.IPos(w), fmt.Sprintf("%s is classified constructor-only but %s stores it outside a constructor: the cached object changes between uses", fname(i), p.FnName(w.Parent())))
						continue
					}
				}
				r.OK(rule, key0+"/"+fname(i), p.IPos(fx.witness[f][i]), "read before written, classified: "+reason)
				continue
			}
			bad = append(bad, i)
		}
		for _, i := range bad {
			r.Bad(rule, key0+"/"+fname(i), p.IPos(fx.witness[f][i]), fmt.Sprintf("%s %s may read %s before writing it in the same call and the field is not classified: state of an earlier use can influence this one", role, p.FnName(f), fname(i)), fx.ExposedPath(f, i)...)
		}
		if len(bad) == 0 {
			r.OK(rule, key0, p.Pos(f.Pos()), fmt.Sprintf("%s: of the %d object fields it touches, every one that may be read before written is classified", role, nobj))
		}
		r.Count("object_fields_touched", nobj)
	}
	for _, e := range c.entries {
		check("entry method", p.Func(e.pkg, e.recv, e.name), nil)
	}
	for _, ct := range c.conts {
		after := p.Func(ct.after.pkg, ct.after.recv, ct.after.name)
		check("continuation method (after "+p.FnName(after)+")", p.Func(ct.fn.pkg, ct.fn.recv, ct.fn.name), fx.must[after])
	}
	// stale table entries are reported as info only (an entry that is no longer needed is harmless)
	var stale []string
	for k := range c.allowed {
		if !used[k] {
			stale = append(stale, k)
		}
	}
	sort.Strings(stale)
	if len(stale) > 0 {
		r.Extra["R-STATE unused classifications ("+c.name+")"] = strings.Join(stale, ", ")
	}
}

// nonCtorWriter returns a store to the field whose base object was not allocated in the storing function.
func nonCtorWriter(p *Prog, fld *types.Var) ssa.Instruction {
	for _, f := range p.ModFns() {
		for _, b := range f.Blocks {
			for _, in := range b.Instrs {
				st, ok := in.(*ssa.Store)
				if !ok {
					continue
				}
				fa, ok := st.Addr.(*ssa.FieldAddr)
				if !ok || fieldOf(fa) != fld {
					continue
				}
				if !baseIsLocal(fa) {
					return in
				}
			}
		}
	}
	return nil
}

// ruleArrayReset — R-STATE/array: P-FX does not track the elements of array-typed fields; for such a field of a reusable
// object, each of its elements is reset on every path to every return of the object's reset method: by a store to
// <field>[k] with the constant k, or by a call f(.., k, ..) of a function whose parameter indexes the store.
func ruleArrayReset(p *Prog, r *Report, pkg, typ, field string, reset fnRef) {
	const rule = "R-STATE/array"
	fld := p.Field(pkg, typ, field)
	at, ok := fld.Type().Underlying().(*types.Array)
	if !ok {
		undecided("R-STATE/array: %s.%s is no longer an array", typ, field)
	}
	f := p.Func(reset.pkg, reset.recv, reset.name)
	// functions storing to field[param j]: function -> j
	viaParam := map[*ssa.Function]int{}
	elemStore := func(in ssa.Instruction) (ssa.Value, bool) {
		st, ok := in.(*ssa.Store)
		if !ok {
			return nil, false
		}
		ia, ok := st.Addr.(*ssa.IndexAddr)
		if !ok {
			return nil, false
		}
		fa, ok := ia.X.(*ssa.FieldAddr)
		if !ok || fieldOf(fa) != fld {
			return nil, false
		}
		return stripConv(ia.Index), true
	}
	for _, g := range p.ModFns() {
		for _, b := range g.Blocks {
			for _, in := range b.Instrs {
				if idx, ok := elemStore(in); ok {
					if par, ok := idx.(*ssa.Parameter); ok && b == g.Blocks[0] {
						for j, q := range g.Params {
							if q == par {
								viaParam[g] = j
							}
						}
					}
				}
			}
		}
	}
	for k := int64(0); k < at.Len(); k++ {
		key := fmt.Sprintf("%s.%s[%d]/%s", typ, field, k, p.FnName(f))
		r.Instance(rule, key)
		// functions that reset element k on every path to every return (a reset moved into a helper), least fixpoint
		always := map[*ssa.Function]bool{}
		var resets func(in ssa.Instruction) bool
		resets = func(in ssa.Instruction) bool {
			if idx, ok := elemStore(in); ok {
				c, isC := intConst(idx)
				return isC && c == k
			}
			if call, ok := in.(ssa.CallInstruction); ok {
				if sc := call.Common().StaticCallee(); sc != nil {
					if j, ok := viaParam[sc]; ok && j < len(call.Common().Args) {
						c, isC := intConst(call.Common().Args[j])
						return isC && c == k
					}
					return always[sc]
				}
			}
			return false
		}
		for changed := true; changed; {
			changed = false
			for _, g := range p.ModFns() {
				if always[g] || g == f || fnPkg(g) != fnPkg(f) || len(g.Blocks) == 0 {
					continue
				}
				all, any := true, false
				for _, b := range g.Blocks {
					ret, isRet := b.Instrs[len(b.Instrs)-1].(*ssa.Return)
					if !isRet {
						continue
					}
					any = true
					if good, _ := mustPrecede(p, g, ret, resets, nil); !good {
						all = false
						break
					}
				}
				if any && all {
					always[g] = true
					changed = true
				}
			}
		}
		ok := true
		var where ssa.Instruction
		var path []string
		for _, b := range f.Blocks {
			ret, isRet := b.Instrs[len(b.Instrs)-1].(*ssa.Return)
			if !isRet {
				continue
			}
			where = ret
			if good, pth := mustPrecede(p, f, ret, resets, nil); !good {
				ok, path = false, pth
				break
			}
		}
		r.Check(ok, rule, key, p.IPos(where), fmt.Sprintf("element %d of %s.%s is reset on every path through %s", k, typ, field, p.FnName(f)), path...)
	}
}
