package main

// core.go — loading of the program under analysis (always from the working tree
// of the directory given, /repo by default), anchor resolution, and the small
// helpers that every rule shares.

import (
	"fmt"
	"go/ast"
	"go/token"
	"go/types"
	"os"
	"sort"
	"strings"

	"golang.org/x/tools/go/callgraph"
	"golang.org/x/tools/go/callgraph/cha"
	"golang.org/x/tools/go/callgraph/vta"
	"golang.org/x/tools/go/packages"
	"golang.org/x/tools/go/ssa"
	"golang.org/x/tools/go/ssa/ssautil"
)

// Undecided is raised (by panic) when the analysis cannot be carried out:
// an anchor does not resolve, the tree does not type-check, an instance count
// falls under its floor.  It is never turned into a VIOLATION line.
type Undecided struct{ Msg string }

func undecided(format string, a ...interface{}) {
	panic(Undecided{fmt.Sprintf(format, a...)})
}

// Prog is one loaded program.
type Prog struct {
	Dir       string
	ModPath   string // import path prefix of the packages that are analysed
	Fset      *token.FileSet
	Pkgs      []*packages.Package          // module packages, sorted by path
	ByPath    map[string]*packages.Package // every loaded package
	SSA       *ssa.Program
	SPkg      map[string]*ssa.Package // module packages
	cg        *callgraph.Graph
	calleeIdx map[ssa.CallInstruction][]*ssa.Function
	allFns    map[*ssa.Function]bool
	modFns    []*ssa.Function // every function (incl. anonymous, methods) of module packages
	GoFiles   int
}

// LoadOpts selects what to load.
type LoadOpts struct {
	Dir      string
	Patterns []string
	ModPath  string
	MinPkgs  int
	Env      []string // extra env (GOARCH=..., GOOS=...)
	NoSSA    bool
}

func baseEnv() []string {
	env := []string{}
	for _, e := range os.Environ() {
		k := e
		if i := strings.IndexByte(e, '='); i >= 0 {
			k = e[:i]
		}
		switch k {
		case "GOFLAGS", "GOPROXY", "GOSUMDB", "GOTOOLCHAIN", "GOWORK", "GOARCH", "GOOS":
			continue
		}
		env = append(env, e)
	}
	return append(env, "GOFLAGS=-mod=mod", "GOPROXY=off", "GOSUMDB=off", "GOTOOLCHAIN=local", "GOWORK=off")
}

func Load(o LoadOpts) *Prog {
	cfg := &packages.Config{
		Mode: packages.NeedName | packages.NeedFiles | packages.NeedCompiledGoFiles | packages.NeedImports |
			packages.NeedDeps | packages.NeedTypes | packages.NeedSyntax | packages.NeedTypesInfo | packages.NeedTypesSizes | packages.NeedModule,
		Dir:   o.Dir,
		Tests: false,
		Env:   append(baseEnv(), o.Env...),
	}
	pkgs, err := packages.Load(cfg, o.Patterns...)
	if err != nil {
		undecided("load %s: %v", o.Dir, err)
	}
	p := &Prog{Dir: o.Dir, ModPath: o.ModPath, ByPath: map[string]*packages.Package{}, SPkg: map[string]*ssa.Package{}}
	packages.Visit(pkgs, nil, func(pk *packages.Package) {
		p.ByPath[pk.PkgPath] = pk
	})
	for _, pk := range pkgs {
		if len(pk.Errors) > 0 {
			undecided("package %s has errors: %v", pk.PkgPath, pk.Errors[0])
		}
		if pk.PkgPath == o.ModPath || strings.HasPrefix(pk.PkgPath, o.ModPath+"/") {
			p.Pkgs = append(p.Pkgs, pk)
			p.GoFiles += len(pk.Syntax)
		}
		p.Fset = pk.Fset
	}
	sort.Slice(p.Pkgs, func(i, j int) bool { return p.Pkgs[i].PkgPath < p.Pkgs[j].PkgPath })
	if len(p.Pkgs) < o.MinPkgs || len(p.Pkgs) == 0 {
		undecided("only %d packages of %s loaded from %s (need >= %d)", len(p.Pkgs), o.ModPath, o.Dir, o.MinPkgs)
	}
	// type errors in dependencies would silently weaken everything
	packages.Visit(pkgs, nil, func(pk *packages.Package) {
		if pk.IllTyped && (pk.PkgPath == o.ModPath || strings.HasPrefix(pk.PkgPath, o.ModPath+"/")) {
			undecided("package %s is ill-typed", pk.PkgPath)
		}
	})
	if o.NoSSA {
		return p
	}
	prog, _ := ssautil.AllPackages(pkgs, ssa.InstantiateGenerics)
	p.SSA = prog
	// Build bodies for module packages and for the dependencies whose bodies matter to
	// summaries; everything else stays body-less (external).
	for _, pk := range p.Pkgs {
		sp := prog.Package(pk.Types)
		if sp == nil {
			undecided("no SSA package for %s", pk.PkgPath)
		}
		sp.Build()
		p.SPkg[pk.PkgPath] = sp
	}
	return p
}

// ---- anchors -------------------------------------------------------------------------

func (p *Prog) pkgPath(short string) string {
	if short == "" || short == "." {
		return p.ModPath
	}
	if strings.Contains(short, ".") && !strings.HasPrefix(short, p.ModPath) && p.ByPath[short] != nil {
		return short
	}
	if strings.HasPrefix(short, p.ModPath) {
		return short
	}
	if p.ByPath[short] != nil && p.ByPath[p.ModPath+"/"+short] == nil {
		return short
	}
	return p.ModPath + "/" + short
}

// Pkg returns a module package by its path relative to the module ("harfbuzz").
func (p *Prog) Pkg(short string) *packages.Package {
	pk := p.ByPath[p.pkgPath(short)]
	if pk == nil {
		undecided("anchor: package %q not found", short)
	}
	return pk
}

func (p *Prog) HasPkg(short string) bool { return p.ByPath[p.pkgPath(short)] != nil }

// Obj resolves a package-level object.
func (p *Prog) Obj(pkg, name string) types.Object {
	o := p.Pkg(pkg).Types.Scope().Lookup(name)
	if o == nil {
		undecided("anchor: %s.%s not found", pkg, name)
	}
	return o
}

func (p *Prog) TryObj(pkg, name string) types.Object {
	pk := p.ByPath[p.pkgPath(pkg)]
	if pk == nil {
		return nil
	}
	return pk.Types.Scope().Lookup(name)
}

// Named resolves a named type.
func (p *Prog) Named(pkg, name string) *types.Named {
	o := p.Obj(pkg, name)
	tn, ok := o.(*types.TypeName)
	if !ok {
		undecided("anchor: %s.%s is not a type", pkg, name)
	}
	n, ok := tn.Type().(*types.Named)
	if !ok {
		undecided("anchor: %s.%s is not a named type", pkg, name)
	}
	return n
}

// Field resolves a (possibly promoted through embedded structs — not followed here) direct field of a named struct.
func (p *Prog) Field(pkg, typ, field string) *types.Var {
	n := p.Named(pkg, typ)
	st, ok := n.Underlying().(*types.Struct)
	if !ok {
		undecided("anchor: %s.%s is not a struct", pkg, typ)
	}
	for i := 0; i < st.NumFields(); i++ {
		if st.Field(i).Name() == field {
			return st.Field(i)
		}
	}
	undecided("anchor: field %s.%s.%s not found", pkg, typ, field)
	return nil
}

func (p *Prog) TryField(pkg, typ, field string) *types.Var {
	o := p.TryObj(pkg, typ)
	if o == nil {
		return nil
	}
	st, ok := o.Type().Underlying().(*types.Struct)
	if !ok {
		return nil
	}
	for i := 0; i < st.NumFields(); i++ {
		if st.Field(i).Name() == field {
			return st.Field(i)
		}
	}
	return nil
}

// Func resolves a function or method: Func("harfbuzz", "Buffer", "Clear") or Func("shaping","", "cutRun").
func (p *Prog) Func(pkg, recv, name string) *ssa.Function {
	f := p.TryFunc(pkg, recv, name)
	if f == nil {
		if recv != "" {
			undecided("anchor: method %s.(%s).%s not found", pkg, recv, name)
		}
		undecided("anchor: function %s.%s not found", pkg, name)
	}
	return f
}

func (p *Prog) TryFunc(pkg, recv, name string) *ssa.Function {
	pk := p.ByPath[p.pkgPath(pkg)]
	if pk == nil {
		return nil
	}
	if recv == "" {
		o, _ := pk.Types.Scope().Lookup(name).(*types.Func)
		if o == nil {
			return nil
		}
		return p.SSA.FuncValue(o)
	}
	tn, _ := pk.Types.Scope().Lookup(recv).(*types.TypeName)
	if tn == nil {
		return nil
	}
	for _, T := range []types.Type{tn.Type(), types.NewPointer(tn.Type())} {
		ms := types.NewMethodSet(T)
		for i := 0; i < ms.Len(); i++ {
			sel := ms.At(i)
			if sel.Obj().Name() == name && len(sel.Index()) == 1 { // declared, not promoted
				return p.SSA.FuncValue(sel.Obj().(*types.Func))
			}
		}
	}
	return nil
}

// FuncDecl returns the syntax of a function.
func (p *Prog) FuncDecl(f *ssa.Function) *ast.FuncDecl {
	if fd, ok := f.Syntax().(*ast.FuncDecl); ok {
		return fd
	}
	return nil
}

// ---- functions & call graph ------------------------------------------------------------

func (p *Prog) inModule(pk *types.Package) bool {
	return pk != nil && (pk.Path() == p.ModPath || strings.HasPrefix(pk.Path(), p.ModPath+"/"))
}

func fnPkg(f *ssa.Function) *types.Package {
	if f.Pkg != nil {
		return f.Pkg.Pkg
	}
	if f.Object() != nil {
		return f.Object().Pkg()
	}
	if o := f.Origin(); o != nil && o != f {
		return fnPkg(o)
	}
	if f.Parent() != nil {
		return fnPkg(f.Parent())
	}
	return nil
}

// AllFns: every function of the program: ssautil.AllFunctions (linker-style reachability) plus every function and every
// method of every named type declared in a module package, reachable or not, with their anonymous functions.
func (p *Prog) AllFns() map[*ssa.Function]bool {
	if p.allFns == nil {
		p.allFns = ssautil.AllFunctions(p.SSA)
		var add func(f *ssa.Function)
		add = func(f *ssa.Function) {
			if f == nil || p.allFns[f] {
				return
			}
			p.allFns[f] = true
			for _, af := range f.AnonFuncs {
				add(af)
			}
		}
		for _, sp := range p.SPkg {
			for _, mem := range sp.Members {
				switch m := mem.(type) {
				case *ssa.Function:
					add(m)
				case *ssa.Type:
					for _, T := range []types.Type{m.Type(), types.NewPointer(m.Type())} {
						ms := p.SSA.MethodSets.MethodSet(T)
						for i := 0; i < ms.Len(); i++ {
							if fn := p.SSA.MethodValue(ms.At(i)); fn != nil {
								add(fn)
							}
						}
					}
				}
			}
		}
		// anonymous functions of already known functions
		for f := range p.allFns {
			for _, af := range f.AnonFuncs {
				add(af)
			}
		}
	}
	return p.allFns
}

// ModFns: every function with a body that belongs to a module package, sorted by name.
func (p *Prog) ModFns() []*ssa.Function {
	if p.modFns == nil {
		for f := range p.AllFns() {
			if f.Blocks == nil || f.Synthetic != "" && !strings.HasPrefix(f.Synthetic, "package init") && f.Syntax() == nil && f.Origin() == nil {
				continue
			}
			if p.inModule(fnPkg(f)) {
				p.modFns = append(p.modFns, f)
			}
		}
		sort.Slice(p.modFns, func(i, j int) bool {
			a, b := p.modFns[i], p.modFns[j]
			if a.String() != b.String() {
				return a.String() < b.String()
			}
			return a.Pos() < b.Pos()
		})
	}
	return p.modFns
}

// CG returns the VTA call graph (refined from CHA).
func (p *Prog) CG() *callgraph.Graph {
	if p.cg == nil {
		p.cg = vta.CallGraph(p.AllFns(), cha.CallGraph(p.SSA))
	}
	return p.cg
}

// Callees returns the module-relevant callees of a call instruction according to the call graph
// (static callee if there is one).
func (p *Prog) Callees(call ssa.CallInstruction) []*ssa.Function {
	if f := call.Common().StaticCallee(); f != nil {
		return []*ssa.Function{f}
	}
	if p.calleeIdx == nil {
		p.calleeIdx = map[ssa.CallInstruction][]*ssa.Function{}
		for _, n := range p.CG().Nodes {
			for _, e := range n.Out {
				if e.Site != nil {
					dup := false
					for _, g := range p.calleeIdx[e.Site] {
						if g == e.Callee.Func {
							dup = true
						}
					}
					if !dup {
						p.calleeIdx[e.Site] = append(p.calleeIdx[e.Site], e.Callee.Func)
					}
				}
			}
		}
		for k, out := range p.calleeIdx {
			sort.Slice(out, func(i, j int) bool { return out[i].String() < out[j].String() })
			p.calleeIdx[k] = out
		}
	}
	return p.calleeIdx[call]
}

// ---- positions -------------------------------------------------------------------------

func (p *Prog) Pos(pos token.Pos) string {
	if !pos.IsValid() {
		return "-"
	}
	ps := p.Fset.Position(pos)
	f := ps.Filename
	if strings.HasPrefix(f, p.Dir+"/") {
		f = f[len(p.Dir)+1:]
	}
	return fmt.Sprintf("%s:%d", f, ps.Line)
}

// instrPos finds a usable position for an instruction (go/ssa leaves many at NoPos).
func instrPos(in ssa.Instruction) token.Pos {
	if in.Pos().IsValid() {
		return in.Pos()
	}
	if v, ok := in.(ssa.Value); ok {
		_ = v
	}
	// fall back to nearest positioned instruction in the block, then function
	b := in.Block()
	if b != nil {
		idx := -1
		for i, x := range b.Instrs {
			if x == in {
				idx = i
				break
			}
		}
		for d := 1; d < len(b.Instrs); d++ {
			for _, j := range []int{idx - d, idx + d} {
				if j >= 0 && j < len(b.Instrs) && b.Instrs[j].Pos().IsValid() {
					return b.Instrs[j].Pos()
				}
			}
		}
	}
	if in.Parent() != nil {
		return in.Parent().Pos()
	}
	return token.NoPos
}

func (p *Prog) IPos(in ssa.Instruction) string { return p.Pos(instrPos(in)) }

// FnName gives a stable, readable name: pkg.(Recv).name with the module prefix removed.
func (p *Prog) FnName(f *ssa.Function) string {
	if f == nil {
		return "<nil>"
	}
	s := f.String()
	s = strings.ReplaceAll(s, p.ModPath+"/", "")
	s = strings.ReplaceAll(s, p.ModPath+".", "")
	return s
}

func (p *Prog) TypeName(t types.Type) string {
	return types.TypeString(t, func(pk *types.Package) string {
		s := pk.Path()
		s = strings.TrimPrefix(s, p.ModPath+"/")
		return s
	})
}

// deref strips one pointer.
func deref(t types.Type) types.Type {
	if pt, ok := t.Underlying().(*types.Pointer); ok {
		return pt.Elem()
	}
	return t
}

func namedOf(t types.Type) *types.Named {
	t = deref(t)
	if n, ok := t.(*types.Named); ok {
		return n
	}
	if a, ok := t.(*types.Alias); ok {
		return namedOf(types.Unalias(a))
	}
	return nil
}
