package main

import (
	"fmt"
	"go/constant"
	"go/token"
	"go/types"

	"golang.org/x/tools/go/ssa"
)

// rstamp.go — R-STAMP (C16): the time stamp that keys the reuse of a previous scan is the one of the file that will be
// opened. Every os.FileInfo that reaches the function building the stored/compared time stamp comes from a stat that
// follows symbolic links (os.Stat, (*os.File).Stat), or from one that does not (os.Lstat, fs.DirEntry.Info) only where
// the entry has been tested not to be a symbolic link: otherwise replacing or touching the target of a link leaves the
// stamp unchanged and the stale scan is reused for ever, whereas a scan from scratch sees the new file.

type stampOrigin struct {
	kind string // "follow", "nofollow", "external", "unknown"
	pos  string
	what string
	ok   bool
}

type stampTracer struct {
	p    *Prog
	seen map[ssa.Value]bool
	out  []stampOrigin
}

const modeSymlink = 1 << 27 // fs.ModeSymlink

// notSymlinkAt: the flow leaving block at (towards edgeTo when it leaves through a phi) is only taken when a test of
// <mode> & fs.ModeSymlink found it clear.
func notSymlinkAt(at, edgeTo *ssa.BasicBlock) bool {
	f := at.Parent()
	for _, b := range f.Blocks {
		if len(b.Instrs) == 0 {
			continue
		}
		iff, ok := b.Instrs[len(b.Instrs)-1].(*ssa.If)
		if !ok {
			continue
		}
		cmp, ok := iff.Cond.(*ssa.BinOp)
		if !ok || (cmp.Op != token.NEQ && cmp.Op != token.EQL) {
			continue
		}
		isMask := func(v ssa.Value) bool {
			a, ok := v.(*ssa.BinOp)
			if !ok || a.Op != token.AND {
				return false
			}
			for _, o := range []ssa.Value{a.X, a.Y} {
				if c, ok := o.(*ssa.Const); ok && c.Value != nil && c.Value.Kind() == constant.Int {
					if k, exact := constant.Uint64Val(c.Value); exact && k == modeSymlink {
						return true
					}
				}
			}
			return false
		}
		isZero := func(v ssa.Value) bool {
			c, ok := v.(*ssa.Const)
			if !ok || c.Value == nil || c.Value.Kind() != constant.Int {
				return false
			}
			k, exact := constant.Uint64Val(c.Value)
			return exact && k == 0
		}
		if !(isMask(cmp.X) && isZero(cmp.Y) || isMask(cmp.Y) && isZero(cmp.X)) {
			continue
		}
		clear := b.Succs[1] // mask != 0 is false
		if cmp.Op == token.EQL {
			clear = b.Succs[0]
		}
		if len(clear.Preds) == 1 && clear.Dominates(at) {
			return true
		}
		if b == at && edgeTo != nil && clear == edgeTo {
			return true
		}
	}
	return false
}

func (t *stampTracer) add(kind string, in ssa.Value, what string, ok bool) {
	pos := ""
	if i, isI := in.(ssa.Instruction); isI {
		pos = t.p.IPos(i)
	}
	t.out = append(t.out, stampOrigin{kind, pos, what, ok})
}

func (t *stampTracer) trace(v ssa.Value, at, edgeTo *ssa.BasicBlock) {
	if t.seen[v] {
		return
	}
	t.seen[v] = true
	switch x := v.(type) {
	case *ssa.Extract:
		t.trace(x.Tuple, at, edgeTo)
	case *ssa.MakeInterface:
		t.trace(x.X, at, edgeTo)
	case *ssa.ChangeInterface:
		t.trace(x.X, at, edgeTo)
	case *ssa.TypeAssert:
		t.trace(x.X, at, edgeTo)
	case *ssa.Phi:
		for i, e := range x.Edges {
			t.trace(e, x.Block().Preds[i], x.Block())
		}
	case *ssa.Call:
		name := ""
		if x.Call.IsInvoke() {
			name = "(" + t.p.TypeName(x.Call.Value.Type()) + ")." + x.Call.Method.Name()
		} else if sc := x.Call.StaticCallee(); sc != nil {
			name = sc.String()
		}
		switch name {
		case "os.Stat", "(*os.File).Stat":
			t.add("follow", x, name, true)
		case "os.Lstat", "(io/fs.DirEntry).Info", "(os.DirEntry).Info":
			ok := notSymlinkAt(at, edgeTo)
			t.add("nofollow", x, name, ok)
		default:
			if sc := x.Call.StaticCallee(); sc != nil && t.p.inModule(fnPkg(sc)) && sc.Blocks != nil {
				// a helper of the module: its results
				n := 0
				for _, b := range sc.Blocks {
					if ret, ok := b.Instrs[len(b.Instrs)-1].(*ssa.Return); ok && len(ret.Results) > 0 {
						for _, rv := range ret.Results {
							if types.Identical(rv.Type(), x.Type()) || isFileInfo(rv.Type()) {
								t.trace(rv, b, nil)
								n++
							}
						}
					}
				}
				if n == 0 {
					t.add("unknown", x, "result of "+name, false)
				}
				return
			}
			t.add("unknown", x, "result of "+name, false)
		}
	case *ssa.Parameter:
		f := x.Parent()
		idx := -1
		for i, q := range f.Params {
			if q == x {
				idx = i
			}
		}
		node := t.p.CG().Nodes[f]
		n := 0
		if node != nil {
			for _, e := range node.In {
				if e.Site == nil || !t.p.inModule(fnPkg(e.Caller.Func)) {
					continue
				}
				args := e.Site.Common().Args
				if e.Site.Common().IsInvoke() {
					// receiver is not in Args
					if idx-1 >= 0 && idx-1 < len(args) {
						n++
						t.trace(args[idx-1], e.Site.Block(), nil)
					}
					continue
				}
				if idx < len(args) {
					n++
					t.trace(args[idx], e.Site.Block(), nil)
				}
			}
		}
		if n == 0 {
			t.add("external", x, "parameter "+x.Name()+" of "+t.p.FnName(f)+" (supplied by the caller of the module)", true)
		}
	case *ssa.UnOp:
		if al, ok := x.X.(*ssa.Alloc); ok && x.Op == token.MUL && al.Referrers() != nil {
			n := 0
			for _, u := range *al.Referrers() {
				if st, ok := u.(*ssa.Store); ok && st.Addr == ssa.Value(al) {
					n++
					t.trace(st.Val, st.Block(), nil)
				}
			}
			if n > 0 {
				return
			}
		}
		t.add("unknown", x, x.String(), false)
	default:
		t.add("unknown", v, v.String(), false)
	}
}

func isFileInfo(t types.Type) bool {
	n, ok := t.(*types.Named)
	return ok && n.Obj().Name() == "FileInfo"
}

// ruleStamp: stampPkg.stampFn is the function that turns an os.FileInfo into the stored time stamp.
func ruleStamp(p *Prog, r *Report, stampPkg, stampFn string, floor int) {
	const rule = "R-STAMP"
	f := p.Func(stampPkg, "", stampFn)
	if len(f.Params) != 1 {
		undecided("R-STAMP: %s no longer takes the file information as its only parameter", stampFn)
	}
	t := &stampTracer{p: p, seen: map[ssa.Value]bool{}}
	t.trace(f.Params[0], f.Blocks[0], nil)
	n := 0
	for _, o := range t.out {
		n++
		key := stampFn + "/" + o.what
		r.Instance(rule, key)
		switch o.kind {
		case "follow":
			r.Check(true, rule, key, o.pos, "the file information comes from a stat that follows symbolic links")
		case "external":
			r.Check(true, rule, key, o.pos, "supplied from outside the module")
		case "nofollow":
			r.Check(o.ok, rule, key, o.pos, "the file information comes from a stat that does NOT follow symbolic links"+map[bool]string{true: ", on a path where the entry was tested not to be a link", false: " and the entry may be a link: the stamp is the one of the link, so touching or replacing its target never invalidates the previous scan"}[o.ok])
		default:
			r.Check(false, rule, key, o.pos, "the origin of the file information is not a recognised stat: "+o.what)
		}
	}
	r.Floor(rule, n, floor)
}

// ruleDrain — R-DRAIN (C16): a function that reads the index through a gzip reader returns success only after the stream has
// been read to its end (io.Copy / io.ReadAll on that reader, its error tested): the CRC-32 and length of the gzip trailer are
// verified only when the end is reached, so a reader that stops after the last entry accepts a corrupted cache whenever its
// entries still decode.
func ruleDrain(p *Prog, r *Report, pkg string, floor int) {
	const rule = "R-DRAIN"
	n := 0
	for _, f := range p.ModFns() {
		if fnPkg(f) == nil || fnPkg(f).Path() != p.pkgPath(pkg) {
			continue
		}
		var readers []ssa.Value
		for _, b := range f.Blocks {
			for _, in := range b.Instrs {
				if c, ok := in.(*ssa.Call); ok {
					if sc := c.Common().StaticCallee(); sc != nil && sc.String() == "compress/gzip.NewReader" {
						readers = append(readers, c)
					}
				}
			}
		}
		if len(readers) == 0 {
			continue
		}
		fromReader := func(v ssa.Value) bool {
			return derivesFrom(v, func(x ssa.Value) bool {
				if mi, ok := x.(*ssa.MakeInterface); ok {
					x = mi.X
				}
				if ex, ok := x.(*ssa.Extract); ok {
					for _, rd := range readers {
						if ex.Tuple == rd {
							return true
						}
					}
				}
				return false
			}, 0)
		}
		// unwrap MakeInterface before derivesFrom (it does not look through it)
		isDrain := func(in ssa.Instruction) bool {
			c, ok := in.(*ssa.Call)
			if !ok {
				return false
			}
			sc := c.Common().StaticCallee()
			if sc == nil {
				return false
			}
			src := -1
			switch sc.String() {
			case "io.Copy":
				src = 1
			case "io.ReadAll":
				src = 0
			}
			if src < 0 || src >= len(c.Common().Args) {
				return false
			}
			a := c.Common().Args[src]
			if mi, ok := a.(*ssa.MakeInterface); ok {
				a = mi.X
			}
			if !fromReader(a) {
				return false
			}
			// its error is looked at
			if c.Referrers() == nil {
				return false
			}
			for _, u := range *c.Referrers() {
				if ex, ok := u.(*ssa.Extract); ok && ex.Index == 1 && ex.Referrers() != nil && len(*ex.Referrers()) > 0 {
					return true
				}
			}
			return false
		}
		for _, b := range f.Blocks {
			ret, ok := b.Instrs[len(b.Instrs)-1].(*ssa.Return)
			if !ok || len(ret.Results) == 0 {
				continue
			}
			if !returnsNilError(ret) {
				continue
			}
			n++
			key := p.FnName(f) + "/success"
			r.Instance(rule, key)
			ok2, path := mustPrecede(p, f, ret, isDrain, nil)
			r.Check(ok2, rule, key, p.IPos(ret), "success is returned only after the compressed stream was read to its end with the error tested (the gzip checksum is verified at the end of the stream)", path...)
		}
	}
	r.Floor(rule, n, floor)
}

// returnsNilError: the last result of ret is the nil constant, directly or through the result variable that functions
// with a defer spill their results to (the last store to it in the block of the return).
func returnsNilError(ret *ssa.Return) bool {
	last := ret.Results[len(ret.Results)-1]
	if c, ok := last.(*ssa.Const); ok {
		return c.IsNil()
	}
	u, ok := last.(*ssa.UnOp)
	if !ok || u.Op != token.MUL {
		return false
	}
	al, ok := u.X.(*ssa.Alloc)
	if !ok {
		return false
	}
	instrs := ret.Block().Instrs
	for i := len(instrs) - 1; i >= 0; i-- {
		if st, ok := instrs[i].(*ssa.Store); ok && st.Addr == ssa.Value(al) {
			c, ok := st.Val.(*ssa.Const)
			return ok && c.IsNil()
		}
	}
	return false
}

// ruleStampIdentity — R-STAMP/eq: a time stamp is the identity of a version of a file, not a date: values of the stamp
// type are compared for equality only. An ordering (`<=`: "not newer than what was scanned") keeps the footprint of a file
// replaced by an older one — a restored backup, a package downgrade, a copy that preserves times.
func ruleStampIdentity(p *Prog, r *Report, pkg, typ string, floor int) {
	const rule = "R-STAMP/eq"
	T := p.Named(pkg, typ)
	n := 0
	bad := ""
	for _, f := range p.ModFns() {
		if fnPkg(f) == nil || fnPkg(f).Path() != p.pkgPath(pkg) {
			continue
		}
		for _, b := range f.Blocks {
			for _, in := range b.Instrs {
				bo, ok := in.(*ssa.BinOp)
				if !ok || namedOf(bo.X.Type()) != T || namedOf(bo.Y.Type()) != T {
					continue
				}
				switch bo.Op {
				case token.EQL, token.NEQ:
					n++
				case token.LSS, token.LEQ, token.GTR, token.GEQ:
					n++
					bad = p.IPos(bo)
				}
			}
		}
	}
	key := pkg + "." + typ
	r.Instance(rule, key)
	r.Check(bad == "", rule, key, "-", fmt.Sprintf("the %d comparisons between two values of %s are equalities", n, typ)+pref(bad))
	r.Floor(rule, n, floor)
}

// ruleTruncOnWrite — R-TRUNC: a file of the package that is opened for writing without appending is truncated: os.Create,
// or os.OpenFile whose constant flags hold O_TRUNC (or O_APPEND / O_EXCL). Otherwise a shorter new content keeps the tail
// of the old one, and the index that was just written cannot be read back.
func ruleTruncOnWrite(p *Prog, r *Report, pkg string, floor int) {
	const rule = "R-TRUNC"
	n := 0
	for _, f := range p.ModFns() {
		if fnPkg(f) == nil || fnPkg(f).Path() != p.pkgPath(pkg) {
			continue
		}
		for _, b := range f.Blocks {
			for _, in := range b.Instrs {
				call, ok := in.(*ssa.Call)
				if !ok || call.Common().StaticCallee() == nil {
					continue
				}
				switch call.Common().StaticCallee().String() {
				case "os.Create":
					n++
					key := p.FnName(f) + "/os.Create"
					r.Instance(rule, key)
					r.OK(rule, key, p.IPos(call), "os.Create truncates")
				case "os.OpenFile":
					n++
					key := p.FnName(f) + "/os.OpenFile"
					r.Instance(rule, key)
					k, isConst := call.Common().Args[1].(*ssa.Const)
					if !isConst {
						r.Bad(rule, key, p.IPos(call), "the flags of os.OpenFile are not constant: truncation cannot be decided")
						continue
					}
					fl, _ := intConst(k)
					const (
						oWRONLY, oRDWR, oAPPEND, oCREATE, oEXCL, oTRUNC = 0x1, 0x2, 0x400, 0x40, 0x80, 0x200 // linux values of package os
					)
					writes := fl&(oWRONLY|oRDWR) != 0
					r.Check(!writes || fl&(oTRUNC|oAPPEND|oEXCL) != 0, rule, key, p.IPos(call), "a file opened for writing is truncated (or appended to, or must not exist)")
				}
			}
		}
	}
	r.Floor(rule, n, floor)
}
