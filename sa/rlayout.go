package main

// rlayout.go — R-LAYOUT: the writer and the reader of each record of the font index agree on the layout.
//
// The cache format of fontscan is written by a family of serialize* functions and read back by their deserialize*
// siblings. Round-trip equality is behaviour; but one necessary condition is visible in the shape of the code: both
// siblings go through the SAME sequence of layout items — fixed-width integers (binary.BigEndian.PutUintN / UintN), single
// bytes, raw byte runs and nested records (calls of another writer / of its sibling reader) — with the same widths, the
// same constant offsets and strides, the same loop nesting and, where both sides name one, the same struct field.
// The rule abstracts each function of a frozen pair table to that sequence (from the type-checked syntax tree: callees
// are resolved through go/types, offsets are constant-folded through named constants) and compares the two sequences.
// It does not decide values (clamping, NaN, lengths), nor the running offset arithmetic of the readers (that is R-GEN).

import (
	"fmt"
	"go/ast"
	"go/constant"
	"go/token"
	"go/types"
	"sort"
	"strings"

	"golang.org/x/tools/go/packages"
	"golang.org/x/tools/go/types/typeutil"
)

type layoutPair struct{ writer, reader string } // "Recv.name" or "name"

type layItem struct {
	kind   string // "u16", "u32", "u64", "byte", "raw", "rec:<pair>"
	off    string // normalised offset ("" when the side has none, "?" when not linear)
	depth  int
	path   string // struct field path ("" when the side names none)
	pos    token.Pos
	hasOff bool
}

type layFn struct {
	pk       *packages.Package
	decl     *ast.FuncDecl
	writer   bool
	roots    map[types.Object]bool   // receiver and parameters
	rng      map[types.Object]string // range value variable -> path of the ranged expression + "[]"
	base     map[types.Object]ast.Expr
	captured map[types.Object]token.Pos // n := len(buf): where a position of the output was captured
	pairOf   map[*types.Func]string
	items    []layItem
}

func fnKey(fd *ast.FuncDecl) string {
	if fd.Recv != nil && len(fd.Recv.List) == 1 {
		t := fd.Recv.List[0].Type
		if st, ok := t.(*ast.StarExpr); ok {
			t = st.X
		}
		if id, ok := t.(*ast.Ident); ok {
			return id.Name + "." + fd.Name.Name
		}
	}
	return fd.Name.Name
}

func isByteSeq(t types.Type) bool {
	switch u := t.Underlying().(type) {
	case *types.Slice:
		b, ok := u.Elem().Underlying().(*types.Basic)
		return ok && b.Kind() == types.Uint8
	case *types.Array:
		b, ok := u.Elem().Underlying().(*types.Basic)
		return ok && b.Kind() == types.Uint8
	case *types.Pointer:
		return isByteSeq(u.Elem())
	}
	return false
}

// linear evaluation of an index expression: constant + sum of coefficient*identifier
type linExpr struct {
	k  int64
	c  map[types.Object]int64
	ok bool
}

func (lf *layFn) eval(e ast.Expr) linExpr {
	info := lf.pk.TypesInfo
	if tv, ok := info.Types[e]; ok && tv.Value != nil && tv.Value.Kind() == constant.Int {
		v, exact := constant.Int64Val(tv.Value)
		return linExpr{k: v, c: map[types.Object]int64{}, ok: exact}
	}
	switch x := e.(type) {
	case *ast.ParenExpr:
		return lf.eval(x.X)
	case *ast.Ident:
		if o := info.Uses[x]; o != nil {
			return linExpr{c: map[types.Object]int64{o: 1}, ok: true}
		}
	case *ast.CallExpr: // integer conversions
		if len(x.Args) == 1 {
			if tv, ok := info.Types[x.Fun]; ok && tv.IsType() {
				return lf.eval(x.Args[0])
			}
		}
	case *ast.BinaryExpr:
		a, b := lf.eval(x.X), lf.eval(x.Y)
		if !a.ok || !b.ok {
			return linExpr{}
		}
		out := linExpr{c: map[types.Object]int64{}, ok: true}
		switch x.Op {
		case token.ADD, token.SUB:
			s := int64(1)
			if x.Op == token.SUB {
				s = -1
			}
			out.k = a.k + s*b.k
			for o, v := range a.c {
				out.c[o] += v
			}
			for o, v := range b.c {
				out.c[o] += s * v
			}
			return out
		case token.MUL:
			if len(a.c) == 0 {
				a, b = b, a
			}
			if len(b.c) != 0 {
				return linExpr{}
			}
			out.k = a.k * b.k
			for o, v := range a.c {
				out.c[o] = v * b.k
			}
			return out
		}
	}
	return linExpr{}
}

// offsetOf: the offset at which a byte-sequence expression starts, relative to the buffer it is cut from: constant part
// and strides (coefficients other than 1; a coefficient 1 is a running position, which the two sides express differently).
func (lf *layFn) offsetOf(e ast.Expr, depth int) (string, bool) {
	if depth > 6 {
		return "?", true
	}
	info := lf.pk.TypesInfo
	total := linExpr{c: map[types.Object]int64{}, ok: true}
	add := func(l linExpr) {
		if !l.ok {
			total.ok = false
			return
		}
		total.k += l.k
		for o, v := range l.c {
			total.c[o] += v
		}
	}
	cur := e
	for i := 0; i < 8; i++ {
		switch x := cur.(type) {
		case *ast.ParenExpr:
			cur = x.X
			continue
		case *ast.SliceExpr:
			if x.Low != nil {
				add(lf.eval(x.Low))
			}
			cur = x.X
			continue
		case *ast.IndexExpr:
			add(lf.eval(x.Index))
			cur = x.X
			continue
		case *ast.Ident:
			if o := info.Uses[x]; o != nil {
				if b, ok := lf.base[o]; ok {
					cur = b
					continue
				}
			}
		case *ast.CallExpr: // buffer.Bytes() and the like: a fresh view
		}
		break
	}
	tv, ok := info.Types[e]
	if !ok || !isByteSeq(tv.Type) {
		if _, isIdx := e.(*ast.IndexExpr); !isIdx {
			return "", false
		}
	}
	if !total.ok {
		return "?", true
	}
	var strides []int64
	for _, v := range total.c {
		if v != 1 && v != 0 {
			strides = append(strides, v)
		}
	}
	sort.Slice(strides, func(i, j int) bool { return strides[i] < strides[j] })
	s := fmt.Sprintf("%d", total.k)
	for _, v := range strides {
		s += fmt.Sprintf("+%d*i", v)
	}
	return s, true
}

// pathOf: the struct field path an expression denotes, relative to the record (receiver, parameter or local) it starts
// from; "" when it is not a field of the record.
func (lf *layFn) pathOf(e ast.Expr, depth int) string {
	if depth > 8 {
		return ""
	}
	info := lf.pk.TypesInfo
	switch x := e.(type) {
	case *ast.ParenExpr:
		return lf.pathOf(x.X, depth+1)
	case *ast.UnaryExpr:
		if x.Op == token.AND {
			return lf.pathOf(x.X, depth+1)
		}
	case *ast.StarExpr:
		return lf.pathOf(x.X, depth+1)
	case *ast.CallExpr:
		if len(x.Args) == 1 {
			if tv, ok := info.Types[x.Fun]; ok && tv.IsType() { // conversion
				return lf.pathOf(x.Args[0], depth+1)
			}
			if f, ok := typeutil.Callee(info, x).(*types.Func); ok && f.Pkg() != nil && f.Pkg().Path() == "math" {
				return lf.pathOf(x.Args[0], depth+1) // math.Float32bits, math.Float32frombits
			}
			if id, ok := x.Fun.(*ast.Ident); ok && id.Name == "len" {
				if _, isB := info.Uses[id].(*types.Builtin); isB {
					return "len(" + lf.pathOf(x.Args[0], depth+1) + ")"
				}
			}
		}
	case *ast.SelectorExpr:
		if sel := info.Selections[x]; sel != nil && sel.Kind() == types.FieldVal {
			p := lf.pathOf(x.X, depth+1)
			if p == "" || p == "." {
				return "." + x.Sel.Name
			}
			return p + "." + x.Sel.Name
		}
	case *ast.IndexExpr:
		p := lf.pathOf(x.X, depth+1)
		if p == "" {
			p = "."
		}
		return p + "[]"
	case *ast.Ident:
		o := info.Uses[x]
		if o == nil {
			o = info.Defs[x]
		}
		if o != nil {
			if p, ok := lf.rng[o]; ok {
				return p
			}
			if _, isVar := o.(*types.Var); isVar {
				return "." // the record itself (receiver, parameter or local under construction)
			}
		}
	}
	return ""
}

func normPath(p string) string {
	p = strings.TrimPrefix(p, ".")
	p = strings.ReplaceAll(p, ".[]", "[]")
	return p
}

func (lf *layFn) collect() {
	info := lf.pk.TypesInfo
	// range variables and derived bases
	ast.Inspect(lf.decl.Body, func(n ast.Node) bool {
		switch x := n.(type) {
		case *ast.RangeStmt:
			if id, ok := x.Value.(*ast.Ident); ok && id.Name != "_" {
				if o := info.Defs[id]; o != nil {
					p := lf.pathOf(x.X, 0)
					if p == "" {
						p = "."
					}
					lf.rng[o] = p + "[]"
				}
			}
		case *ast.AssignStmt:
			if x.Tok == token.DEFINE && len(x.Lhs) == 1 && len(x.Rhs) == 1 {
				if id, ok := x.Lhs[0].(*ast.Ident); ok {
					if c, ok := x.Rhs[0].(*ast.CallExpr); ok && len(c.Args) == 1 {
						if f, ok := c.Fun.(*ast.Ident); ok && f.Name == "len" {
							if tv, ok := info.Types[c.Args[0]]; ok && isByteSeq(tv.Type) {
								if o := info.Defs[id]; o != nil {
									lf.captured[o] = x.Pos()
								}
							}
						}
					}
					if se, ok := x.Rhs[0].(*ast.SliceExpr); ok {
						if tv, ok := info.Types[se]; ok && isByteSeq(tv.Type) {
							if o := info.Defs[id]; o != nil {
								lf.base[o] = se
							}
						}
					}
					// a local standing for an element or a field of the record: `page := &v[i]`, `page := rs[i]`,
					// `loc := &fp.Location`
					rhs := x.Rhs[0]
					if u, ok := rhs.(*ast.UnaryExpr); ok && u.Op == token.AND {
						rhs = u.X
					}
					switch rhs.(type) {
					case *ast.IndexExpr, *ast.SelectorExpr:
						if tv, ok := info.Types[rhs]; ok && !isByteSeq(tv.Type) {
							if _, isBasic := tv.Type.Underlying().(*types.Basic); !isBasic {
								if o := info.Defs[id]; o != nil {
									if p := lf.pathOf(rhs, 0); p != "" && p != "." {
										lf.rng[o] = p
									}
								}
							}
						}
					}
				}
			}
		}
		return true
	})
	// walk with loop depth and the enclosing assignment
	var walk func(n ast.Node, depth int, lhs []ast.Expr)
	record := func(it layItem) { lf.items = append(lf.items, it) }
	seenByte := map[string]bool{}
	walk = func(n ast.Node, depth int, lhs []ast.Expr) {
		switch x := n.(type) {
		case nil:
			return
		case *ast.ForStmt:
			walk(x.Init, depth, nil)
			walk(x.Cond, depth, nil)
			walk(x.Post, depth, nil)
			walk(x.Body, depth+1, nil)
			return
		case *ast.RangeStmt:
			walk(x.X, depth, nil)
			walk(x.Body, depth+1, nil)
			return
		case *ast.AssignStmt:
			// a byte stored into the buffer
			for i, l := range x.Lhs {
				if ix, ok := l.(*ast.IndexExpr); ok {
					if tv, ok := info.Types[ix.X]; ok && isByteSeq(tv.Type) && lf.writer {
						off, _ := lf.offsetOf(ix, 0)
						p := ""
						if i < len(x.Rhs) {
							p = lf.pathOf(x.Rhs[i], 0)
						}
						record(layItem{kind: "byte", off: off, hasOff: true, depth: depth, path: normPath(p), pos: ix.Pos()})
					}
				}
			}
			for _, r := range x.Rhs {
				walk(r, depth, x.Lhs)
			}
			for _, l := range x.Lhs {
				if ix, ok := l.(*ast.IndexExpr); ok {
					walk(ix.Index, depth, nil)
				}
			}
			return
		case *ast.IndexExpr:
			// a byte read from the input
			if tv, ok := info.Types[x.X]; ok && isByteSeq(tv.Type) && !lf.writer {
				off, _ := lf.offsetOf(x, 0)
				if !seenByte[off] {
					seenByte[off] = true
					p := ""
					if len(lhs) == 1 {
						p = lf.pathOf(lhs[0], 0)
					}
					record(layItem{kind: "byte", off: off, hasOff: true, depth: depth, path: normPath(p), pos: x.Pos()})
				}
			}
		case *ast.CallExpr:
			callee, _ := typeutil.Callee(info, x).(*types.Func)
			if callee != nil {
				full := callee.FullName()
				if strings.HasPrefix(full, "(encoding/binary.bigEndian).") || strings.HasPrefix(full, "(encoding/binary.littleEndian).") {
					name := callee.Name()
					bits := strings.TrimPrefix(strings.TrimPrefix(name, "Put"), "Uint")
					if strings.HasPrefix(name, "PutUint") && len(x.Args) == 2 {
						off, has := lf.offsetOf(x.Args[0], 0)
						pos := x.Pos()
						// back-patching: buf[n:] with n := len(buf) captured earlier — the item sits where n was captured
						if se, ok := x.Args[0].(*ast.SliceExpr); ok {
							if id, ok := se.Low.(*ast.Ident); ok {
								if at, ok := lf.captured[info.Uses[id]]; ok {
									pos = at
								}
							}
						}
						record(layItem{kind: "u" + bits, off: off, hasOff: has, depth: depth, path: normPath(lf.pathOf(x.Args[1], 0)), pos: pos})
					} else if strings.HasPrefix(name, "Uint") && len(x.Args) == 1 {
						off, has := lf.offsetOf(x.Args[0], 0)
						p := ""
						if len(lhs) == 1 {
							p = lf.pathOf(lhs[0], 0)
						}
						record(layItem{kind: "u" + bits, off: off, hasOff: has, depth: depth, path: normPath(p), pos: x.Pos()})
					}
				} else if pair, ok := lf.pairOf[callee]; ok {
					it := layItem{kind: "rec:" + pair, depth: depth, pos: x.Pos()}
					for _, a := range x.Args {
						if tv, ok := info.Types[a]; ok && isByteSeq(tv.Type) {
							if _, isId := a.(*ast.Ident); !isId || !lf.writer {
								it.off, it.hasOff = lf.offsetOf(a, 0)
							}
						}
					}
					// the field the nested record is: receiver, &field argument, field argument, or assigned field
					p := ""
					if se, ok := x.Fun.(*ast.SelectorExpr); ok {
						if sel := info.Selections[se]; sel != nil {
							p = lf.pathOf(se.X, 0)
						}
					}
					if normPath(p) == "" {
						for _, a := range x.Args {
							if tv, ok := info.Types[a]; ok && isByteSeq(tv.Type) {
								continue
							}
							if q := lf.pathOf(a, 0); normPath(q) != "" {
								p = q
								break
							}
						}
					}
					if normPath(p) == "" && len(lhs) >= 1 {
						p = lf.pathOf(lhs[0], 0)
					}
					it.path = normPath(p)
					record(it)
				}
			}
			// raw byte runs: copy(buf[k:], s) when writing, string(data[a:b]) when reading
			if id, ok := x.Fun.(*ast.Ident); ok && id.Name == "copy" && lf.writer && len(x.Args) == 2 {
				if _, isB := info.Uses[id].(*types.Builtin); isB {
					off, has := lf.offsetOf(x.Args[0], 0)
					record(layItem{kind: "raw", off: off, hasOff: has, depth: depth, path: normPath(lf.pathOf(x.Args[1], 0)), pos: x.Pos()})
				}
			}
			if tv, ok := info.Types[x.Fun]; ok && tv.IsType() && !lf.writer && len(x.Args) == 1 {
				if b, ok := tv.Type.Underlying().(*types.Basic); ok && b.Kind() == types.String {
					if se, ok := x.Args[0].(*ast.SliceExpr); ok {
						off, has := lf.offsetOf(se, 0)
						p := ""
						if len(lhs) == 1 {
							p = lf.pathOf(lhs[0], 0)
						}
						record(layItem{kind: "raw", off: off, hasOff: has, depth: depth, path: normPath(p), pos: x.Pos()})
					}
				}
			}
			for _, a := range x.Args {
				walk(a, depth, lhs)
			}
			walk(x.Fun, depth, nil)
			return
		}
		// generic traversal of the children, in source order
		var kids []ast.Node
		ast.Inspect(n, func(c ast.Node) bool {
			if c == n {
				return true
			}
			if c != nil {
				kids = append(kids, c)
			}
			return false
		})
		for _, k := range kids {
			walk(k, depth, lhs)
		}
	}
	walk(lf.decl.Body, 0, nil)
	sort.SliceStable(lf.items, func(i, j int) bool { return lf.items[i].pos < lf.items[j].pos })
}

func (it layItem) String() string {
	s := it.kind
	if it.hasOff {
		s += "@" + it.off
	}
	if it.depth > 0 {
		s += fmt.Sprintf(" loop%d", it.depth)
	}
	if it.path != "" {
		s += " <" + it.path + ">"
	}
	return s
}

// ruleLayout compares the item sequences of each pair. wrappers: codec-named functions that only move whole files.
func ruleLayout(p *Prog, r *Report, pkg string, pairs []layoutPair, wrappers []string, floor int) {
	const rule = "R-LAYOUT"
	pk := p.Pkg(pkg)
	decls := map[string]*ast.FuncDecl{}
	for _, f := range pk.Syntax {
		if strings.HasSuffix(p.Fset.Position(f.Pos()).Filename, "_test.go") {
			continue
		}
		for _, d := range f.Decls {
			if fd, ok := d.(*ast.FuncDecl); ok && fd.Body != nil {
				decls[fnKey(fd)] = fd
			}
		}
	}
	role := map[string]string{}
	pairOf := map[*types.Func]string{}
	for _, pr := range pairs {
		for i, k := range []string{pr.writer, pr.reader} {
			fd := decls[k]
			if fd == nil {
				undecided("R-LAYOUT: the function %s of the pair table is gone from %s", k, pkg)
			}
			role[k] = []string{"w", "r"}[i]
			if fo, ok := pk.TypesInfo.Defs[fd.Name].(*types.Func); ok {
				pairOf[fo] = pr.writer
			}
		}
	}
	wrap := map[string]bool{}
	for _, w := range wrappers {
		wrap[w] = true
	}
	// completeness: every codec-named function is in the table, or is paired with its sibling by the naming convention
	// (serializeX[To] <-> deserializeX[From], same receiver): a helper extracted from a codec must not make the run undecided
	var names []string
	for k := range decls {
		names = append(names, k)
	}
	sort.Strings(names)
	baseOf := func(k string) (base string, writer bool) {
		recv, name := "", k
		if i := strings.Index(k, "."); i >= 0 {
			recv, name = k[:i+1], k[i+1:]
		}
		l := strings.ToLower(name)
		writer = !strings.Contains(l, "deserialize")
		l = strings.Replace(l, "deserialize", "", 1)
		l = strings.Replace(l, "serialize", "", 1)
		l = strings.TrimSuffix(strings.TrimSuffix(l, "from"), "to")
		return strings.ToLower(recv) + l, writer
	}
	extra := map[string][2]string{}
	for _, k := range names {
		if strings.Contains(strings.ToLower(k), "serialize") && role[k] == "" && !wrap[k] {
			b, w := baseOf(k)
			e := extra[b]
			if w {
				e[0] = k
			} else {
				e[1] = k
			}
			extra[b] = e
		}
	}
	var bases []string
	for b := range extra {
		bases = append(bases, b)
	}
	sort.Strings(bases)
	for _, b := range bases {
		e := extra[b]
		if e[0] == "" || e[1] == "" {
			undecided("R-LAYOUT: %s.%s%s looks like a codec of the font index but has no sibling (neither in the pair table of sa/c16.go nor by the naming convention): its layout cannot be compared", pkg, e[0], e[1])
		}
		pairs = append(pairs, layoutPair{e[0], e[1]})
		for i, k := range []string{e[0], e[1]} {
			role[k] = []string{"w", "r"}[i]
			if fo, ok := pk.TypesInfo.Defs[decls[k].Name].(*types.Func); ok {
				pairOf[fo] = e[0]
			}
		}
	}
	n := 0
	for _, pr := range pairs {
		mk := func(k string, writer bool) *layFn {
			lf := &layFn{pk: pk, decl: decls[k], writer: writer, rng: map[types.Object]string{}, base: map[types.Object]ast.Expr{}, captured: map[types.Object]token.Pos{}, pairOf: pairOf}
			lf.collect()
			return lf
		}
		w, rd := mk(pr.writer, true), mk(pr.reader, false)
		n++
		key := pkg + "." + pr.writer + " <-> " + pr.reader
		r.Instance(rule, key)
		ws, rs := []string{}, []string{}
		for _, it := range w.items {
			ws = append(ws, it.String())
		}
		for _, it := range rd.items {
			rs = append(rs, it.String())
		}
		detail := fmt.Sprintf("writer [%s] / reader [%s]", strings.Join(ws, "; "), strings.Join(rs, "; "))
		if len(w.items) == 0 || len(rd.items) == 0 {
			undecided("R-LAYOUT: no layout item was recognised in %s (%d) or %s (%d): the idiom of the codec changed", pr.writer, len(w.items), pr.reader, len(rd.items))
		}
		bad := ""
		pos := p.Pos(decls[pr.reader].Pos())
		if len(w.items) != len(rd.items) {
			bad = fmt.Sprintf("the writer emits %d items, the reader consumes %d", len(w.items), len(rd.items))
		} else {
			for i := range w.items {
				a, b := w.items[i], rd.items[i]
				switch {
				case a.kind != b.kind:
					bad = fmt.Sprintf("item %d: the writer emits %s, the reader consumes %s", i+1, a.kind, b.kind)
				case a.depth != b.depth:
					bad = fmt.Sprintf("item %d (%s): loop nesting %d in the writer, %d in the reader", i+1, a.kind, a.depth, b.depth)
				case a.hasOff && b.hasOff && a.off != b.off:
					bad = fmt.Sprintf("item %d (%s): written at offset %s, read at offset %s", i+1, a.kind, a.off, b.off)
				case a.path != "" && b.path != "" && !strings.HasPrefix(a.path, "len(") && !strings.HasPrefix(b.path, "len(") && a.path != b.path:
					bad = fmt.Sprintf("item %d (%s): the writer takes it from field %s, the reader stores it into field %s", i+1, a.kind, a.path, b.path)
				}
				if bad != "" {
					pos = p.Pos(b.pos)
					break
				}
			}
		}
		if bad != "" {
			r.Bad(rule, key, pos, bad+" — "+detail)
		} else {
			r.OK(rule, key, pos, fmt.Sprintf("%d layout items agree in kind, width, offset/stride, loop nesting and field: %s", len(w.items), strings.Join(ws, "; ")))
		}
	}
	r.Floor(rule, n, floor)
}
