package main

// rutb.go — R-UTB/syllables and R-UTB/halfopen (C18): two structural clauses about the script shapers.

import (
	"fmt"
	"go/token"
	"go/types"
	"sort"

	"golang.org/x/tools/go/ssa"
)

type utbCfg struct {
	pkg, buffer, mark string // (*buffer).mark(start, end) flags the half-open range
	iter, next        string // (*iter).next() (start, end int)
	info, syllable    string // info.syllable holds serial<<4 | type
}

// derivesExtract: v is result k of a call to fn, possibly through phis.
func derivesExtract(v ssa.Value, fn *ssa.Function, k int, seen map[ssa.Value]bool) bool {
	if seen[v] {
		return false
	}
	seen[v] = true
	switch x := v.(type) {
	case *ssa.Extract:
		c, ok := x.Tuple.(*ssa.Call)
		return ok && x.Index == k && c.Common().StaticCallee() == fn
	case *ssa.Phi:
		if len(x.Edges) == 0 {
			return false
		}
		for _, e := range x.Edges {
			if !derivesExtract(e, fn, k, seen) {
				return false
			}
		}
		return true
	}
	return false
}

// syllableSetups: the functions that call a syllable finder. A finder is a function that calls a function storing
// `serial<<4 | type` into info.syllable.
func syllableSetups(p *Prog, c utbCfg) (setups map[*ssa.Function][]*ssa.Call) {
	fSyl := p.Field(c.pkg, c.info, c.syllable)
	pk := p.pkgPath(c.pkg)
	var fns []*ssa.Function
	for _, f := range p.ModFns() {
		if fnPkg(f) != nil && fnPkg(f).Path() == pk {
			fns = append(fns, f)
		}
	}
	s0 := map[*ssa.Function]bool{}
	for _, f := range fns {
		for _, b := range f.Blocks {
			for _, in := range b.Instrs {
				st, ok := in.(*ssa.Store)
				if !ok || fieldOf(st.Addr) != fSyl {
					continue
				}
				bo, ok := st.Val.(*ssa.BinOp)
				if !ok || bo.Op != token.OR {
					continue
				}
				for _, side := range []ssa.Value{bo.X, bo.Y} {
					if sh, ok := side.(*ssa.BinOp); ok && sh.Op == token.SHL {
						if k, ok := sh.Y.(*ssa.Const); ok && k.Value != nil && k.Value.ExactString() == "4" {
							s0[f] = true
						}
					}
				}
			}
		}
	}
	callers := func(of map[*ssa.Function]bool) map[*ssa.Function][]*ssa.Call {
		out := map[*ssa.Function][]*ssa.Call{}
		for _, f := range fns {
			if of[f] {
				continue
			}
			for _, b := range f.Blocks {
				for _, in := range b.Instrs {
					if call, ok := in.(*ssa.Call); ok {
						if sc := call.Common().StaticCallee(); sc != nil && of[sc] {
							out[f] = append(out[f], call)
						}
					}
				}
			}
		}
		return out
	}
	s1 := map[*ssa.Function]bool{}
	for f := range callers(s0) {
		s1[f] = true
	}
	return callers(s1)
}

// ruleUTBSyllables: every function that calls a syllable finder then iterates over the syllables and flags each one,
// whole: the iteration starts on every path after the finder, and in each iteration the marking call on
// (start, end) = the two results of next() runs before the next syllable is fetched or the function returns.
func ruleUTBSyllables(p *Prog, r *Report, c utbCfg, floor int) {
	const rule = "R-UTB/syllables"
	mark := p.Func(c.pkg, c.buffer, c.mark)
	next := p.Func(c.pkg, c.iter, c.next)
	setups := syllableSetups(p, c)
	var fs []*ssa.Function
	for f := range setups {
		fs = append(fs, f)
	}
	sort.Slice(fs, func(i, j int) bool { return fs[i].String() < fs[j].String() })
	isNext := func(in ssa.Instruction) bool { return staticCallTo(in, next) }
	isMarkIn := func(in ssa.Instruction) bool {
		call, ok := in.(*ssa.Call)
		if !ok || call.Common().StaticCallee() != mark || len(call.Common().Args) != 3 {
			return false
		}
		a := call.Common().Args
		return derivesExtract(a[1], next, 0, map[ssa.Value]bool{}) && derivesExtract(a[2], next, 1, map[ssa.Value]bool{})
	}
	// loopOK: from the given point of g, the iteration over the syllables starts on every path, and every iteration
	// marks its syllable before the next one is fetched or the function returns. "" when it holds.
	loopOK := func(g *ssa.Function, from point) string {
		if started, _ := mustFollow(p, g, from, isNext); !started {
			return "a path from the syllable finder to the exit does not iterate over the syllables"
		}
		nIf := 0
		for _, b := range g.Blocks {
			iff := ifOf(b)
			if iff == nil {
				continue
			}
			bo, isBo := iff.Cond.(*ssa.BinOp)
			if !isBo || bo.Op != token.LSS || !derivesExtract(bo.X, next, 0, map[ssa.Value]bool{}) {
				continue
			}
			nIf++
			hit, _ := reachableFrom(p, g, point{b.Succs[0], 0}, func(in ssa.Instruction) bool { return isNext(in) || isExit(in) }, isMarkIn, nil)
			if hit != nil {
				return fmt.Sprintf("an iteration reaches %s without %s(start, end) on the syllable", p.IPos(hit), c.mark)
			}
		}
		if nIf == 0 {
			return "no loop over the syllables"
		}
		return ""
	}
	for _, f := range fs {
		key := p.FnName(f)
		r.Instance(rule, key)
		why := ""
		for _, fc := range setups[f] {
			w := loopOK(f, after(fc))
			if w != "" {
				// the loop may live in a helper of the package called on every path after the finder
				viaHelper := false
				okHelper, _ := mustFollow(p, f, after(fc), func(in ssa.Instruction) bool {
					call, isCall := in.(*ssa.Call)
					if !isCall {
						return false
					}
					g := call.Common().StaticCallee()
					if g == nil || g.Blocks == nil || fnPkg(g) == nil || fnPkg(g).Path() != p.pkgPath(c.pkg) || g == f {
						return false
					}
					if loopOK(g, entryPoint(g)) == "" {
						viaHelper = true
						return true
					}
					return false
				})
				if !(okHelper && viaHelper) {
					why = w
				}
			}
		}
		r.Check(why == "", rule, key, p.Pos(f.Pos()), fmt.Sprintf("after finding the syllables every one of them is flagged whole by %s(start, end), here or in a helper called on every path: the glyphs of a syllable are reordered and shaped together", c.mark)+pref(why))
	}
	r.Floor(rule, len(fs), floor)
}

// ruleUTBHalfOpen: the range of mark(start, end) is half open. A function that flags [start, end) and stores into a
// field of the glyph at index `end` of the buffer (same SSA value) has left the glyph it rewrites out of the range.
func ruleUTBHalfOpen(p *Prog, r *Report, c utbCfg, floor int) {
	const rule = "R-UTB/halfopen"
	mark := p.Func(c.pkg, c.buffer, c.mark)
	info := p.Named(c.pkg, c.info)
	pk := p.pkgPath(c.pkg)
	n := 0
	for _, f := range p.ModFns() {
		if fnPkg(f) == nil || fnPkg(f).Path() != pk || f == mark {
			continue
		}
		for _, call := range callsOf(f, mark) {
			end := call.Common().Args[2]
			if _, isConst := end.(*ssa.Const); isConst {
				continue
			}
			n++
			key := fmt.Sprintf("%s/%s(%s, %s)", p.FnName(f), c.mark, exprOf(call.Common().Args[1]), exprOf(end))
			r.Instance(rule, key)
			bad := ""
			for _, b := range f.Blocks {
				for _, in := range b.Instrs {
					st, ok := in.(*ssa.Store)
					if !ok {
						continue
					}
					fa, ok := st.Addr.(*ssa.FieldAddr)
					if !ok {
						continue
					}
					ia, ok := fa.X.(*ssa.IndexAddr)
					if !ok || ia.Index != end {
						continue
					}
					if sl, ok := ia.X.Type().Underlying().(*types.Slice); !ok || namedOf(sl.Elem()) != info {
						continue
					}
					bad = p.IPos(st)
				}
			}
			r.Check(bad == "", rule, key, p.IPos(call), "the glyph at the excluded end of the flagged range is not the one being rewritten"+pref(bad))
		}
	}
	r.Floor(rule, n, floor)
}

// ruleUTBCursor: a marking call whose range starts at the cursor, mark(b.idx ± k, …), flags glyphs relative to the
// position at which the decision was taken. No instruction that may move the cursor (a store to Buffer.idx, or a call whose
// callees may write it: P-FX) lies on a path to the call inside the same iteration of the loop that contains it: after
// nextGlyph / replaceGlyphs the cursor designates another glyph, and the glyphs already output are not in the range.
func ruleUTBCursor(p *Prog, r *Report, fx *FX, c utbCfg, cursor string, floor int) {
	const rule = "R-UTB/cursor"
	mark := p.Func(c.pkg, c.buffer, c.mark)
	fIdx := p.Field(c.pkg, c.buffer, cursor)
	idx, okIdx := fx.index[fIdx]
	if !okIdx {
		undecided("R-UTB/cursor: %s.%s is not a tracked field", c.buffer, cursor)
	}
	pk := p.pkgPath(c.pkg)
	fromCursor := func(v ssa.Value) bool {
		for i := 0; i < 4; i++ {
			switch x := v.(type) {
			case *ssa.BinOp:
				if _, isC := x.Y.(*ssa.Const); isC && (x.Op == token.ADD || x.Op == token.SUB) {
					v = x.X
					continue
				}
				return false
			case *ssa.UnOp:
				return x.Op == token.MUL && fieldOf(x.X) == fIdx
			default:
				return false
			}
		}
		return false
	}
	moves := func(in ssa.Instruction) bool {
		if storesField(in, fIdx) {
			return true
		}
		if ci, ok := in.(ssa.CallInstruction); ok {
			if _, isDefer := in.(*ssa.Defer); isDefer {
				return false
			}
			for _, cal := range p.Callees(ci) {
				if cal == mark {
					continue
				}
				if w, ok := fx.mayW[cal]; ok && w.has(idx) {
					return true
				}
			}
		}
		return false
	}
	n := 0
	for _, f := range p.ModFns() {
		if fnPkg(f) == nil || fnPkg(f).Path() != pk || f == mark {
			continue
		}
		for _, call := range callsOf(f, mark) {
			if !fromCursor(call.Common().Args[1]) {
				continue
			}
			n++
			key := fmt.Sprintf("%s/%s(cursor…)", p.FnName(f), c.mark)
			r.Instance(rule, key)
			var loops []*natLoop
			for _, l := range naturalLoops(f) {
				if l.blocks[call.Block()] {
					loops = append(loops, l)
				}
			}
			cutBack := func(from, to *ssa.BasicBlock) bool {
				for _, l := range loops {
					if to == l.header && l.blocks[from] {
						return true
					}
				}
				return false
			}
			bad := ""
			for _, b := range f.Blocks {
				for _, in := range b.Instrs {
					if !moves(in) {
						continue
					}
					// an instruction outside the loops that contain the call runs before the iteration starts
					inLoops := true
					for _, l := range loops {
						if !l.blocks[b] {
							inLoops = false
						}
					}
					if !inLoops {
						continue
					}
					if hit, _ := reachableFrom(p, f, after(in), func(x ssa.Instruction) bool { return x == ssa.Instruction(call) }, nil, cutBack); hit != nil {
						bad = p.IPos(in)
					}
				}
			}
			r.Check(bad == "", rule, key, p.IPos(call), "the range starts at the cursor and nothing moves the cursor between the start of the iteration and this call"+pref(bad))
		}
	}
	r.Floor(rule, n, floor)
}

func exprOf(v ssa.Value) string {
	if v.Name() != "" {
		if _, ok := v.(*ssa.Parameter); ok {
			return v.Name()
		}
	}
	switch x := v.(type) {
	case *ssa.Const:
		return x.String()
	case *ssa.BinOp:
		if ph, ok := x.X.(*ssa.Phi); ok && ph.Comment == "rangeindex" {
			return "i" // the index of a range loop
		}
		return exprOf(x.X) + x.Op.String() + exprOf(x.Y)
	case *ssa.Phi:
		if x.Comment != "" {
			return x.Comment
		}
	case *ssa.Extract:
		return fmt.Sprintf("#%d", x.Index)
	case *ssa.UnOp:
		if x.Op == token.MUL {
			if f := fieldOf(x.X); f != nil {
				return "." + f.Name()
			}
		}
	}
	return "_"
}

func controlsC18(cp *Prog, r *Report) {
	cfg := utbCfg{pkg: "utb", buffer: "Buffer", mark: "unsafeToBreak", iter: "syllableIterator", next: "next", info: "GlyphInfo", syllable: "syllable"}
	expectControl(r, "R-UTB/syllables", func(cr *Report) { ruleUTBSyllables(cp, cr, cfg, 4) }, "utb.setupBadNone", "utb.setupBadSkip", "utb.setupBadRange", "utb.setupHelperBad")
	expectControl(r, "R-UTB/halfopen", func(cr *Report) { ruleUTBHalfOpen(cp, cr, cfg, 2) }, "utb.puaBad/unsafeToBreak(base, i)")
	expectControl(r, "R-UTB/cursor", func(cr *Report) {
		fx := NewFX(cp)
		fx.Run()
		ruleUTBCursor(cp, cr, fx, cfg, "idx", 2)
	}, "utb.cursorBad/unsafeToBreak(cursor…)")
}
