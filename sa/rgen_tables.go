package main

// rgen_tables.go — functions whose byte-slice accesses R-GEN (P-LIN) cannot derive from dominating length tests. Each was
// read and is listed with the reason; R-GEN reports them as "not claimed" instances and decides nothing about them. A
// function that is NOT in this table and has an underivable access is a violation.

const (
	rgNonLinear = "reviewed: the bound is a product or quotient of two values of the input; the dominating test compares the same product (non-linear, outside P-LIN)"
	rgSibling   = "reviewed: the length was tested by an earlier step of the same generated parser (an invariant between fields set by sibling functions), or by the documented caller"
	rgCursor    = "reviewed: the read position lives in a struct field that the function itself advances, so two loads of it are different quantities for P-LIN; every advance follows a length test"
	rgPost      = "reviewed: the loop advances by the length returned by a nested reader whose `read <= len(src)` post-condition P-LIN could not derive (it returns a length field that it compared with len(src))"
)

var rgenNotClaimed = map[string]string{
	"(*font/cff.cffParser).parseCharset":                           rgCursor,
	"(*font/cff.cffParser).parseFDSelect":                          rgCursor + " (seek tests the offset)",
	"(*font/cff.cffParser).parseIndex":                             rgCursor,
	"(*font/cff.cffParser).parseIndexHeader":                       rgCursor,
	"(*font/cff.cffParser).read":                                   rgCursor,
	"(*font/cff/interpreter.Machine).Run":                          rgCursor,
	"(*font/cff/interpreter.Machine).SkipBytes":                    "reviewed: the count is (hstem+vstem+7)>>3 of int32 counters that only grow; a negative count needs 2^31 stem operators",
	"(*font/cff/interpreter.Machine).parseNumber":                  rgCursor + " (Run calls it with a non-empty instruction slice)",
	"(*font/opentype.Loader).findTableBuffer":                      "reviewed: the slice expression reuses the caller's buffer up to the table length, which is compared with the file size since c1de89c (through Seek, outside P-LIN)",
	"(*font/opentype/tables.AATStateTable).parseEntries":           rgSibling + " (parseStates tests entryTable)",
	"(*font/opentype/tables.AATStateTable).parseStates":            rgNonLinear,
	"(*font/opentype/tables.AATStateTableExt).parseEntries":        rgSibling + " (parseStates tests entryTable)",
	"(*font/opentype/tables.AATStateTableExt).parseStates":         rgNonLinear + " (rows of nClasses entries cut from len(states)/nClasses rows)",
	"(*font/opentype/tables.Gvar).parseGlyphVariationDatas":        rgSibling + " (the offsets come from ParseLoca(glyphCount): glyphCount+1 entries)",
	"(*font/opentype/tables.Strike).parseGlyphDatas":               rgSibling + " (the offsets come from ParseLoca(numGlyphs): numGlyphs+1 entries)",
	"font.parseIndexSubTable1":                                     rgSibling + " (make length: CBLC.parseIndexSubTables asks ParseIndexSubHeader for numGlyphs+1 >= 2 offsets)",
	"font.parseIndexSubTable3":                                     rgSibling + " (make length: CBLC.parseIndexSubTables asks ParseIndexSubHeader for numGlyphs+1 >= 2 offsets)",
	"font.parseIndexSubTable2":                                     rgSibling + " (make length: CBLC.parseIndexSubTables rejects LastGlyph < FirstGlyph)",
	"font/opentype/tables.ParseGlyf":                               rgSibling + " (make length: the documented caller passes the result of ParseLoca, which has numGlyphs+1 >= 1 entries)",
	"font.newBitmap":                                               rgSibling + " (CBLC.parseIndexSubTables makes IndexSubTables with len(BitmapSizes) entries)",
	"font.unpackDeltas":                                            "reviewed: out[nbRead] follows the test nbRead+count <= pointNumbersCount made before each run of count values; the offsets 1+2*i and 1+2*count are computed in a byte, with count <= 64 (no wrap)",
	"font/opentype/tables.parseDeviceTable":                        rgNonLinear + " (count*nbPerUint16 values, filled by chunks of nbPerUint16); src[offset+6:] adds in uint16 and may wrap to a SMALLER offset than the one tested in int: wrong data, no panic",
	"(*font/opentype/tables.DeltaSetMapping).parseMap":             rgNonLinear,
	"(*font/opentype/tables.FvarRecords).parseInstances":           rgNonLinear,
	"(*font/opentype/tables.ItemVariationData).parseDeltaSets":     rgNonLinear,
	"(*font/opentype/tables.KernData3).parseEnd":                   rgSibling + " (LeftClass and RightClass are both cut with glyphCount)",
	"(*font/opentype/tables.MVAR).parseValueRecords":               rgNonLinear + "; the record size is at least 8 since the fix 3738791",
	"(*font/opentype/tables.MorxSubtableLigature).parseComponents": rgNonLinear + " ((ligatureOffset-componentOffset)/2 entries, ligatureOffset tested since 93630c6)",
	"(*font/opentype/tables.MorxSubtableLigature).parseLigatures":  rgNonLinear + " (len(src)/2 entries read through a field of the receiver)",
	"(*font/opentype/tables.SimpleGlyph).parsePoints":              "reviewed: the coordinate lengths are sums accumulated over the flags loop and are tested against len(src) before slicing",
	"(font.Kern3).KernPair":                                        rgSibling + " (KernData3.parseEnd bounds every class and index value)",
	"(font/opentype/tables.pairValueRecords).get":                  rgSibling + " (PairSet.parseData tests 2+recordSize*count; callers pass index < count)",
	"font.parseGlyphVariationSerializedData":                       "reviewed: data is re-assigned by the nested readers; the slice is preceded by the test on VariationDataSize of the same data value, which P-LIN sees through a phi",
	"font.parsePointNumbers":                                       rgPost,
	"font/cff.ParseCFF2":                                           "reviewed: headerSize <= headerSize+topDictLength (a sum of two unsigned values)",
	"font/cff.parseIndexContent":                                   rgNonLinear,
	"font/opentype.WriteTTF":                                       "not a reader: writes into a buffer it sized itself",
	"font/opentype.parseDfont":                                     rgNonLinear + " (12*numFonts bytes are made, then indexed by 12*i+4)",
	"font/opentype.parseUint32s":                                   rgSibling + " (documented: data length must have been checked; both callers test 4*count)",
	"font/opentype/tables.ParseGlyphVariationData":                 rgPost,
	"font/opentype/tables.ParseLoca":                               rgNonLinear,
	"font/opentype/tables.parseAATStateEntries":                    rgNonLinear,
	"font/opentype/tables.parseKernx1Values":                       rgNonLinear,
	"font/opentype/tables.parseValueRecord":                        "reviewed: the offset parameter is a sum of constants and of its own previous result at all five call sites; the sign prover does not follow pairValueRecords.get's index",
	"font/opentype/tables.readContourPoint":                        rgSibling + " (parsePoints sizes dataX/dataY from the same flags)",
}

// rgenNotClaimedAccess: for each not-claimed function, the accesses (named by the indexed value, "" = a value without a
// stable name) that were underivable when the function was reviewed. Generated by `vsa rgenkeys`. Any other underivable
// access of such a function is reported.
var rgenNotClaimedAccess = map[string][]string{
	"(*font/cff.cffParser).parseCharset":                       {""},
	"(*font/cff.cffParser).parseFDSelect":                      {"p.src"},
	"(*font/cff.cffParser).parseIndex":                         {"p.src"},
	"(*font/cff.cffParser).parseIndexHeader":                   {""},
	"(*font/cff.cffParser).read":                               {"p.src"},
	"(*font/cff/interpreter.Machine).Run":                      {"p.instructions"},
	"(*font/cff/interpreter.Machine).SkipBytes":                {"p.instructions"},
	"(*font/cff/interpreter.Machine).parseNumber":              {"p.instructions"},
	"(*font/opentype.Loader).findTableBuffer":                  {"dst|make([]byte)"},
	"(*font/opentype/tables.AATStateTable).parseEntries":       {"src"},
	"(*font/opentype/tables.AATStateTable).parseStates":        {"src"},
	"(*font/opentype/tables.AATStateTableExt).parseEntries":    {"src"},
	"(*font/opentype/tables.AATStateTableExt).parseStates":     {""},
	"(*font/opentype/tables.DeltaSetMapping).parseMap":         {"src"},
	"(*font/opentype/tables.FvarRecords).parseInstances":       {"src"},
	"(*font/opentype/tables.Gvar).parseGlyphVariationDatas":    {"gv.glyphVariationDataOffsets"},
	"(*font/opentype/tables.ItemVariationData).parseDeltaSets": {""},
	"(*font/opentype/tables.KernData3).parseEnd":               {"kd.RightClass"},
	"(*font/opentype/tables.MVAR).parseValueRecords":           {"src"},
	"(*font/opentype/tables.SimpleGlyph).parsePoints":          {"sg.Points", "src"},
	"(*font/opentype/tables.Strike).parseGlyphDatas":           {"", "src"},
	"(font.Kern3).KernPair":                                    {"kd.KernIndex"},
	"(font/opentype/tables.pairValueRecords).get":              {"ps.data"},
	"font.newBitmap":                               {"make(font.bitmap)[].subTables", "table.IndexSubTables"},
	"font.parseGlyphVariationSerializedData":       {""},
	"font.parseIndexSubTable1":                     {"length of make([]font.bitmapImage)"},
	"font.parseIndexSubTable2":                     {"length of make([]font.bitmapDataStandalone)"},
	"font.parseIndexSubTable3":                     {"length of make([]font.bitmapImage)"},
	"font.parsePointNumbers":                       {""},
	"font.unpackDeltas":                            {"", "make([]int16)"},
	"font/cff.ParseCFF2":                           {"src"},
	"font/cff.parseIndexContent":                   {"src"},
	"font/opentype.WriteTTF":                       {"", "make([]byte)"},
	"font/opentype.parseDfont":                     {"make([]byte)"},
	"font/opentype.parseUint32s":                   {"data"},
	"font/opentype/tables.ParseGlyf":               {"length of make(tables.Glyf)"},
	"font/opentype/tables.ParseGlyphVariationData": {"src"},
	"font/opentype/tables.ParseLoca":               {"src"},
	"font/opentype/tables.parseAATStateEntries":    {"src"},
	"font/opentype/tables.parseDeviceTable":        {"", "src"},
	"font/opentype/tables.parseKernx1Values":       {"src"},
	"font/opentype/tables.parseValueRecord":        {"", "data"},
	"font/opentype/tables.readContourPoint":        {"data"},
}
