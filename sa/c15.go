package main

// c15.go — C15 Style matching follows CSS Fonts §5.2 (R-STEPS narrowing chain, R-CUTS range boundaries, R-DEFAULTS).

import (
	"fmt"
	"go/constant"
	"go/token"

	"golang.org/x/tools/go/ssa"
)

func init() {
	register(&propDef{id: "C15", run: runC15})
}

func runC15(p *Prog, r *Report) {
	r.Explain = append(r.Explain, "R-STEPS: retainsBestMatches returns filterByWeight(filterByStyle(filterByStretch(candidates, matchStretch(..)), matchStyle(..)), matchWeight(..)) where each matcher is evaluated on exactly the list its filter narrows and is asked for the corresponding field of the query after SetDefaults.")
	ruleChain(p, r, "fontscan", "fontSet", "retainsBestMatches", fnRef{"font", "Aspect", "SetDefaults"}, []chainStep{
		{"matchStretch", "filterByStretch", "Stretch"}, {"matchStyle", "filterByStyle", "Style"}, {"matchWeight", "filterByWeight", "Weight"}})
	r.Explain = append(r.Explain,
		"R-CUTS: the requested value is touched only through comparisons; the cut points those comparisons with constants induce are exactly the specification's: matchWeight splits the request at 400 (400 in the upper part) and 500 (500 in the lower part) and the bolder candidate at 500 (inclusive below); matchStretch splits the request at StretchNormal (normal on the narrow-first side). The form of the comparisons (<, >=, switch) is irrelevant.",
		"R-DEFAULTS: Aspect.SetDefaults assigns a field only on the edge where that field is zero, so a specified request reaches the matchers unchanged.")
	ruleCuts(p, r, []cutSpec{
		{fn: fnRef{"fontscan", "fontSet", "matchWeight"}, what: "requested weight", param: "query", expect: []cutPoint{{"400", true}, {"500", false}}, meaning: "requests below 400, in [400,500] and above 500 follow three different search orders"},
		{fn: fnRef{"fontscan", "fontSet", "matchWeight"}, what: "candidate weights", param: "query", others: true, expect: []cutPoint{{"500", false}}, meaning: "for requests in [400,500] bolder candidates up to and including 500 are preferred"},
		{fn: fnRef{"fontscan", "fontSet", "matchStretch"}, what: "requested stretch", param: "query", expect: []cutPoint{{"1", false}}, meaning: "requests up to and including normal try narrower first"},
	})
	ruleDefaultsOnly(p, r)
	r.Assumptions = append(r.Assumptions, "the closest-candidate arithmetic inside the matchers (distance comparisons between runtime floats) is NOT decided")
	r.NotDecided = append(r.NotDecided, "which of several lighter/bolder candidates is the closest", "non-emptiness and uniformity of the result")
}

// ---- R-CUTS: where a function splits the range of a value by comparisons with constants ---------------------------------

type cutPoint struct {
	c     string // exact constant
	upper bool   // the constant itself belongs to the upper part (x < c / x >= c), else to the lower part (x <= c / x > c)
}

// cutsOn collects the cut points induced on the values selected by sel through order comparisons with constants.
func cutsOn(f *ssa.Function, sel func(v ssa.Value) bool) map[cutPoint]token.Pos {
	out := map[cutPoint]token.Pos{}
	for _, b := range f.Blocks {
		for _, in := range b.Instrs {
			bo, ok := in.(*ssa.BinOp)
			if !ok {
				continue
			}
			op := bo.Op
			var cst *ssa.Const
			if c, ok := bo.Y.(*ssa.Const); ok && sel(stripConv(bo.X)) {
				cst = c
			} else if c, ok := bo.X.(*ssa.Const); ok && sel(stripConv(bo.Y)) {
				cst = c
				switch op { // c OP x  ==  x OP' c
				case token.LSS:
					op = token.GTR
				case token.LEQ:
					op = token.GEQ
				case token.GTR:
					op = token.LSS
				case token.GEQ:
					op = token.LEQ
				}
			}
			if cst == nil || cst.Value == nil {
				continue
			}
			var up bool
			switch op {
			case token.LSS, token.GEQ:
				up = true
			case token.LEQ, token.GTR:
				up = false
			default:
				continue
			}
			out[cutPoint{constant.ToFloat(cst.Value).ExactString(), up}] = in.Pos()
		}
	}
	return out
}

type cutSpec struct {
	fn      fnRef
	what    string // description of the selected values
	param   string // parameter name ("" = every value that is not the parameter named in notParam)
	others  bool
	expect  []cutPoint
	meaning string
}

func ruleCuts(p *Prog, r *Report, specs []cutSpec) {
	const rule = "R-CUTS"
	for _, s := range specs {
		f := p.Func(s.fn.pkg, s.fn.recv, s.fn.name)
		var prm *ssa.Parameter
		for _, q := range f.Params {
			if q.Name() == s.param {
				prm = q
			}
		}
		if prm == nil {
			undecided("anchor: parameter %s of %s not found", s.param, p.FnName(f))
		}
		sel := func(v ssa.Value) bool { return v == ssa.Value(prm) }
		if s.others {
			sel = func(v ssa.Value) bool {
				if v == ssa.Value(prm) {
					return false
				}
				_, isC := v.(*ssa.Const)
				return !isC
			}
		}
		got := cutsOn(f, sel)
		key := p.FnName(f) + "/" + s.what
		r.Instance(rule, key)
		want := map[cutPoint]bool{}
		for _, e := range s.expect {
			want[cutPoint{constant.ToFloat(constant.MakeFromLiteral(e.c, token.FLOAT, 0)).ExactString(), e.upper}] = true
		}
		bad := ""
		for c := range got {
			if !want[c] {
				side := "lower"
				if c.upper {
					side = "upper"
				}
				bad = fmt.Sprintf("the %s is split at %s with the boundary value on the %s side, which the specification does not do (at %s)", s.what, c.c, side, p.Pos(got[c]))
			}
		}
		for c := range want {
			if _, ok := got[c]; !ok {
				bad = fmt.Sprintf("the %s is no longer split at %s (%s)", s.what, c.c, s.meaning)
			}
		}
		r.Check(bad == "", rule, key, p.Pos(f.Pos()), s.meaning+pref(bad))
	}
}

// ruleDefaultsOnly: every store of SetDefaults into the aspect is guarded by the `field == 0` test of that same field.
func ruleDefaultsOnly(p *Prog, r *Report) {
	const rule = "R-DEFAULTS"
	f := p.Func("font", "Aspect", "SetDefaults")
	key := p.FnName(f)
	r.Instance(rule, key)
	n, bad := 0, ""
	for _, b := range f.Blocks {
		for _, in := range b.Instrs {
			st, ok := in.(*ssa.Store)
			if !ok {
				continue
			}
			fld := fieldOf(st.Addr)
			if fld == nil {
				continue
			}
			n++
			guarded := false
			for _, gb := range f.Blocks {
				iff := ifOf(gb)
				if iff == nil {
					continue
				}
				bo, ok := iff.Cond.(*ssa.BinOp)
				if !ok || bo.Op != token.EQL || !isLoadOfField(bo.X, fld) {
					continue
				}
				if c, ok := bo.Y.(*ssa.Const); !ok || !isZeroConst(c) {
					continue
				}
				if guardedBy(p, f, in, guard{iff, false}) {
					guarded = true
				}
			}
			if !guarded {
				bad = fmt.Sprintf("the store to %s at %s is not confined to the case where the field is unset (0): a specified request is altered before matching", fld.Name(), p.IPos(in))
			}
		}
	}
	r.Check(n > 0 && bad == "", rule, key, p.Pos(f.Pos()), "SetDefaults assigns a field only on the edge where that field is zero (unset)"+pref(bad))
}
