package main

// c15.go — C15 Style matching follows CSS Fonts §5.2 (R-STEPS: the narrowing chain only).

func init() {
	register(&propDef{id: "C15", run: runC15})
}

func runC15(p *Prog, r *Report) {
	r.Explain = append(r.Explain, "R-STEPS: retainsBestMatches returns filterByWeight(filterByStyle(filterByStretch(candidates, matchStretch(..)), matchStyle(..)), matchWeight(..)) where each matcher is evaluated on exactly the list its filter narrows and is asked for the corresponding field of the query after SetDefaults.")
	ruleChain(p, r, "fontscan", "fontSet", "retainsBestMatches", fnRef{"font", "Aspect", "SetDefaults"}, []chainStep{
		{"matchStretch", "filterByStretch", "Stretch"}, {"matchStyle", "filterByStyle", "Style"}, {"matchWeight", "filterByWeight", "Weight"}})
	r.Assumptions = append(r.Assumptions, "the search orders inside matchStretch/matchStyle/matchWeight (boundaries at 400/500 and at StretchNormal) are comparisons on runtime floats and are NOT decided")
	r.NotDecided = append(r.NotDecided, "the CSS search order inside each matcher", "non-emptiness and uniformity of the result")
}
