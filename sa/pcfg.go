package main

// pcfg.go — P-CFG: path rules on SSA basic blocks.

import (
	"fmt"
	"go/constant"
	"go/token"
	"go/types"

	"golang.org/x/tools/go/ssa"
)

// point is a program point: before instruction idx of block b.
type point struct {
	b   *ssa.BasicBlock
	idx int
}

func pointOf(in ssa.Instruction) point {
	b := in.Block()
	for i, x := range b.Instrs {
		if x == in {
			return point{b, i}
		}
	}
	panic("instruction not in its block")
}

func after(in ssa.Instruction) point {
	pt := pointOf(in)
	pt.idx++
	return pt
}

func entryPoint(fn *ssa.Function) point { return point{fn.Blocks[0], 0} }

// walkCfg explores forward from the given start points. visit is called for every instruction reached;
// returning false stops exploration along this path at that instruction (the instruction "absorbs" the path).
// cutEdge (optional) removes CFG edges. The parent map allows reconstructing a witness path.
type walker struct {
	fn      *ssa.Function
	cutEdge func(from, to *ssa.BasicBlock) bool
	seenBlk map[*ssa.BasicBlock]bool
	parent  map[*ssa.BasicBlock]*ssa.BasicBlock
}

func (w *walker) run(starts []point, visit func(in ssa.Instruction) bool) {
	w.seenBlk = map[*ssa.BasicBlock]bool{}
	w.parent = map[*ssa.BasicBlock]*ssa.BasicBlock{}
	type item struct {
		pt   point
		from *ssa.BasicBlock
	}
	var stack []item
	for _, s := range starts {
		stack = append(stack, item{s, nil})
	}
	for len(stack) > 0 {
		it := stack[len(stack)-1]
		stack = stack[:len(stack)-1]
		b := it.pt.b
		if it.pt.idx == 0 {
			if w.seenBlk[b] {
				continue
			}
			w.seenBlk[b] = true
			if it.from != nil {
				w.parent[b] = it.from
			}
		}
		absorbed := false
		for i := it.pt.idx; i < len(b.Instrs); i++ {
			if !visit(b.Instrs[i]) {
				absorbed = true
				break
			}
		}
		if absorbed {
			continue
		}
		for _, s := range b.Succs {
			if w.cutEdge != nil && w.cutEdge(b, s) {
				continue
			}
			if !w.seenBlk[s] {
				stack = append(stack, item{point{s, 0}, b})
			}
		}
	}
}

// pathTo renders the chain of blocks leading to b (for diagnostics).
func (w *walker) pathTo(p *Prog, b *ssa.BasicBlock) []string {
	var chain []*ssa.BasicBlock
	for x := b; x != nil; x = w.parent[x] {
		chain = append(chain, x)
		if len(chain) > 64 {
			break
		}
	}
	var out []string
	for i := len(chain) - 1; i >= 0; i-- {
		x := chain[i]
		pos := token.NoPos
		for _, in := range x.Instrs {
			if in.Pos().IsValid() {
				pos = in.Pos()
				break
			}
		}
		out = append(out, fmt.Sprintf("block %d (%s) %s", x.Index, x.Comment, p.Pos(pos)))
	}
	return out
}

// isExit: a normal function exit (Return). Panics are not exits.
func isExit(in ssa.Instruction) bool {
	_, ok := in.(*ssa.Return)
	return ok
}

// mustFollow: on every path from `from` to a normal exit, an instruction satisfying isR occurs.
// Returns (ok, witness path).
func mustFollow(p *Prog, fn *ssa.Function, from point, isR func(ssa.Instruction) bool) (bool, []string) {
	return mustFollowCut(p, fn, from, isR, nil)
}

func mustFollowCut(p *Prog, fn *ssa.Function, from point, isR func(ssa.Instruction) bool, cut func(from, to *ssa.BasicBlock) bool) (bool, []string) {
	w := &walker{fn: fn, cutEdge: cut}
	var bad *ssa.BasicBlock
	w.run([]point{from}, func(in ssa.Instruction) bool {
		if isR(in) {
			return false
		}
		if isExit(in) && bad == nil {
			bad = in.Block()
		}
		return true
	})
	if bad != nil {
		return false, w.pathTo(p, bad)
	}
	return true, nil
}

// mustPrecede: every path from the function entry to `site` passes an instruction satisfying isR,
// or (when cut != nil) is cut.
func mustPrecede(p *Prog, fn *ssa.Function, site ssa.Instruction, isR func(ssa.Instruction) bool, cut func(from, to *ssa.BasicBlock) bool) (bool, []string) {
	w := &walker{fn: fn, cutEdge: cut}
	reached := false
	w.run([]point{entryPoint(fn)}, func(in ssa.Instruction) bool {
		if in == site {
			reached = true
			return false
		}
		if isR != nil && isR(in) {
			return false
		}
		return true
	})
	if reached {
		return false, w.pathTo(p, site.Block())
	}
	return true, nil
}

// reachableFrom: is `site` reachable from `from` when cut edges are removed and stop instructions absorb?
func reachableFrom(p *Prog, fn *ssa.Function, from point, site func(ssa.Instruction) bool, stop func(ssa.Instruction) bool, cut func(from, to *ssa.BasicBlock) bool) (ssa.Instruction, []string) {
	w := &walker{fn: fn, cutEdge: cut}
	var hit ssa.Instruction
	w.run([]point{from}, func(in ssa.Instruction) bool {
		if hit != nil {
			return false
		}
		if site(in) {
			hit = in
			return false
		}
		if stop != nil && stop(in) {
			return false
		}
		return true
	})
	if hit != nil {
		return hit, w.pathTo(p, hit.Block())
	}
	return nil, nil
}

// ---- conditions --------------------------------------------------------------------------

// ifOf returns the If instruction ending block b, if any.
func ifOf(b *ssa.BasicBlock) *ssa.If {
	if len(b.Instrs) == 0 {
		return nil
	}
	i, _ := b.Instrs[len(b.Instrs)-1].(*ssa.If)
	return i
}

// cutBranch returns a cutEdge function removing the true (which=true) or false successor edge of the given Ifs.
func cutBranch(which bool, ifs ...*ssa.If) func(from, to *ssa.BasicBlock) bool {
	return func(from, to *ssa.BasicBlock) bool {
		for _, i := range ifs {
			if i.Block() == from {
				idx := 0
				if !which {
					idx = 1
				}
				// when both successors are the same block the edge cannot be distinguished: do not cut
				if from.Succs[0] == from.Succs[1] {
					return false
				}
				if from.Succs[idx] == to {
					return true
				}
			}
		}
		return false
	}
}

// ---- calls --------------------------------------------------------------------------------

// callTo reports whether the instruction is a call (incl. go/defer) that may invoke one of the given functions.
func (p *Prog) callTo(in ssa.Instruction, targets map[*ssa.Function]bool) bool {
	c, ok := in.(ssa.CallInstruction)
	if !ok {
		return false
	}
	for _, f := range p.Callees(c) {
		if targets[f] {
			return true
		}
	}
	return false
}

// staticCallTo: the call's static callee is exactly fn.
func staticCallTo(in ssa.Instruction, fn *ssa.Function) bool {
	c, ok := in.(ssa.CallInstruction)
	return ok && c.Common().StaticCallee() == fn
}

// mustCallSummary computes the set of functions that, on every path from entry to a normal exit, execute
// an instruction satisfying base (directly or through a callee in the set). Greatest fixpoint is unsound
// for recursion, so a least fixpoint is used (iterate adding functions).
func mustCallSummary(p *Prog, fns []*ssa.Function, base func(ssa.Instruction) bool) map[*ssa.Function]bool {
	must := map[*ssa.Function]bool{}
	for changed := true; changed; {
		changed = false
		for _, f := range fns {
			if must[f] || f.Blocks == nil {
				continue
			}
			isR := func(in ssa.Instruction) bool {
				if base(in) {
					return true
				}
				if c, ok := in.(*ssa.Call); ok {
					if sc := c.Common().StaticCallee(); sc != nil && must[sc] {
						return true
					}
				}
				return false
			}
			// deferred R counts for every exit that it precedes; approximated: a Defer of R in the entry block
			ok, _ := mustFollow(p, f, entryPoint(f), func(in ssa.Instruction) bool {
				if isR(in) {
					return true
				}
				if d, ok := in.(*ssa.Defer); ok {
					if sc := d.Common().StaticCallee(); sc != nil && (must[sc]) {
						return true
					}
				}
				return false
			})
			if ok && hasExit(f) {
				must[f] = true
				changed = true
			}
		}
	}
	return must
}

func hasExit(f *ssa.Function) bool {
	for _, b := range f.Blocks {
		for _, in := range b.Instrs {
			if isExit(in) {
				return true
			}
		}
	}
	return false
}

// ---- field access helpers -------------------------------------------------------------------

// fieldOfAddr: if v is &x.f (FieldAddr) or x.f (Field) returns the field object.
func fieldOf(v ssa.Value) *types.Var {
	switch x := v.(type) {
	case *ssa.FieldAddr:
		st, ok := deref(x.X.Type()).Underlying().(*types.Struct)
		if ok {
			return st.Field(x.Field)
		}
	case *ssa.Field:
		st, ok := x.X.Type().Underlying().(*types.Struct)
		if ok {
			return st.Field(x.Field)
		}
	}
	return nil
}

// loadsField: v is a load (*ssa.UnOp MUL) of a FieldAddr of the field, or a Field extraction.
func loadsField(v ssa.Value, f *types.Var) bool {
	switch x := v.(type) {
	case *ssa.UnOp:
		if x.Op == token.MUL {
			return fieldOf(x.X) == f
		}
	case *ssa.Field:
		return fieldOf(x) == f
	}
	return false
}

// storesField: the instruction stores into the field (Store whose address is a FieldAddr of f).
func storesField(in ssa.Instruction, f *types.Var) bool {
	st, ok := in.(*ssa.Store)
	return ok && fieldOf(st.Addr) == f
}

// ---- correlated conditions ---------------------------------------------------------------------------------

// pureFn: the function has a body made only of value computations and returns (no store, no call, no map update,
// no send, no panic): its result depends only on its arguments.
func pureFn(f *ssa.Function) bool { return pureFnD(f, 0) }

func pureFnD(f *ssa.Function, depth int) bool {
	if f == nil || f.Blocks == nil || depth > 3 {
		return false
	}
	for _, b := range f.Blocks {
		for _, in := range b.Instrs {
			switch x := in.(type) {
			case *ssa.Store, *ssa.MapUpdate, *ssa.Send, *ssa.Go, *ssa.Defer, *ssa.Panic, *ssa.Alloc, *ssa.MakeMap, *ssa.MakeChan, *ssa.MakeSlice, *ssa.MakeClosure, *ssa.Select:
				return false
			case *ssa.Call:
				// synthetic pointer-receiver wrappers call the value method
				if bi, ok := x.Common().Value.(*ssa.Builtin); ok && bi.Name() == "ssa:wrapnilchk" {
					continue
				}
				sc := x.Common().StaticCallee()
				if sc == nil || !pureFnD(sc, depth+1) {
					return false
				}
			case *ssa.UnOp:
				if x.Op == token.ARROW {
					return false
				}
				if x.Op == token.MUL {
					// only the dereference of the receiver of a synthetic wrapper (copying the value receiver)
					if f.Synthetic == "" || len(f.Params) == 0 {
						return false
					}
					src := x.X
					if c, ok := src.(*ssa.Call); ok {
						if bi, ok := c.Common().Value.(*ssa.Builtin); ok && bi.Name() == "ssa:wrapnilchk" {
							src = c.Common().Args[0]
						}
					}
					if src != ssa.Value(f.Params[0]) {
						return false
					}
				}
			}
		}
	}
	return true
}

// equivCond: two SSA values are syntactically the same pure expression over the same operands.
func (p *Prog) equivCond(a, b ssa.Value, depth int) bool {
	if a == b {
		return true
	}
	if depth > 6 {
		return false
	}
	switch x := a.(type) {
	case *ssa.Field:
		y, ok := b.(*ssa.Field)
		return ok && x.Field == y.Field && p.equivCond(x.X, y.X, depth+1)
	case *ssa.UnOp:
		y, ok := b.(*ssa.UnOp)
		if !ok || x.Op != y.Op || x.Op == token.ARROW {
			return false
		}
		if x.Op == token.MUL {
			// loads of the same field path of a spilled, never re-assigned local (value parameter copied to an Alloc)
			return sameAddr(x.X, y.X) && readOnlyLocalAddr(x.X)
		}
		return p.equivCond(x.X, y.X, depth+1)
	case *ssa.BinOp:
		y, ok := b.(*ssa.BinOp)
		return ok && x.Op == y.Op && p.equivCond(x.X, y.X, depth+1) && p.equivCond(x.Y, y.Y, depth+1)
	case *ssa.Const:
		y, ok := b.(*ssa.Const)
		return ok && x.Value != nil && y.Value != nil && x.Value.ExactString() == y.Value.ExactString() && types.Identical(x.Type(), y.Type())
	case *ssa.Call:
		y, ok := b.(*ssa.Call)
		if !ok {
			return false
		}
		cx, cy := x.Common(), y.Common()
		if cx.IsInvoke() != cy.IsInvoke() || len(cx.Args) != len(cy.Args) {
			return false
		}
		if cx.IsInvoke() {
			if cx.Method != cy.Method || !p.equivCond(cx.Value, cy.Value, depth+1) {
				return false
			}
		} else if cx.StaticCallee() == nil || cx.StaticCallee() != cy.StaticCallee() {
			return false
		}
		for i := range cx.Args {
			if !p.equivCond(cx.Args[i], cy.Args[i], depth+1) {
				return false
			}
		}
		cal := p.Callees(x)
		if len(cal) == 0 {
			return false
		}
		for _, f := range cal {
			if !pureFn(f) {
				return false
			}
		}
		return true
	}
	return false
}

// guardOfBlock: if block b is entered only through one edge of an If (single predecessor ending in an If with
// distinct successors), returns that If and whether b is its true successor.
func guardOfBlock(b *ssa.BasicBlock) (*ssa.If, bool) {
	if len(b.Preds) != 1 {
		return nil, false
	}
	iff := ifOf(b.Preds[0])
	if iff == nil || b.Preds[0].Succs[0] == b.Preds[0].Succs[1] {
		return nil, false
	}
	return iff, b.Preds[0].Succs[0] == b
}

// correlatedCut: for a site executed only when cond has a given polarity, removes the opposite-polarity edge of every
// other If in the function testing an equivalent pure condition.
func (p *Prog) correlatedCut(fn *ssa.Function, site ssa.Instruction) func(from, to *ssa.BasicBlock) bool {
	g, pol := guardOfBlock(site.Block())
	if g == nil {
		return nil
	}
	var same []*ssa.If
	for _, b := range fn.Blocks {
		if i := ifOf(b); i != nil && i != g && p.equivCond(i.Cond, g.Cond, 0) {
			same = append(same, i)
		}
	}
	if len(same) == 0 {
		return nil
	}
	// if the site runs on the true edge, the false edges of equivalent tests are infeasible afterwards
	return cutBranch(!pol, same...)
}

// readOnlyLocalAddr: addr is a field path into a local Alloc that is written exactly once as a whole (the spill of
// a value parameter or of a single assignment) and whose address never escapes.
func readOnlyLocalAddr(addr ssa.Value) bool {
	for {
		fa, ok := addr.(*ssa.FieldAddr)
		if !ok {
			break
		}
		addr = fa.X
	}
	al, ok := addr.(*ssa.Alloc)
	if !ok || al.Heap {
		return false
	}
	stores := 0
	var okUse func(v ssa.Value) bool
	okUse = func(v ssa.Value) bool {
		refs := v.Referrers()
		if refs == nil {
			return false
		}
		for _, in := range *refs {
			switch x := in.(type) {
			case *ssa.Store:
				if x.Addr == v && v == ssa.Value(al) {
					stores++
					continue
				}
				return false
			case *ssa.FieldAddr:
				if !okUse(x) {
					return false
				}
			case *ssa.UnOp:
				if x.Op != token.MUL {
					return false
				}
			case *ssa.DebugRef:
			default:
				return false
			}
		}
		return true
	}
	return okUse(al) && stores == 1
}

// ---- path-sensitive reachability over constant phis --------------------------------------------------------------

// reachConstPhi explores from block `start` (entered from predecessor `from`, may be nil) and reports whether an
// instruction satisfying site is reachable, pruning the infeasible successor of an If whose condition is a phi of boolean
// constants defined in the If's own block, given the predecessor through which the block was entered. cut removes edges.
func reachConstPhi(fn *ssa.Function, start, from *ssa.BasicBlock, site func(ssa.Instruction) bool, cut func(from, to *ssa.BasicBlock) bool) bool {
	type st struct{ b, pred *ssa.BasicBlock }
	seen := map[st]bool{}
	stack := []st{{start, from}}
	for len(stack) > 0 {
		s := stack[len(stack)-1]
		stack = stack[:len(stack)-1]
		if seen[s] {
			continue
		}
		seen[s] = true
		for _, in := range s.b.Instrs {
			if site(in) {
				return true
			}
		}
		succs := s.b.Succs
		if iff := ifOf(s.b); iff != nil && s.pred != nil && len(succs) == 2 {
			cond := iff.Cond
			neg := false
			if u, ok := cond.(*ssa.UnOp); ok && u.Op == token.NOT {
				cond, neg = u.X, true
			}
			if ph, ok := cond.(*ssa.Phi); ok && ph.Block() == s.b {
				for i, p := range s.b.Preds {
					if p == s.pred {
						if c, ok := ph.Edges[i].(*ssa.Const); ok && c.Value != nil && c.Value.Kind() == constant.Bool {
							v := constant.BoolVal(c.Value) != neg
							if v {
								succs = succs[:1]
							} else {
								succs = succs[1:]
							}
						}
					}
				}
			}
		}
		for _, n := range succs {
			if cut != nil && cut(s.b, n) {
				continue
			}
			stack = append(stack, st{n, s.b})
		}
	}
	return false
}
