package main

// rdiv.go — R-DIV: no integer division or remainder by a value that may be zero (a run-time panic): every integer QUO/REM
// whose divisor is not a non-zero constant must have a provably non-zero divisor.

import (
	"fmt"
	"go/token"
	"go/types"
	"os"

	"golang.org/x/tools/go/ssa"
)

type nzCtx struct {
	p      *Prog
	nn     *nonNegCtx
	memoP  map[*ssa.Parameter]int
	memoF  map[*types.Var]int
	stores map[*types.Var][]*ssa.Store
}

func (c *nzCtx) fieldStores(f *types.Var) []*ssa.Store {
	if c.stores == nil {
		c.stores = map[*types.Var][]*ssa.Store{}
		for _, fn := range c.p.ModFns() {
			for _, b := range fn.Blocks {
				for _, in := range b.Instrs {
					if st, ok := in.(*ssa.Store); ok {
						if fld := fieldOf(st.Addr); fld != nil {
							c.stores[fld] = append(c.stores[fld], st)
						}
					}
				}
			}
		}
	}
	return c.stores[f]
}

// excludedZero: `at` cannot be reached with v == 0 because of tests on v (or on a value loaded from the same place):
// removing every edge on which the test implies v != 0 ... concretely: cut the edges that are only taken when v != 0 is NOT
// guaranteed — i.e. keep only the edges compatible with v == 0 — and require `at` to be unreachable from the entry.
func (c *nzCtx) excludedZero(v ssa.Value, at ssa.Instruction) bool {
	f := at.Parent()
	if f == nil {
		return false
	}
	base := stripConv(v)
	same := func(x ssa.Value) bool {
		x = stripConv(x)
		return x == base || sameSource(x, base) || c.p.equivCond(x, base, 0)
	}
	var cutT, cutF []*ssa.If // edges incompatible with v == 0
	for _, b := range f.Blocks {
		iff := ifOf(b)
		if iff == nil {
			continue
		}
		bo, ok := iff.Cond.(*ssa.BinOp)
		if !ok {
			continue
		}
		op := bo.Op
		var k int64
		var okc bool
		if same(bo.X) {
			k, okc = intConst(bo.Y)
		} else if same(bo.Y) {
			k, okc = intConst(bo.X)
			switch op {
			case token.LSS:
				op = token.GTR
			case token.LEQ:
				op = token.GEQ
			case token.GTR:
				op = token.LSS
			case token.GEQ:
				op = token.LEQ
			}
		}
		if !okc {
			continue
		}
		// truth of (0 OP k)
		var zeroSatisfies bool
		switch op {
		case token.EQL:
			zeroSatisfies = k == 0
		case token.NEQ:
			zeroSatisfies = k != 0
		case token.LSS:
			zeroSatisfies = 0 < k
		case token.LEQ:
			zeroSatisfies = 0 <= k
		case token.GTR:
			zeroSatisfies = 0 > k
		case token.GEQ:
			zeroSatisfies = 0 >= k
		default:
			continue
		}
		if zeroSatisfies {
			cutF = append(cutF, iff) // with v == 0 the false edge is impossible
		} else {
			cutT = append(cutT, iff)
		}
	}
	if len(cutT)+len(cutF) == 0 {
		return false
	}
	cut := func(from, to *ssa.BasicBlock) bool {
		return cutBranch(true, cutT...)(from, to) || cutBranch(false, cutF...)(from, to)
	}
	hit, _ := reachableFrom(c.p, f, entryPoint(f), func(in ssa.Instruction) bool { return in == at }, nil, cut)
	return hit == nil
}

func (c *nzCtx) nonZero(v ssa.Value, at ssa.Instruction, depth int) bool {
	r := c.nonZero0(v, at, depth)
	if !r && os.Getenv("VSA_DEBUG") != "" {
		fn := ""
		if v.Parent() != nil {
			fn = v.Parent().Name()
		}
		fmt.Printf("DEBUG nonZero fails depth=%d %T %v in %s\n", depth, v, v, fn)
	}
	return r
}

func (c *nzCtx) nonZero0(v ssa.Value, at ssa.Instruction, depth int) bool {
	if depth > 20 {
		return false
	}
	if k, ok := intConst(v); ok {
		return k != 0
	}
	if at != nil && c.excludedZero(v, at) {
		return true
	}
	switch x := v.(type) {
	case *ssa.Convert:
		// widening or same-size conversions keep non-zero; narrowing may not
		if sizeOf(x.Type()) >= sizeOf(x.X.Type()) {
			return c.nonZero(x.X, at, depth+1)
		}
		return false
	case *ssa.ChangeType:
		return c.nonZero(x.X, at, depth+1)
	case *ssa.BinOp:
		switch x.Op {
		case token.SHL:
			if k, ok := intConst(x.X); ok && k > 0 && k < 1<<16 {
				return c.nn.smallShift(x.Y, at)
			}
		case token.ADD:
			// nonneg + positive
			if k, ok := intConst(x.Y); ok && k > 0 && c.nn.nonNeg(x.X, at, depth+1) {
				return true
			}
			if k, ok := intConst(x.X); ok && k > 0 && c.nn.nonNeg(x.Y, at, depth+1) {
				return true
			}
		case token.MUL:
			return c.nonZero(x.X, at, depth+1) && c.nonZero(x.Y, at, depth+1)
		case token.QUO:
			// A / (1 << n) with 1<<n <= A is non-zero
			if a, ok := intConst(x.X); ok && a > 0 {
				if sh, ok := stripConv(x.Y).(*ssa.BinOp); ok && sh.Op == token.SHL {
					if k, ok := intConst(sh.X); ok && k == 1 {
						if m, ok := c.nn.shiftMax(sh.Y, at); ok && m < 62 && (int64(1)<<uint(m)) <= a {
							return true
						}
					}
				}
			}
		}
		return false
	case *ssa.Phi:
		for i, e := range x.Edges {
			// the value flows along the edge pred->block: tests dominating the end of the predecessor apply
			pred := x.Block().Preds[i]
			var at2 ssa.Instruction
			if len(pred.Instrs) > 0 {
				at2 = pred.Instrs[len(pred.Instrs)-1]
			}
			if !c.nonZero(e, at2, depth+1) {
				return false
			}
		}
		return true
	case *ssa.Parameter:
		switch c.memoP[x] {
		case 1, 2:
			return true
		case 3:
			return false
		}
		c.memoP[x] = 1
		f := x.Parent()
		idx := -1
		for i, q := range f.Params {
			if q == x {
				idx = i
			}
		}
		ok := false
		if n := c.p.CG().Nodes[f]; f.Synthetic != "" && (n == nil || len(n.In) == 0) {
			ok = true
		} else if n != nil && len(n.In) > 0 && idx >= 0 {
			ok = true
			for _, e := range n.In {
				if e.Site == nil {
					ok = false
					break
				}
				args := e.Site.Common().Args
				j := idx
				if e.Site.Common().IsInvoke() {
					j = idx - 1
				}
				if j < 0 || j >= len(args) || !c.nonZero(args[j], e.Site, depth+1) {
					ok = false
					break
				}
			}
		}
		if ok {
			c.memoP[x] = 2
		} else {
			c.memoP[x] = 3
		}
		return ok
	case *ssa.UnOp:
		if x.Op == token.MUL {
			if f := fieldOf(x.X); f != nil {
				return c.fieldNonZero(f, depth+1)
			}
		}
	case *ssa.Field:
		if f := fieldOf(x); f != nil {
			return c.fieldNonZero(f, depth+1)
		}
	case *ssa.Call:
		return c.resultNonZero(x, 0, depth+1)
	case *ssa.Extract:
		if call, ok := x.Tuple.(*ssa.Call); ok {
			return c.resultNonZero(call, x.Index, depth+1)
		}
	}
	return false
}

func sizeOf(t types.Type) int {
	b, ok := t.Underlying().(*types.Basic)
	if !ok {
		return 8
	}
	switch b.Kind() {
	case types.Int8, types.Uint8:
		return 1
	case types.Int16, types.Uint16:
		return 2
	case types.Int32, types.Uint32:
		return 4
	}
	return 8
}

func (c *nzCtx) resultNonZero(call *ssa.Call, idx, depth int) bool {
	if bi, ok := call.Common().Value.(*ssa.Builtin); ok {
		_ = bi
		return false
	}
	callees := c.p.Callees(call)
	if len(callees) == 0 {
		return false
	}
	for _, sc := range callees {
		if sc.Blocks == nil || depth > 20 {
			return false
		}
		for _, b := range sc.Blocks {
			for _, in := range b.Instrs {
				if ret, ok := in.(*ssa.Return); ok {
					if idx >= len(ret.Results) || !c.nonZero(ret.Results[idx], ret, depth+1) {
						return false
					}
				}
			}
		}
	}
	return true
}

func (c *nzCtx) fieldNonZero(f *types.Var, depth int) bool {
	switch c.memoF[f] {
	case 1, 2:
		return true
	case 3:
		return false
	}
	c.memoF[f] = 1
	sts := c.fieldStores(f)
	ok := len(sts) > 0
	for _, st := range sts {
		if !c.nonZero(st.Val, st, depth+1) {
			ok = false
			break
		}
	}
	if ok {
		c.memoF[f] = 2
	} else {
		c.memoF[f] = 3
	}
	return ok
}

// ruleDiv: reviewed maps "function/divisor" to a one-line reason for divisions whose non-zero divisor rests on an invariant
// established elsewhere.
func ruleDiv(p *Prog, r *Report, pkgs []string, reviewed map[string]string, floor int) {
	const rule = "R-DIV"
	inPkg := map[string]bool{}
	for _, k := range pkgs {
		inPkg[p.pkgPath(k)] = true
	}
	c := &nzCtx{p: p, nn: &nonNegCtx{p: p, memoP: map[*ssa.Parameter]int{}}, memoP: map[*ssa.Parameter]int{}, memoF: map[*types.Var]int{}}
	n := 0
	for _, f := range p.ModFns() {
		if fnPkg(f) == nil || !inPkg[fnPkg(f).Path()] {
			continue
		}
		for _, b := range f.Blocks {
			for _, in := range b.Instrs {
				bo, ok := in.(*ssa.BinOp)
				if !ok || (bo.Op != token.QUO && bo.Op != token.REM) {
					continue
				}
				bt, ok := bo.Type().Underlying().(*types.Basic)
				if !ok || bt.Info()&types.IsInteger == 0 {
					continue
				}
				if k, ok := intConst(bo.Y); ok && k != 0 {
					continue
				}
				n++
				key := fmt.Sprintf("%s/%s", p.FnName(f), divisorName(bo.Y))
				r.Instance(rule, key)
				if c.nonZero(bo.Y, in, 0) {
					r.OK(rule, key, p.IPos(in), "the divisor is provably non-zero (dominating test, non-zero field/result/argument at every site, or 1<<n)")
				} else if why, ok := reviewed[key]; ok {
					r.OK(rule, key, p.IPos(in), "reviewed: "+why)
				} else {
					r.Bad(rule, key, p.IPos(in), fmt.Sprintf("integer division by %s, which is not provably non-zero here: a zero value panics (integer divide by zero)", divisorName(bo.Y)))
				}
			}
		}
	}
	r.Floor(rule, n, floor)
}

func divisorName(v ssa.Value) string {
	v = stripConv(v)
	switch x := v.(type) {
	case *ssa.Parameter:
		return x.Name()
	case *ssa.UnOp:
		if f := fieldOf(x.X); f != nil {
			return "." + f.Name()
		}
		if al, ok := x.X.(*ssa.Alloc); ok {
			return al.Comment
		}
	case *ssa.Field:
		if f := fieldOf(x); f != nil {
			return "." + f.Name()
		}
	case *ssa.Call:
		if sc := x.Common().StaticCallee(); sc != nil {
			return sc.Name() + "()"
		}
	case *ssa.Phi:
		return x.Comment
	case *ssa.BinOp:
		return divisorName(x.X) + x.Op.String() + divisorName(x.Y)
	case *ssa.Const:
		return x.Value.ExactString()
	}
	return v.Name()
}
