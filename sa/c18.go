package main

// c18.go — C18 Glyphs not flagged unsafe-to-break are safe cut points (R-PROP, R-UTB/exists).

import (
	"fmt"
	"go/token"
	"sort"

	"golang.org/x/tools/go/ssa"
)

func init() {
	register(&propDef{id: "C18", run: runC18})
}

func runC18(p *Prog, r *Report) {
	r.Explain = append(r.Explain,
		"R-PROP: in shaperOpentype.shape propagateFlags is called on every path to the exit and nothing that may write GlyphInfo.Mask (P-FX) runs after it; in Buffer.setGlyphFlags the scratch flag bsfHasGlyphFlags, without which propagateFlags returns early, is set on every path before any mask is written.",
		"R-UTB/exists: every function of the OpenType layout engine that consults neighbouring glyphs through a context primitive (skippingIterator.next/prev, matchInput, matchBacktrack, matchLookahead) reaches, from each such call, a call that marks the inspected range (unsafeToBreak, unsafeToBreakFromOutbuffer, mergeClusters, mergeOutClusters, or a helper that does) — a lookup type that reads context and never marks it makes every boundary inside the context look safe.")
	ruleProp(p, r)
	ruleUTBExists(p, r)
	r.Assumptions = append(r.Assumptions, "AAT paths are excluded by the property", "that the marked range is the right one, and the script shapers' joining/reordering decisions, are NOT decided (upstream deliberately marks only some cases; a rule there would not be exact)")
	r.NotDecided = append(r.NotDecided, "that every decision depending on a neighbour marks exactly the glyphs it depended on", "fragment-shaping equality itself")
}

func ruleProp(p *Prog, r *Report) {
	const rule = "R-PROP"
	shape := p.Func("harfbuzz", "shaperOpentype", "shape")
	prop := p.Func("harfbuzz", "", "propagateFlags")
	fMask := p.Field("harfbuzz", "GlyphInfo", "Mask")
	key := p.FnName(shape) + "/propagateFlags"
	r.Instance(rule, key)
	ok, path := mustFollow(p, shape, entryPoint(shape), func(in ssa.Instruction) bool { return staticCallTo(in, prop) })
	r.Check(ok, rule, key, p.Pos(shape.Pos()), "propagateFlags runs on every path to the exit of shape", path...)
	fx := NewFX(p)
	fx.Run()
	idx, okIdx := fx.index[fMask]
	if !okIdx {
		undecided("R-PROP: GlyphInfo.Mask is not a tracked field")
	}
	key = p.FnName(shape) + "/no-mask-write-after"
	r.Instance(rule, key)
	bad := ""
	for _, pc := range callsOf(shape, prop) {
		hit, _ := reachableFrom(p, shape, after(pc), func(in ssa.Instruction) bool {
			if storesField(in, fMask) {
				return true
			}
			if c, ok := in.(ssa.CallInstruction); ok {
				for _, cal := range p.Callees(c) {
					if w, ok := fx.mayW[cal]; ok && w.has(idx) {
						return true
					}
				}
			}
			return false
		}, nil, nil)
		if hit != nil {
			bad = p.IPos(hit)
		}
	}
	r.Check(bad == "", rule, key, p.Pos(shape.Pos()), "nothing that may write GlyphInfo.Mask runs after propagateFlags (flags stay uniform within a cluster)"+pref(bad))
	// setGlyphFlags sets the scratch flag first
	sgf := p.Func("harfbuzz", "Buffer", "setGlyphFlags")
	fScr := p.Field("harfbuzz", "Buffer", "scratchFlags")
	key = p.FnName(sgf) + "/scratch-flag-first"
	r.Instance(rule, key)
	isSet := func(in ssa.Instruction) bool {
		st, ok := in.(*ssa.Store)
		if !ok || fieldOf(st.Addr) != fScr {
			return false
		}
		bo, ok := st.Val.(*ssa.BinOp)
		return ok && bo.Op == token.OR
	}
	okAll, n := true, 0
	for _, b := range sgf.Blocks {
		for _, in := range b.Instrs {
			writes := storesField(in, fMask)
			if c, ok := in.(ssa.CallInstruction); ok {
				for _, cal := range p.Callees(c) {
					if w, ok := fx.mayW[cal]; ok && w.has(idx) {
						writes = true
					}
				}
			}
			if !writes {
				continue
			}
			n++
			if ok, _ := mustPrecede(p, sgf, in, isSet, nil); !ok {
				okAll = false
			}
		}
	}
	r.Check(okAll && n > 0, rule, key, p.Pos(sgf.Pos()), fmt.Sprintf("all %d mask writes of setGlyphFlags are preceded by setting bsfHasGlyphFlags", n))
}

func ruleUTBExists(p *Prog, r *Report) {
	const rule = "R-UTB/exists"
	prims := map[*ssa.Function]bool{}
	for _, q := range []fnRef{{"harfbuzz", "skippingIterator", "next"}, {"harfbuzz", "skippingIterator", "prev"}, {"harfbuzz", "otApplyContext", "matchInput"}, {"harfbuzz", "otApplyContext", "matchBacktrack"}, {"harfbuzz", "otApplyContext", "matchLookahead"}} {
		prims[p.Func(q.pkg, q.recv, q.name)] = true
	}
	base := map[*ssa.Function]bool{}
	for _, q := range []fnRef{{"harfbuzz", "Buffer", "unsafeToBreak"}, {"harfbuzz", "Buffer", "unsafeToBreakFromOutbuffer"}, {"harfbuzz", "Buffer", "mergeClusters"}, {"harfbuzz", "Buffer", "mergeOutClusters"}, {"harfbuzz", "Buffer", "safeToInsertTatweel"}} {
		base[p.Func(q.pkg, q.recv, q.name)] = true
	}
	// marker functions: the base markers and every function that may call one (transitively, static calls)
	marks := map[*ssa.Function]bool{}
	for f := range base {
		marks[f] = true
	}
	for changed := true; changed; {
		changed = false
		for _, f := range p.ModFns() {
			if marks[f] || prims[f] || fnPkg(f) == nil || fnPkg(f).Path() != p.pkgPath("harfbuzz") {
				continue
			}
			for _, b := range f.Blocks {
				for _, in := range b.Instrs {
					if c, ok := in.(*ssa.Call); ok {
						if sc := c.Common().StaticCallee(); sc != nil && marks[sc] && !marks[f] {
							marks[f] = true
							changed = true
						}
					}
				}
			}
		}
	}
	n := 0
	var fs []*ssa.Function
	for _, f := range p.ModFns() {
		if fnPkg(f) != nil && fnPkg(f).Path() == p.pkgPath("harfbuzz") && !prims[f] {
			fs = append(fs, f)
		}
	}
	sort.Slice(fs, func(i, j int) bool { return fs[i].String() < fs[j].String() })
	for _, f := range fs {
		for _, b := range f.Blocks {
			for _, in := range b.Instrs {
				c, ok := in.(*ssa.Call)
				if !ok || c.Common().StaticCallee() == nil || !prims[c.Common().StaticCallee()] {
					continue
				}
				n++
				key := fmt.Sprintf("%s/%s", p.FnName(f), c.Common().StaticCallee().Name())
				r.Instance(rule, key)
				hit, _ := reachableFrom(p, f, after(c), func(x ssa.Instruction) bool {
					if cc, ok := x.(*ssa.Call); ok {
						if sc := cc.Common().StaticCallee(); sc != nil && marks[sc] {
							return true
						}
					}
					return false
				}, nil, nil)
				// a function that only forwards the primitive's verdict to its caller (the caller marks) is fine when the caller does
				if hit == nil && forwardsOnly(p, f, marks, prims) {
					r.OK(rule, key, p.IPos(c), "returns the match to callers that all mark the range")
					continue
				}
				r.Check(hit != nil, rule, key, p.IPos(c), "a marking call (unsafeToBreak*, mergeClusters*, or a helper reaching one) is reachable after this context read")
			}
		}
	}
	r.Floor(rule, n, 11)
}

// forwardsOnly: every in-module caller of f reaches a marker after calling f.
func forwardsOnly(p *Prog, f *ssa.Function, marks, prims map[*ssa.Function]bool) bool {
	n := p.CG().Nodes[f]
	if n == nil || len(n.In) == 0 {
		return false
	}
	for _, e := range n.In {
		if e.Site == nil {
			return false
		}
		cf := e.Caller.Func
		hit, _ := reachableFrom(p, cf, after(e.Site), func(x ssa.Instruction) bool {
			if cc, ok := x.(*ssa.Call); ok {
				if sc := cc.Common().StaticCallee(); sc != nil && marks[sc] {
					return true
				}
			}
			return false
		}, nil, nil)
		if hit == nil {
			return false
		}
	}
	return true
}
