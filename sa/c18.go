package main

// c18.go — C18 Glyphs not flagged unsafe-to-break are safe cut points (R-PROP, R-UTB/exists).

import (
	"fmt"
	"go/constant"
	"go/token"
	"go/types"
	"os"
	"sort"

	"golang.org/x/tools/go/ssa"
)

func init() {
	register(&propDef{id: "C18", run: runC18, controls: controlsC18})
}

func runC18(p *Prog, r *Report) {
	r.Explain = append(r.Explain,
		"R-PROP: in shaperOpentype.shape propagateFlags is called on every path to the exit and nothing that may write GlyphInfo.Mask (P-FX) runs after it; in Buffer.setGlyphFlags the scratch flag bsfHasGlyphFlags, without which propagateFlags returns early, is set on every path before any mask is written.",
		"R-UTB/exists: every function of the OpenType layout engine that consults neighbouring glyphs through a context primitive (skippingIterator.next/prev, matchInput, matchBacktrack, matchLookahead) reaches, from each such call, a call that marks the inspected range (unsafeToBreak, unsafeToBreakFromOutbuffer, mergeClusters, mergeOutClusters, or a helper that does) — a lookup type that reads context and never marks it makes every boundary inside the context look safe.",
		"R-UTB/must: in those functions, when they return a bool, no path from the context read to a constant `return true` (the lookup applied) within the same loop iteration avoids every marking call.",
		"R-MINCL: in Buffer.setGlyphFlags the cluster exempted from an interior flag is the result of a findMinCluster chain over exactly the (slice, start, end) ranges that receive the flag — in a buffer whose clusters run backwards the smallest cluster is not the first one.")
	ruleProp(p, r)
	ruleUTBExists(p, r)
	ruleMinCluster(p, r)
	r.Explain = append(r.Explain,
		"R-UTB/syllables: every function that calls a syllable finder (a function assigning `serial<<4 | type` to GlyphInfo.syllable through a callee) iterates over the syllables on every path and flags each of them whole with unsafeToBreak(start, end), start and end being the two results of syllableIterator.next(): the four syllabic shapers reorder and substitute inside a syllable, so every boundary inside one is unsafe.",
		"R-UTB/halfopen: unsafeToBreak(start, end) flags [start, end); no function flags such a range and stores into a field of the glyph at index `end` itself (the glyph it rewrites would be left out of the range).",
		"R-UTB/cursor: a marking call whose range starts at the cursor (Buffer.idx ± k) is not preceded, inside the same iteration of the loop that contains it, by an instruction that may move the cursor (a store to Buffer.idx or a call that may write it, P-FX): after nextGlyph or replaceGlyphs the cursor designates another glyph.")
	utb := utbCfg{pkg: "harfbuzz", buffer: "Buffer", mark: "unsafeToBreak", iter: "syllableIterator", next: "next", info: "GlyphInfo", syllable: "syllable"}
	ruleUTBSyllables(p, r, utb, 4)
	ruleUTBHalfOpen(p, r, utb, 20)
	{
		fx := NewFX(p)
		fx.Run()
		ruleUTBCursor(p, r, fx, utb, "idx", 6)
	}
	r.Assumptions = append(r.Assumptions, "AAT paths are excluded by the property", "that the marked range is the right one, and the script shapers' joining/reordering decisions, are NOT decided (upstream deliberately marks only some cases; a rule there would not be exact)")
	r.NotDecided = append(r.NotDecided, "that every decision depending on a neighbour marks exactly the glyphs it depended on", "fragment-shaping equality itself")
}

func ruleProp(p *Prog, r *Report) {
	const rule = "R-PROP"
	shape := p.Func("harfbuzz", "shaperOpentype", "shape")
	prop := p.Func("harfbuzz", "", "propagateFlags")
	fMask := p.Field("harfbuzz", "GlyphInfo", "Mask")
	key := p.FnName(shape) + "/propagateFlags"
	r.Instance(rule, key)
	ok, path := mustFollow(p, shape, entryPoint(shape), func(in ssa.Instruction) bool { return staticCallTo(in, prop) })
	r.Check(ok, rule, key, p.Pos(shape.Pos()), "propagateFlags runs on every path to the exit of shape", path...)
	fx := NewFX(p)
	fx.Run()
	idx, okIdx := fx.index[fMask]
	if !okIdx {
		undecided("R-PROP: GlyphInfo.Mask is not a tracked field")
	}
	key = p.FnName(shape) + "/no-mask-write-after"
	r.Instance(rule, key)
	bad := ""
	for _, pc := range callsOf(shape, prop) {
		hit, _ := reachableFrom(p, shape, after(pc), func(in ssa.Instruction) bool {
			if storesField(in, fMask) {
				return true
			}
			if c, ok := in.(ssa.CallInstruction); ok {
				for _, cal := range p.Callees(c) {
					if w, ok := fx.mayW[cal]; ok && w.has(idx) {
						return true
					}
				}
			}
			return false
		}, nil, nil)
		if hit != nil {
			bad = p.IPos(hit)
		}
	}
	r.Check(bad == "", rule, key, p.Pos(shape.Pos()), "nothing that may write GlyphInfo.Mask runs after propagateFlags (flags stay uniform within a cluster)"+pref(bad))
	// setGlyphFlags sets the scratch flag first
	sgf := p.Func("harfbuzz", "Buffer", "setGlyphFlags")
	fScr := p.Field("harfbuzz", "Buffer", "scratchFlags")
	key = p.FnName(sgf) + "/scratch-flag-first"
	r.Instance(rule, key)
	isSet := func(in ssa.Instruction) bool {
		st, ok := in.(*ssa.Store)
		if !ok || fieldOf(st.Addr) != fScr {
			return false
		}
		bo, ok := st.Val.(*ssa.BinOp)
		return ok && bo.Op == token.OR
	}
	okAll, n := true, 0
	for _, b := range sgf.Blocks {
		for _, in := range b.Instrs {
			writes := storesField(in, fMask)
			if c, ok := in.(ssa.CallInstruction); ok {
				for _, cal := range p.Callees(c) {
					if w, ok := fx.mayW[cal]; ok && w.has(idx) {
						writes = true
					}
				}
			}
			if !writes {
				continue
			}
			n++
			if ok, _ := mustPrecede(p, sgf, in, isSet, nil); !ok {
				okAll = false
			}
		}
	}
	r.Check(okAll && n > 0, rule, key, p.Pos(sgf.Pos()), fmt.Sprintf("all %d mask writes of setGlyphFlags are preceded by setting bsfHasGlyphFlags", n))
}

func ruleUTBExists(p *Prog, r *Report) {
	const rule = "R-UTB/exists"
	prims := map[*ssa.Function]bool{}
	for _, q := range []fnRef{{"harfbuzz", "skippingIterator", "next"}, {"harfbuzz", "skippingIterator", "prev"}, {"harfbuzz", "otApplyContext", "matchInput"}, {"harfbuzz", "otApplyContext", "matchBacktrack"}, {"harfbuzz", "otApplyContext", "matchLookahead"}} {
		prims[p.Func(q.pkg, q.recv, q.name)] = true
	}
	base := map[*ssa.Function]bool{}
	for _, q := range []fnRef{{"harfbuzz", "Buffer", "unsafeToBreak"}, {"harfbuzz", "Buffer", "unsafeToBreakFromOutbuffer"}, {"harfbuzz", "Buffer", "mergeClusters"}, {"harfbuzz", "Buffer", "mergeOutClusters"}, {"harfbuzz", "Buffer", "safeToInsertTatweel"}} {
		base[p.Func(q.pkg, q.recv, q.name)] = true
	}
	// marker functions: the base markers and every function that may call one (transitively, static calls)
	marks := map[*ssa.Function]bool{}
	for f := range base {
		marks[f] = true
	}
	for changed := true; changed; {
		changed = false
		for _, f := range p.ModFns() {
			if marks[f] || prims[f] || fnPkg(f) == nil || fnPkg(f).Path() != p.pkgPath("harfbuzz") {
				continue
			}
			for _, b := range f.Blocks {
				for _, in := range b.Instrs {
					if c, ok := in.(*ssa.Call); ok {
						if sc := c.Common().StaticCallee(); sc != nil && marks[sc] && !marks[f] {
							marks[f] = true
							changed = true
						}
					}
				}
			}
		}
	}
	n, nMust := 0, 0
	var fs []*ssa.Function
	for _, f := range p.ModFns() {
		if fnPkg(f) != nil && fnPkg(f).Path() == p.pkgPath("harfbuzz") && !prims[f] {
			fs = append(fs, f)
		}
	}
	sort.Slice(fs, func(i, j int) bool { return fs[i].String() < fs[j].String() })
	for _, f := range fs {
		for _, b := range f.Blocks {
			for _, in := range b.Instrs {
				c, ok := in.(*ssa.Call)
				if !ok || c.Common().StaticCallee() == nil || !prims[c.Common().StaticCallee()] {
					continue
				}
				n++
				key := fmt.Sprintf("%s/%s", p.FnName(f), c.Common().StaticCallee().Name())
				r.Instance(rule, key)
				hit, _ := reachableFrom(p, f, after(c), func(x ssa.Instruction) bool {
					if cc, ok := x.(*ssa.Call); ok {
						if sc := cc.Common().StaticCallee(); sc != nil && marks[sc] {
							return true
						}
					}
					return false
				}, nil, nil)
				// a function that only forwards the primitive's verdict to its caller (the caller marks) is fine when the caller does
				if hit == nil && forwardsOnly(p, f, marks, prims) {
					r.OK(rule, key, p.IPos(c), "returns the match to callers that all mark the range")
					continue
				}
				r.Check(hit != nil, rule, key, p.IPos(c), "a marking call (unsafeToBreak*, mergeClusters*, or a helper reaching one) is reachable after this context read")
				if hit == nil || os.Getenv("VSA_NO_UTBMUST") != "" {
					continue
				}
				// R-UTB/must: no path from the context read to a `return true` (the lookup applied) avoids every marking call
				res := f.Signature.Results()
				if res.Len() != 1 || !types.Identical(res.At(0).Type().Underlying(), types.Typ[types.Bool]) {
					continue
				}
				key2 := key
				r.Instance("R-UTB/must", key2)
				isMark := func(x ssa.Instruction) bool {
					if cc, ok := x.(*ssa.Call); ok {
						if sc := cc.Common().StaticCallee(); sc != nil && marks[sc] {
							return true
						}
					}
					return false
				}
				if why, ok := utbMustReviewed[key2]; ok {
					r.OK("R-UTB/must", key2, p.IPos(c), "reviewed: "+why)
					nMust++
					continue
				}
				// a path that takes the back edge of a loop containing the read belongs to another iteration (another
				// candidate rule / ligature), whose own reads are separate instances
				var loops []*natLoop
				for _, l := range naturalLoops(f) {
					if l.blocks[c.Block()] {
						loops = append(loops, l)
					}
				}
				cutBack := func(from, to *ssa.BasicBlock) bool {
					for _, l := range loops {
						if to == l.header && l.blocks[from] {
							return true
						}
					}
					return false
				}
				ret, path := reachableFrom(p, f, after(c), func(x ssa.Instruction) bool {
					rt, ok := x.(*ssa.Return)
					if !ok || len(rt.Results) != 1 {
						return false
					}
					k, isC := rt.Results[0].(*ssa.Const)
					return isC && k.Value != nil && constant.BoolVal(k.Value)
				}, isMark, cutBack)
				nMust++
				if ret == nil {
					r.OK("R-UTB/must", key2, p.IPos(c), "every path from this context read to `return true` passes through a marking call")
				} else {
					r.Bad("R-UTB/must", key2, p.IPos(ret), fmt.Sprintf("%s reports that the lookup applied (`return true`) on a path from the context read at %s that passes through no marking call (unsafeToBreak*, mergeClusters*): a boundary inside the matched context stays flagged safe", p.FnName(f), p.IPos(c)), path...)
				}
			}
		}
	}
	r.Floor(rule, n, 11)
	r.Floor("R-UTB/must", nMust, 6)
}

// utbMustReviewed: instances of R-UTB/must decided by reading, one symbol each.
var utbMustReviewed = map[string]string{
	"(*harfbuzz.otApplyContext).applyGPOS/next": "the only path from the successful next() to the final `return true` is the fall-through of the inner type switch over PairPosData1/PairPosData2, taken by no value the parser produces; both cases return the verdict of applyGPOSPair1/2, which are instances themselves",
}

// forwardsOnly: every in-module caller of f reaches a marker after calling f.
func forwardsOnly(p *Prog, f *ssa.Function, marks, prims map[*ssa.Function]bool) bool {
	n := p.CG().Nodes[f]
	if n == nil || len(n.In) == 0 {
		return false
	}
	for _, e := range n.In {
		if e.Site == nil {
			return false
		}
		cf := e.Caller.Func
		hit, _ := reachableFrom(p, cf, after(e.Site), func(x ssa.Instruction) bool {
			if cc, ok := x.(*ssa.Call); ok {
				if sc := cc.Common().StaticCallee(); sc != nil && marks[sc] {
					return true
				}
			}
			return false
		}, nil, nil)
		if hit == nil {
			return false
		}
	}
	return true
}

// ---- R-MINCL ---------------------------------------------------------------------------------------------------------

// sameExpr: two SSA values that denote the same quantity at the same program point family: the same value, two loads of the
// same location, two len() of the same expression.
func sameExpr(a, b ssa.Value) bool {
	if a == b || sameSource(a, b) {
		return true
	}
	ca, ok1 := a.(*ssa.Call)
	cb, ok2 := b.(*ssa.Call)
	if ok1 && ok2 {
		ba, okA := ca.Common().Value.(*ssa.Builtin)
		bb, okB := cb.Common().Value.(*ssa.Builtin)
		if okA && okB && ba.Name() == bb.Name() && len(ca.Common().Args) == 1 && len(cb.Common().Args) == 1 {
			return sameExpr(ca.Common().Args[0], cb.Common().Args[0])
		}
	}
	if k1, ok := intConst(a); ok {
		if k2, ok := intConst(b); ok {
			return k1 == k2
		}
	}
	return false
}

// ruleMinCluster: in Buffer.setGlyphFlags (interior mode) the cluster that is exempted from the flag is the minimum over
// exactly the ranges that receive the flag: the cluster argument of every infosSetGlyphFlags call is the result of a chain
// of findMinCluster calls (each seeded with the previous result, the first with a constant), and the (slice, start, end)
// triples of the chain are the triples of all the infosSetGlyphFlags calls that consume that value.
func ruleMinCluster(p *Prog, r *Report) {
	setF := p.Func("harfbuzz", "Buffer", "infosSetGlyphFlags")
	minF := p.Func("harfbuzz", "Buffer", "findMinCluster")
	n := 0
	// every function of the package that flags ranges in interior mode (setGlyphFlags, or the pieces it is split into)
	for _, f := range p.ModFns() {
		if fnPkg(f) == nil || fnPkg(f).Path() != p.pkgPath("harfbuzz") || f == setF {
			continue
		}
		n += ruleMinClusterIn(p, r, f, setF, minF)
	}
	r.Floor("R-MINCL", n, 2)
}

func ruleMinClusterIn(p *Prog, r *Report, f, setF, minF *ssa.Function) int {
	const rule = "R-MINCL"
	type triple struct{ s, a, b ssa.Value }
	users := map[ssa.Value][]triple{}
	var order []ssa.Value
	var sites = map[ssa.Value]ssa.Instruction{}
	for _, blk := range f.Blocks {
		for _, in := range blk.Instrs {
			c, ok := in.(*ssa.Call)
			if !ok || c.Common().StaticCallee() != setF {
				continue
			}
			a := c.Common().Args // recv, infos, start, end, cluster, mask
			if len(a) != 6 {
				undecided("R-MINCL: infosSetGlyphFlags no longer has the shape (infos, start, end, cluster, mask)")
			}
			if _, seen := users[a[4]]; !seen {
				order = append(order, a[4])
				sites[a[4]] = in
			}
			users[a[4]] = append(users[a[4]], triple{a[1], a[2], a[3]})
		}
	}
	n := 0
	for i, cl := range order {
		n++
		key := fmt.Sprintf("%s/cluster#%d", p.FnName(f), i)
		r.Instance(rule, key)
		var chain []triple
		v := cl
		okChain := true
		why := ""
		for depth := 0; ; depth++ {
			if _, isC := v.(*ssa.Const); isC {
				break
			}
			c, ok := v.(*ssa.Call)
			if !ok || c.Common().StaticCallee() != minF || depth > 8 {
				okChain = false
				why = fmt.Sprintf("the exempted cluster is %s, which is not the result of findMinCluster", v.String())
				break
			}
			a := c.Common().Args // recv, infos, start, end, cluster
			if len(a) != 5 {
				undecided("R-MINCL: findMinCluster no longer has the shape (infos, start, end, cluster)")
			}
			chain = append(chain, triple{a[1], a[2], a[3]})
			v = a[4]
		}
		if okChain {
			match := func(x, y []triple) bool {
				for _, t := range x {
					found := false
					for _, u := range y {
						if sameExpr(t.s, u.s) && sameExpr(t.a, u.a) && sameExpr(t.b, u.b) {
							found = true
						}
					}
					if !found {
						return false
					}
				}
				return true
			}
			if !match(users[cl], chain) {
				okChain = false
				why = "a range that receives the flag is not among the ranges over which the minimum cluster is taken"
			} else if !match(chain, users[cl]) {
				okChain = false
				why = "the minimum cluster is taken over a range that does not receive the flag"
			}
		}
		r.Check(okChain, rule, key, p.IPos(sites[cl]), "the cluster exempted from the flag is the minimum (findMinCluster chain) over exactly the ranges that are flagged"+pref(why))
	}
	return n
}
