package main

// rnil.go — R-NIL: no method is invoked on an interface value that a NULL offset leaves nil.
//
// The generated parsers of font/opentype/tables skip a zero offset ("ignore null offset"): the interface-typed field
// (Coverage, ClassDef, AATLookup, …) or the element of a slice of interfaces behind it stays nil and the table is accepted.
// The rule finds these fields in the program itself (NULLABLE: every store of a parser to the field, or to an element of the
// slice field, is control-dependent on a `offset != 0` test), closes the set under field-to-field copies, and requires of
// every invoke-mode call of the module whose receiver may be a load of such a field one of
//   (g) a guard: the call is dominated by the non-nil branch of a nil test of the same field (directly, through a boolean
//       that only ever caches such a test, or in every caller when the receiver is rooted at a parameter);
//   (r) rejection: a called function tests the field against nil and every path of its nil branch returns an error (the
//       sanitizer idiom; assumed to be applied to every loaded instance);
//   (f) normalisation: the field belongs to a type only reachable from the GSUB/GPOS lookup interfaces, every such field has
//       a never-nil store in the fill functions (exhaustiveness), and every value of these interfaces is created in a
//       function that hands it out through the fill function (R-NIL/fill).
// It decides nothing about nil pointers, maps, or interfaces declared outside font/opentype/tables.

import (
	"fmt"
	"go/token"
	"go/types"
	"sort"
	"strings"

	"golang.org/x/tools/go/ssa"
)

type nilAnalysis struct {
	p        *Prog
	tables   string
	nullable map[*types.Var]string // field -> position of a conditional store
	derived  map[*types.Var]string // field -> "copied from <field>"
	filled   map[*types.Var]string // field -> fill function storing a never-nil value
	rejected map[*types.Var]string // field -> load-time function returning an error when the field is nil
	flags    map[*types.Var]*types.Var
	callers  map[*ssa.Function][]ssa.CallInstruction
	closures map[*ssa.Function][]*ssa.MakeClosure
	neverNil map[*ssa.Function]bool
}

func isIfaceOrSliceOfIface(t types.Type) bool {
	if _, ok := t.Underlying().(*types.Interface); ok {
		return true
	}
	if s, ok := t.Underlying().(*types.Slice); ok {
		_, ok := s.Elem().Underlying().(*types.Interface)
		return ok
	}
	return false
}

// nonZeroRegion: the block is dominated by the branch of an If that is taken when an integer is not zero.
func nonZeroRegion(b *ssa.BasicBlock) bool {
	for _, c := range b.Parent().Blocks {
		ifi := ifOf(c)
		if ifi == nil {
			continue
		}
		bo, ok := ifi.Cond.(*ssa.BinOp)
		if !ok || bo.Op != token.NEQ && bo.Op != token.EQL {
			continue
		}
		k, ok := bo.Y.(*ssa.Const)
		if !ok {
			k, ok = bo.X.(*ssa.Const)
		}
		if !ok || k.Value == nil || k.Value.String() != "0" {
			continue
		}
		if bt, ok := k.Type().Underlying().(*types.Basic); !ok || bt.Info()&types.IsInteger == 0 {
			continue
		}
		succ := c.Succs[0]
		if bo.Op == token.EQL {
			succ = c.Succs[1]
		}
		if len(succ.Preds) == 1 && succ.Dominates(b) {
			return true
		}
	}
	return false
}

func isParserFn(f *ssa.Function) bool {
	n := strings.ToLower(f.Name())
	return strings.HasPrefix(n, "parse")
}

// storedIfaceField: the interface (or slice-of-interface element) field a store writes, if any.
func storedIfaceField(st *ssa.Store) *types.Var {
	switch a := st.Addr.(type) {
	case *ssa.FieldAddr:
		f := fieldOf(a)
		if f != nil {
			if _, ok := f.Type().Underlying().(*types.Interface); ok {
				return f
			}
		}
	case *ssa.IndexAddr:
		if _, ok := deref(a.Type()).Underlying().(*types.Interface); !ok {
			return nil
		}
		ch, _ := fieldChain(a.X, 0)
		if len(ch) > 0 {
			return ch[len(ch)-1]
		}
	}
	return nil
}

func newNilAnalysis(p *Prog, tablesPkg string) *nilAnalysis {
	na := &nilAnalysis{p: p, tables: tablesPkg, nullable: map[*types.Var]string{}, derived: map[*types.Var]string{},
		filled: map[*types.Var]string{}, rejected: map[*types.Var]string{}, flags: map[*types.Var]*types.Var{}, callers: map[*ssa.Function][]ssa.CallInstruction{},
		closures: map[*ssa.Function][]*ssa.MakeClosure{}, neverNil: map[*ssa.Function]bool{}}
	// NULLABLE
	cond := map[*types.Var]string{}
	uncond := map[*types.Var]bool{}
	for _, f := range p.ModFns() {
		if fnPkg(f) == nil || fnPkg(f).Path() != na.tables || !isParserFn(f) {
			continue
		}
		for _, b := range f.Blocks {
			for _, in := range b.Instrs {
				st, ok := in.(*ssa.Store)
				if !ok {
					continue
				}
				fv := storedIfaceField(st)
				if fv == nil {
					continue
				}
				if nonZeroRegion(b) {
					if cond[fv] == "" {
						cond[fv] = p.IPos(in)
					}
				} else {
					uncond[fv] = true
				}
			}
		}
	}
	for fv, pos := range cond {
		if !uncond[fv] {
			na.nullable[fv] = pos
		}
	}
	// call graph indexes
	for _, f := range p.ModFns() {
		for _, b := range f.Blocks {
			for _, in := range b.Instrs {
				switch x := in.(type) {
				case ssa.CallInstruction:
					for _, g := range p.Callees(x) {
						na.callers[g] = append(na.callers[g], x)
					}
				case *ssa.MakeClosure:
					if g, ok := x.Fn.(*ssa.Function); ok {
						na.closures[g] = append(na.closures[g], x)
					}
				}
			}
		}
	}
	// never-nil functions: every returned value (first result of interface type) is a MakeInterface or a parameter on a path
	// where it was tested non-nil
	for _, f := range p.ModFns() {
		if fnPkg(f) == nil || fnPkg(f).Path() != na.tables || f.Signature.Results().Len() != 1 {
			continue
		}
		if _, ok := f.Signature.Results().At(0).Type().Underlying().(*types.Interface); !ok {
			continue
		}
		ok := len(f.Blocks) > 0
		for _, b := range f.Blocks {
			for _, in := range b.Instrs {
				if ret, isRet := in.(*ssa.Return); isRet {
					if !na.nonNilAt(ret.Results[0], ret, 0) {
						ok = false
					}
				}
			}
		}
		if ok {
			na.neverNil[f] = true
		}
	}
	// flags: boolean fields/locals only ever assigned `<nullable field> != nil`
	na.findFlags()
	// DERIVED: field-to-field copies (fixpoint) and FILLED
	for changed := true; changed; {
		changed = false
		for _, f := range p.ModFns() {
			for _, b := range f.Blocks {
				for _, in := range b.Instrs {
					st, ok := in.(*ssa.Store)
					if !ok {
						continue
					}
					fv := storedIfaceField(st)
					if fv == nil || na.nullable[fv] != "" {
						continue
					}
					if src := na.nullableSource(st.Val, 0); src != nil && na.derived[fv] == "" && !na.nonNilAt(st.Val, st, 0) {
						na.derived[fv] = "copied from " + src.Name() + " at " + p.IPos(in)
						changed = true
					}
				}
			}
		}
	}
	// rejected: a called function of the package of the tables, or of its importers at load time, tests the field against nil
	// and every path of the nil branch returns an error (the sanitizer idiom: the font is refused)
	for _, f := range p.ModFns() {
		if len(na.callers[f]) == 0 || errIndex(f) < 0 {
			continue
		}
		for _, b := range f.Blocks {
			ifi := ifOf(b)
			if ifi == nil {
				continue
			}
			x, neq, ok := nilTest(ifi.Cond)
			if !ok {
				continue
			}
			ch, _ := fieldChain(x, 0)
			if len(ch) == 0 || !na.isNullable(ch[len(ch)-1]) {
				continue
			}
			nilSucc := b.Succs[0]
			if neq {
				nilSucc = b.Succs[1]
			}
			if len(nilSucc.Preds) == 1 && failingEdge(f, nilSucc, nil) {
				na.rejected[ch[len(ch)-1]] = p.FnName(f)
			}
		}
	}
	// slice fillers: functions storing a never-nil value into the elements of a slice parameter, inside a loop over it
	sliceFiller := map[*ssa.Function]int{}
	for _, f := range p.ModFns() {
		if fnPkg(f) == nil || fnPkg(f).Path() != na.tables || isParserFn(f) {
			continue
		}
		for _, b := range f.Blocks {
			for _, in := range b.Instrs {
				st, ok := in.(*ssa.Store)
				if !ok {
					continue
				}
				ia, ok := st.Addr.(*ssa.IndexAddr)
				if !ok {
					continue
				}
				par, ok := ia.X.(*ssa.Parameter)
				if !ok || !na.nonNilAt(st.Val, st, 0) || !rangesOver(ia.Index, par) {
					continue
				}
				for i, pa := range f.Params {
					if pa == par {
						sliceFiller[f] = i
					}
				}
			}
		}
	}
	for _, f := range p.ModFns() {
		if fnPkg(f) == nil || fnPkg(f).Path() != na.tables || isParserFn(f) {
			continue
		}
		for _, b := range f.Blocks {
			for _, in := range b.Instrs {
				switch x := in.(type) {
				case *ssa.Store:
					fv := storedIfaceField(x)
					if fv != nil && na.nullable[fv] != "" && na.nonNilAt(x.Val, x, 0) {
						na.filled[fv] = p.FnName(f)
					}
				case *ssa.Call:
					sc := x.Call.StaticCallee()
					if sc == nil {
						continue
					}
					if i, ok := sliceFiller[sc]; ok && i < len(x.Call.Args) {
						ch, _ := fieldChain(x.Call.Args[i], 0)
						if len(ch) > 0 && na.nullable[ch[len(ch)-1]] != "" {
							na.filled[ch[len(ch)-1]] = p.FnName(f) + " (" + sc.Name() + ")"
						}
					}
				}
			}
		}
	}
	return na
}

// rangesOver: idx is the index variable of a loop running over the whole slice (0, 1, … while idx < len(slice)).
// rangesOver: idx is the index variable of a loop running over the whole slice.
func rangesOver(idx ssa.Value, slice ssa.Value) bool {
	idx = stripConv(idx)
	var phi *ssa.Phi
	var inc *ssa.BinOp
	switch x := idx.(type) {
	case *ssa.Phi: // for i := 0; i < len(s); i++
		phi = x
	case *ssa.BinOp: // range loops use idx+1 in the body
		inc = x
		phi, _ = x.X.(*ssa.Phi)
	}
	if phi == nil || len(phi.Edges) != 2 {
		return false
	}
	start, okS := phi.Edges[0].(*ssa.Const)
	if !okS || start.Value == nil {
		return false
	}
	step, ok := phi.Edges[1].(*ssa.BinOp)
	if !ok || step.Op != token.ADD || step.X != ssa.Value(phi) || inc != nil && inc != step {
		return false
	}
	if k, ok := step.Y.(*ssa.Const); !ok || k.Value == nil || k.Value.String() != "1" {
		return false
	}
	want := "0"
	if inc != nil {
		want = "-1"
	}
	if start.Value.String() != want {
		return false
	}
	isLen := func(v ssa.Value) bool {
		c, ok := v.(*ssa.Call)
		if !ok {
			return false
		}
		bi, ok := c.Call.Value.(*ssa.Builtin)
		return ok && bi.Name() == "len" && len(c.Call.Args) == 1 && c.Call.Args[0] == slice
	}
	for _, b := range phi.Block().Parent().Blocks {
		ifi := ifOf(b)
		if ifi == nil {
			continue
		}
		bo, ok := ifi.Cond.(*ssa.BinOp)
		if !ok || bo.Op != token.LSS || bo.X != idx || !isLen(bo.Y) {
			continue
		}
		return true
	}
	return false
}

// isNullable: the field may hold nil (directly or by copy).
func (na *nilAnalysis) isNullable(f *types.Var) bool {
	return na.nullable[f] != "" || na.derived[f] != ""
}

// nullableSource: v is (a copy of) a load of a nullable field.
func (na *nilAnalysis) nullableSource(v ssa.Value, d int) *types.Var {
	if d > 6 {
		return nil
	}
	switch x := v.(type) {
	case *ssa.ChangeInterface:
		return na.nullableSource(x.X, d+1)
	case *ssa.ChangeType:
		return na.nullableSource(x.X, d+1)
	case *ssa.Phi:
		for _, e := range x.Edges {
			if s := na.nullableSource(e, d+1); s != nil {
				return s
			}
		}
		return nil
	}
	if _, ok := v.Type().Underlying().(*types.Interface); !ok {
		if _, ok := v.Type().Underlying().(*types.Slice); !ok {
			return nil
		}
	}
	ch, _ := fieldChain(v, 0)
	if len(ch) > 0 && na.isNullable(ch[len(ch)-1]) && isIfaceOrSliceOfIface(ch[len(ch)-1].Type()) {
		return ch[len(ch)-1]
	}
	return nil
}

// nilTest: cond is `x != nil` (neq=true) or `x == nil` for an interface x; returns x.
func nilTest(cond ssa.Value) (x ssa.Value, neq bool, ok bool) {
	bo, isBo := cond.(*ssa.BinOp)
	if !isBo || bo.Op != token.NEQ && bo.Op != token.EQL {
		return nil, false, false
	}
	if k, isK := bo.Y.(*ssa.Const); isK && k.Value == nil {
		if _, isI := bo.X.Type().Underlying().(*types.Interface); isI {
			return bo.X, bo.Op == token.NEQ, true
		}
	}
	if k, isK := bo.X.(*ssa.Const); isK && k.Value == nil {
		if _, isI := bo.Y.Type().Underlying().(*types.Interface); isI {
			return bo.Y, bo.Op == token.NEQ, true
		}
	}
	return nil, false, false
}

// sameLoad: two values denote the same storage read (same SSA value, or loads through identical field chains from the same root).
func sameLoad(a, b ssa.Value) bool {
	if a == b {
		return true
	}
	ca, ra := fieldChain(a, 0)
	cb, rb := fieldChain(b, 0)
	if len(ca) == 0 || len(ca) != len(cb) || ra != rb {
		return false
	}
	for i := range ca {
		if ca[i] != cb[i] {
			return false
		}
	}
	// element of a slice: the indexes must be the same value
	ia, ib := indexOf(a), indexOf(b)
	return ia == ib
}

func indexOf(v ssa.Value) ssa.Value {
	switch x := v.(type) {
	case *ssa.UnOp:
		if x.Op == token.MUL {
			return indexOf(x.X)
		}
	case *ssa.IndexAddr:
		return stripConv(x.Index)
	case *ssa.Index:
		return stripConv(x.Index)
	}
	return nil
}

// condImpliesNonNil: when cond has the given truth value, v is not nil. Handles &&/|| lowered to phis of conditions only
// through the dominating If of each operand (SSA lowers short-circuits into control flow).
func (na *nilAnalysis) condNonNil(cond ssa.Value, truth bool, v ssa.Value) bool {
	if x, neq, ok := nilTest(cond); ok {
		return neq == truth && sameLoad(x, v)
	}
	if u, ok := cond.(*ssa.UnOp); ok && u.Op == token.NOT {
		return na.condNonNil(u.X, !truth, v)
	}
	// cached flag: a boolean loaded from a field/local that only ever stores `<field> != nil`
	if truth {
		ch, _ := fieldChain(cond, 0)
		if len(ch) > 0 {
			if f := na.flags[ch[len(ch)-1]]; f != nil {
				cv, _ := fieldChain(v, 0)
				return len(cv) > 0 && cv[len(cv)-1] == f
			}
		}
		if a := localFlag(cond); a != nil {
			if x, neq, ok := nilTest(a); ok && neq {
				cx, _ := fieldChain(x, 0)
				cv, _ := fieldChain(v, 0)
				return len(cx) > 0 && len(cv) > 0 && cx[len(cx)-1] == cv[len(cv)-1]
			}
		}
	}
	return false
}

// localFlag: cond is an SSA value directly computed by a comparison (a local `has := x != nil`).
func localFlag(cond ssa.Value) ssa.Value {
	if bo, ok := cond.(*ssa.BinOp); ok {
		return bo
	}
	return nil
}

// guardedAt: the instruction is dominated by a branch on which v is not nil.
func (na *nilAnalysis) guardedAt(v ssa.Value, at ssa.Instruction) bool {
	b := at.Block()
	for _, c := range b.Parent().Blocks {
		ifi := ifOf(c)
		if ifi == nil {
			continue
		}
		for i, truth := range []bool{true, false} {
			succ := c.Succs[i]
			if len(succ.Preds) == 1 && succ.Dominates(b) && na.condNonNil(ifi.Cond, truth, v) {
				return true
			}
		}
	}
	return false
}

func (na *nilAnalysis) findFlags() {
	cand := map[*types.Var]*types.Var{}
	bad := map[*types.Var]bool{}
	for _, f := range na.p.ModFns() {
		for _, b := range f.Blocks {
			for _, in := range b.Instrs {
				st, ok := in.(*ssa.Store)
				if !ok {
					continue
				}
				fa, ok := st.Addr.(*ssa.FieldAddr)
				if !ok {
					continue
				}
				fv := fieldOf(fa)
				if fv == nil {
					continue
				}
				if bt, ok := fv.Type().Underlying().(*types.Basic); !ok || bt.Kind() != types.Bool {
					continue
				}
				x, neq, ok := nilTest(st.Val)
				if !ok || !neq {
					bad[fv] = true
					continue
				}
				ch, _ := fieldChain(x, 0)
				if len(ch) == 0 {
					bad[fv] = true
					continue
				}
				if cand[fv] != nil && cand[fv] != ch[len(ch)-1] {
					bad[fv] = true
				}
				cand[fv] = ch[len(ch)-1]
			}
		}
	}
	for fv, f := range cand {
		if !bad[fv] {
			na.flags[fv] = f
		}
	}
}

// nonNilAt: v is certainly not nil at the instruction (constructed there, result of a never-nil function, or guarded).
func (na *nilAnalysis) nonNilAt(v ssa.Value, at ssa.Instruction, d int) bool {
	if d > 6 {
		return false
	}
	switch x := v.(type) {
	case *ssa.MakeInterface:
		return true
	case *ssa.ChangeInterface:
		return na.nonNilAt(x.X, at, d+1)
	case *ssa.Call:
		if sc := x.Call.StaticCallee(); sc != nil && na.neverNil[sc] {
			return true
		}
	case *ssa.Phi:
		for _, e := range x.Edges {
			if !na.nonNilAt(e, at, d+1) {
				return false
			}
		}
		return true
	}
	return na.guardedAt(v, at)
}

type nilSink struct {
	fn    *ssa.Function
	call  ssa.CallInstruction
	field *types.Var // nullable field the receiver may come from
	why   string
}

// origins: the nullable fields the value may be a load of, looking through parameters (all callers), closures' free
// variables, call results and local copies; a path is cut where the value is known not to be nil.
func (na *nilAnalysis) origins(v ssa.Value, at ssa.Instruction, d int, seen map[ssa.Value]bool, out map[*types.Var]string, trail string) {
	if d > 8 || seen[v] {
		return
	}
	seen[v] = true
	if na.nonNilAt(v, at, 0) {
		return
	}
	if f := na.nullableSource(v, 0); f != nil {
		// a field load rooted at a parameter may be guarded in every caller
		if _, root := fieldChain(v, 0); root != nil {
			if par, ok := root.(*ssa.Parameter); ok && na.guardedInCallers(par, f, 0) {
				return
			}
		}
		if out[f] == "" {
			out[f] = trail
		}
		return
	}
	switch x := v.(type) {
	case *ssa.Parameter:
		fn := x.Parent()
		idx := -1
		for i, pa := range fn.Params {
			if pa == x {
				idx = i
			}
		}
		for _, c := range na.callers[fn] {
			args := c.Common().Args
			off := 0
			if c.Common().IsInvoke() {
				off = 1 // the receiver is not in Args
			}
			if idx-off >= 0 && idx-off < len(args) {
				na.origins(args[idx-off], c, d+1, seen, out, trail+" <- arg of "+na.p.FnName(c.Parent()))
			}
		}
	case *ssa.FreeVar:
		fn := x.Parent()
		idx := -1
		for i, fv := range fn.FreeVars {
			if fv == x {
				idx = i
			}
		}
		for _, mc := range na.closures[fn] {
			if idx >= 0 && idx < len(mc.Bindings) {
				na.origins(mc.Bindings[idx], mc, d+1, seen, out, trail+" <- closure in "+na.p.FnName(mc.Parent()))
			}
		}
	case *ssa.Call:
		for _, g := range na.p.Callees(x) {
			if na.neverNil[g] {
				continue
			}
			for _, b := range g.Blocks {
				for _, in := range b.Instrs {
					if ret, ok := in.(*ssa.Return); ok && len(ret.Results) > 0 {
						na.origins(ret.Results[0], ret, d+1, seen, out, trail+" <- result of "+na.p.FnName(g))
					}
				}
			}
		}
	case *ssa.Extract:
		if c, ok := x.Tuple.(*ssa.Call); ok {
			for _, g := range na.p.Callees(c) {
				for _, b := range g.Blocks {
					for _, in := range b.Instrs {
						if ret, ok := in.(*ssa.Return); ok && x.Index < len(ret.Results) {
							na.origins(ret.Results[x.Index], ret, d+1, seen, out, trail+" <- result of "+na.p.FnName(g))
						}
					}
				}
			}
		}
	case *ssa.Phi:
		for _, e := range x.Edges {
			na.origins(e, at, d+1, seen, out, trail)
		}
	case *ssa.ChangeInterface:
		na.origins(x.X, at, d+1, seen, out, trail)
	case *ssa.ChangeType:
		na.origins(x.X, at, d+1, seen, out, trail)
	case *ssa.UnOp:
		if x.Op == token.MUL {
			if al, ok := x.X.(*ssa.Alloc); ok {
				na.originsOfCell(al, d, seen, out, trail)
			}
			// a variable captured by reference: the cell is allocated where the closure is made
			if fv, ok := x.X.(*ssa.FreeVar); ok {
				fn := fv.Parent()
				for i, o := range fn.FreeVars {
					if o != fv {
						continue
					}
					for _, mc := range na.closures[fn] {
						if i < len(mc.Bindings) {
							if al, ok := mc.Bindings[i].(*ssa.Alloc); ok {
								na.originsOfCell(al, d, seen, out, trail+" <- captured in "+na.p.FnName(mc.Parent()))
							}
						}
					}
				}
			}
		}
	}
}

func (na *nilAnalysis) originsOfCell(al *ssa.Alloc, d int, seen map[ssa.Value]bool, out map[*types.Var]string, trail string) {
	if al.Referrers() == nil {
		return
	}
	for _, u := range *al.Referrers() {
		if st, ok := u.(*ssa.Store); ok && st.Addr == ssa.Value(al) {
			na.origins(st.Val, st, d+1, seen, out, trail)
		}
	}
}

// guardedInCallers: the function is only called where the field of the argument bound to par was tested non-nil.
func (na *nilAnalysis) guardedInCallers(par *ssa.Parameter, f *types.Var, d int) bool {
	fn := par.Parent()
	cs := na.callers[fn]
	if len(cs) == 0 || d > 3 {
		return false
	}
	for _, c := range cs {
		ok := false
		b := c.Block()
		for _, cb := range b.Parent().Blocks {
			ifi := ifOf(cb)
			if ifi == nil {
				continue
			}
			for i, truth := range []bool{true, false} {
				succ := cb.Succs[i]
				if len(succ.Preds) != 1 || !succ.Dominates(b) {
					continue
				}
				if na.condTestsField(ifi.Cond, truth, f) {
					ok = true
				}
			}
		}
		if !ok {
			return false
		}
	}
	return true
}

// condTestsField: cond (with the truth value) establishes that a load of field f is not nil (the instance is not matched).
func (na *nilAnalysis) condTestsField(cond ssa.Value, truth bool, f *types.Var) bool {
	if u, ok := cond.(*ssa.UnOp); ok && u.Op == token.NOT {
		return na.condTestsField(u.X, !truth, f)
	}
	if x, neq, ok := nilTest(cond); ok {
		ch, _ := fieldChain(x, 0)
		return neq == truth && len(ch) > 0 && ch[len(ch)-1] == f
	}
	if truth {
		ch, _ := fieldChain(cond, 0)
		if len(ch) > 0 && na.flags[ch[len(ch)-1]] == f {
			return true
		}
	}
	return false
}

// sinks: invoke-mode calls of the module whose receiver may be a nil left by a NULL offset.
func (na *nilAnalysis) sinks() (all int, risky []nilSink) {
	for _, f := range na.p.ModFns() {
		for _, b := range f.Blocks {
			for _, in := range b.Instrs {
				c, ok := in.(ssa.CallInstruction)
				if !ok || !c.Common().IsInvoke() {
					continue
				}
				nt, ok := c.Common().Value.Type().(*types.Named)
				if !ok || nt.Obj().Pkg() == nil || nt.Obj().Pkg().Path() != na.tables {
					continue
				}
				all++
				out := map[*types.Var]string{}
				na.origins(c.Common().Value, c, 0, map[ssa.Value]bool{}, out, "")
				var fs []*types.Var
				for fv := range out {
					fs = append(fs, fv)
				}
				sort.Slice(fs, func(i, j int) bool { return fs[i].Name() < fs[j].Name() })
				for _, fv := range fs {
					risky = append(risky, nilSink{fn: f, call: c, field: fv, why: out[fv]})
				}
			}
		}
	}
	return all, risky
}

func fieldOwner(p *Prog, f *types.Var) string {
	// the named struct type declaring the field
	if f.Pkg() == nil {
		return f.Name()
	}
	sc := f.Pkg().Scope()
	best, bestPos := "", token.NoPos
	for _, n := range sc.Names() {
		tn, ok := sc.Lookup(n).(*types.TypeName)
		if !ok {
			continue
		}
		st, ok := tn.Type().Underlying().(*types.Struct)
		if !ok {
			continue
		}
		for i := 0; i < st.NumFields(); i++ {
			if st.Field(i) == f && tn.Pos() < f.Pos() && tn.Pos() > bestPos {
				best, bestPos = n, tn.Pos()
			}
		}
	}
	if best != "" {
		return f.Pkg().Name() + "." + best + "." + f.Name()
	}
	return f.Pkg().Name() + "." + f.Name()
}

func (na *nilAnalysis) dump() {
	p := na.p
	var ls []string
	for f, pos := range na.nullable {
		ls = append(ls, fmt.Sprintf("NULLABLE %s (%s) filled=%q", fieldOwner(p, f), pos, na.filled[f]))
	}
	for f, why := range na.derived {
		ls = append(ls, fmt.Sprintf("DERIVED  %s (%s)", fieldOwner(p, f), why))
	}
	for fl, f := range na.flags {
		ls = append(ls, fmt.Sprintf("FLAG     %s caches %s != nil", fieldOwner(p, fl), fieldOwner(p, f)))
	}
	for f := range na.neverNil {
		ls = append(ls, "NEVERNIL "+p.FnName(f))
	}
	sort.Strings(ls)
	for _, l := range ls {
		fmt.Println(l)
	}
	all, risky := na.sinks()
	fmt.Println("invoke sites:", all, "risky:", len(risky))
	for _, s := range risky {
		fmt.Printf("RISK %s %s: %s on %s%s filled=%q\n", p.IPos(s.call), p.FnName(s.fn), s.call.Common().Method.Name(), fieldOwner(p, s.field), s.why, na.filled[s.field])
	}
}

// fillEntries: the functions func(I) I of the tables package that perform (or call functions performing) the fills.
func (na *nilAnalysis) fillEntries() map[*ssa.Function]types.Type {
	fills := map[string]bool{}
	for _, fn := range na.filled {
		fills[strings.SplitN(fn, " (", 2)[0]] = true
	}
	doesFill := map[*ssa.Function]bool{}
	for _, f := range na.p.ModFns() {
		if fills[na.p.FnName(f)] {
			doesFill[f] = true
		}
	}
	for changed := true; changed; {
		changed = false
		for _, f := range na.p.ModFns() {
			if doesFill[f] || fnPkg(f) == nil || fnPkg(f).Path() != na.tables {
				continue
			}
			for _, b := range f.Blocks {
				for _, in := range b.Instrs {
					if c, ok := in.(ssa.CallInstruction); ok {
						if sc := c.Common().StaticCallee(); sc != nil && doesFill[sc] {
							doesFill[f] = true
							changed = true
						}
					}
				}
			}
		}
	}
	out := map[*ssa.Function]types.Type{}
	for f := range doesFill {
		sg := f.Signature
		if sg.Recv() != nil || sg.Params().Len() != 1 || sg.Results().Len() != 1 {
			continue
		}
		t := sg.Params().At(0).Type()
		if _, ok := t.Underlying().(*types.Interface); ok && types.Identical(t, sg.Results().At(0).Type()) {
			out[f] = t
		}
	}
	return out
}

// funnel: every parser result that implements the interface I is obtained in a function whose returns of type I all go
// through the fill entry (values assembled by hand, like the synthesized Arabic fallback lookups, are not parser outputs).
func (na *nilAnalysis) funnel(entry *ssa.Function, I types.Type, report func(ok bool, key, pos, detail string)) int {
	p := na.p
	// functions returning I as first result whose returns are all filled
	good := map[*ssa.Function]bool{}
	for _, f := range p.ModFns() {
		if f.Signature.Results().Len() > 0 && types.Identical(f.Signature.Results().At(0).Type(), I) && len(f.Blocks) > 0 {
			good[f] = true
		}
	}
	var filledVal func(v ssa.Value, d int) bool
	filledVal = func(v ssa.Value, d int) bool {
		if d > 6 {
			return false
		}
		switch x := v.(type) {
		case *ssa.Const:
			return x.Value == nil
		case *ssa.Call:
			sc := x.Call.StaticCallee()
			return sc != nil && (sc == entry || good[sc])
		case *ssa.Extract:
			if c, ok := x.Tuple.(*ssa.Call); ok && x.Index == 0 {
				sc := c.Call.StaticCallee()
				return sc != nil && (sc == entry || good[sc])
			}
		case *ssa.Phi:
			for _, e := range x.Edges {
				if !filledVal(e, d+1) {
					return false
				}
			}
			return true
		case *ssa.UnOp: // named result spilled to a cell
			if al, ok := x.X.(*ssa.Alloc); ok && x.Op == token.MUL && al.Referrers() != nil {
				n := 0
				for _, u := range *al.Referrers() {
					if st, ok := u.(*ssa.Store); ok && st.Addr == ssa.Value(al) {
						n++
						if !filledVal(st.Val, d+1) {
							return false
						}
					}
				}
				return n > 0
			}
		}
		return false
	}
	for changed := true; changed; {
		changed = false
		for f := range good {
			if f == entry {
				continue
			}
			for _, b := range f.Blocks {
				for _, in := range b.Instrs {
					if ret, ok := in.(*ssa.Return); ok && good[f] && !filledVal(ret.Results[0], 0) {
						delete(good, f)
						changed = true
					}
				}
			}
		}
	}
	n := 0
	iface, _ := I.Underlying().(*types.Interface)
	for _, f := range p.ModFns() {
		for _, b := range f.Blocks {
			for _, in := range b.Instrs {
				c, ok := in.(*ssa.Call)
				if !ok {
					continue
				}
				sc := c.Call.StaticCallee()
				if sc == nil || fnPkg(sc) == nil || fnPkg(sc).Path() != na.tables || !isParserFn(sc) || sc.Signature.Results().Len() == 0 {
					continue
				}
				rt := sc.Signature.Results().At(0).Type()
				if _, isI := rt.Underlying().(*types.Interface); isI || iface == nil || !types.Implements(rt, iface) {
					continue
				}
				n++
				key := p.FnName(f) + "/parses " + p.TypeName(rt)
				report(f == entry || good[f], key, p.IPos(in), "the "+p.TypeName(I)+" made of a parsed "+p.TypeName(rt)+" is handed out through "+p.FnName(entry)+" only (NULL offsets replaced by empty tables)")
			}
		}
	}
	return n
}

// ruleNil: see the head of this file. sinkPkgs selects the packages whose invoke sites are claimed by the calling property.
func ruleNil(p *Prog, r *Report, rule string, tablesPkg string, sinkPkgs []string, floorSites, floorNullable int) {
	na := newNilAnalysis(p, tablesPkg)
	inScope := map[string]bool{}
	for _, s := range sinkPkgs {
		inScope[s] = true
	}
	all, risky := na.sinks()
	sites := 0
	_ = all
	for _, f := range p.ModFns() {
		if fnPkg(f) == nil || !inScope[fnPkg(f).Path()] {
			continue
		}
		for _, b := range f.Blocks {
			for _, in := range b.Instrs {
				if c, ok := in.(ssa.CallInstruction); ok && c.Common().IsInvoke() {
					if nt, ok := c.Common().Value.Type().(*types.Named); ok && nt.Obj().Pkg() != nil && nt.Obj().Pkg().Path() == tablesPkg {
						sites++
						r.Instance(rule, p.FnName(f)+"/"+nt.Obj().Name()+"."+c.Common().Method.Name())
					}
				}
			}
		}
	}
	entries := na.fillEntries()
	usedFill := false
	seen := map[string]bool{}
	for _, s := range risky {
		if fnPkg(s.fn) == nil || !inScope[fnPkg(s.fn).Path()] {
			continue
		}
		key := p.FnName(s.fn) + "/" + s.call.Common().Method.Name() + " on " + fieldOwner(p, s.field)
		if seen[key] {
			continue
		}
		seen[key] = true
		if fn := na.rejected[s.field]; fn != "" {
			r.OK(rule, key, p.IPos(s.call), "the field is NULL-able ("+na.nullable[s.field]+na.derived[s.field]+") and a font whose field is nil is refused by "+fn+" (every path of its nil branch returns an error)"+s.why)
			continue
		}
		if fn := na.filled[s.field]; fn != "" {
			usedFill = true
			r.OK(rule, key, p.IPos(s.call), "the field is NULL-able ("+na.nullable[s.field]+na.derived[s.field]+") and is replaced by an empty table in "+fn+s.why)
			continue
		}
		r.Bad(rule, key, p.IPos(s.call), "the receiver may be the nil left by a NULL offset ("+na.nullable[s.field]+na.derived[s.field]+"): no nil test dominates the call, in this function or in all its callers, and no fill function replaces it"+s.why)
	}
	if usedFill || len(entries) > 0 {
		n := 0
		var es []*ssa.Function
		for e := range entries {
			es = append(es, e)
		}
		sort.Slice(es, func(i, j int) bool { return p.FnName(es[i]) < p.FnName(es[j]) })
		for _, e := range es {
			n += na.funnel(e, entries[e], func(ok bool, key, pos, detail string) { r.Check(ok, rule+"/fill", key, pos, detail) })
		}
		if usedFill && n == 0 {
			r.Bad(rule+"/fill", "fill entry", "", "fields are claimed as normalised but no fill entry func(I) I was found")
		}
	}
	r.Floor(rule, sites, floorSites)
	r.Floor(rule+"/nullable", len(na.nullable), floorNullable)
	r.Count("R-NIL nullable fields", len(na.nullable))
	r.Count("R-NIL invoke sites", sites)
}
