package main

// ridx.go — R-IDX: index safety of accesses to slices of any element type in the hand-written code of the font packages
// and of the OpenType layout engine, as a REGRESSION rule. Unlike R-GEN (bytes), most accesses to parsed structures are
// safe because of invariants established elsewhere (sanitizers, parallel arrays), which no local argument can see; a rule
// that demanded a local proof of every access would raise alarms on correct code. R-IDX therefore claims only the accesses
// that P-LIN proves from the function's own dominating tests on the pinned tree (frozen in ridx_tables.go, keyed by
// function + indexed field, no line numbers): if such an access stops being derivable, a bound test it relied on is gone.
// Accesses outside the frozen set decide nothing.

import (
	"fmt"
	"go/types"
	"sort"
	"strings"

	"golang.org/x/tools/go/ssa"
)

// sliceDescr: a stable name for the indexed value: the field path it is loaded from ("recv.Field.Sub"), or the name of
// the parameter; "" for values that have no stable name (locals, call results).
func sliceDescr(v ssa.Value, depth int) string {
	if depth > 14 {
		return ""
	}
	switch x := v.(type) {
	case *ssa.Parameter:
		return x.Name()
	case *ssa.FreeVar:
		return x.Name()
	case *ssa.UnOp:
		return sliceDescr(x.X, depth+1)
	case *ssa.FieldAddr:
		if f := fieldOf(x); f != nil {
			if pre := sliceDescr(x.X, depth+1); pre != "" {
				return pre + "." + f.Name()
			}
		}
	case *ssa.Field:
		if f := fieldOf(x); f != nil {
			if pre := sliceDescr(x.X, depth+1); pre != "" {
				return pre + "." + f.Name()
			}
		}
	case *ssa.Alloc:
		// a spilled value parameter
		if refs := x.Referrers(); refs != nil {
			stores := 0
			var val ssa.Value
			for _, in := range *refs {
				if st, ok := in.(*ssa.Store); ok && st.Addr == ssa.Value(x) {
					if stores++; stores == 1 {
						val = st.Val
					}
				}
			}
			if stores == 1 {
				if prm, ok := val.(*ssa.Parameter); ok {
					return prm.Name()
				}
				// a local copy of a value loaded from a field
				return sliceDescr(val, depth+1)
			}
		}
	case *ssa.Slice:
		return sliceDescr(x.X, depth+1)
	case *ssa.IndexAddr:
		if pre := sliceDescr(x.X, depth+1); pre != "" {
			return pre + "[]"
		}
	case *ssa.MakeSlice:
		return "make(" + types.TypeString(x.Type(), func(p *types.Package) string { return p.Name() }) + ")"
	case *ssa.Phi:
		var parts []string
		for _, e := range x.Edges {
			d := sliceDescr(e, depth+1)
			if d == "" {
				return ""
			}
			dup := false
			for _, q := range parts {
				if q == d {
					dup = true
				}
			}
			if !dup {
				parts = append(parts, d)
			}
		}
		sort.Strings(parts)
		return strings.Join(parts, "|")
	}
	return ""
}

func handWritten(p *Prog, f *ssa.Function) bool {
	pos := p.Pos(f.Pos())
	file := pos
	if i := strings.Index(pos, ":"); i >= 0 {
		file = pos[:i]
	}
	return !strings.HasSuffix(file, "_gen.go") && !strings.HasSuffix(file, "_machine.go") && !strings.HasSuffix(file, "_table.go") && !strings.HasSuffix(file, "_tables.go")
}

// idxProved computes, for the selected functions, the access keys and whether all obligations of each key are derivable.
func idxProved(p *Prog, sel func(f *ssa.Function) bool) (map[string]bool, map[string]ssa.Instruction) {
	allSlices = true
	defer func() { allSlices = false }()
	px := newLinProver(p)
	var fns []*ssa.Function
	for _, f := range p.ModFns() {
		if sel(f) {
			fns = append(fns, f)
		}
	}
	px.derivePre(fns)
	px.derivePost(fns)
	px.pre = map[*ssa.Function]map[int]int64{}
	for _, lf := range px.fns {
		lf.extra, lf.extraAt = nil, nil
	}
	px.derivePre(fns)
	proved := map[string]bool{}
	where := map[string]ssa.Instruction{}
	for _, f := range fns {
		if !handWritten(p, f) {
			continue
		}
		lf := px.ctx(f)
		lf.extra, lf.extraAt = nil, nil
		lf.addCallFacts()
		lf.addLoopInvariants()
		pre := px.pre[f]
		for _, o := range lf.obligations() {
			var x ssa.Value
			switch in := o.in.(type) {
			case *ssa.IndexAddr:
				x = in.X
			case *ssa.Slice:
				x = in.X
			default:
				continue
			}
			d := sliceDescr(x, 0)
			if d == "" {
				continue
			}
			key := p.FnName(f) + "/" + d
			ok := lf.proveAt(o.goal, o.in, 0) || o.sgn != nil && px.nn.nonNeg(o.sgn, o.in, 0)
			if !ok && len(o.goal.c) == 1 && pre != nil {
				for pi, k := range pre {
					if q, has := o.goal.c[atom{f.Params[pi], true}]; has && q.Cmp(ratOne) == 0 && o.goal.k.IsInt() && -o.goal.k.Num().Int64() <= k {
						ok = true
					}
				}
			}
			if prev, seen := proved[key]; seen {
				if prev && !ok {
					where[key] = o.in
				}
				proved[key] = prev && ok
			} else {
				proved[key] = ok
				where[key] = o.in
			}
		}
	}
	return proved, where
}

func ruleIdx(p *Prog, r *Report, rule string, pkgs []string, claimed []string, floorPct int) {
	inPkg := map[string]bool{}
	for _, k := range pkgs {
		inPkg[p.pkgPath(k)] = true
	}
	proved, where := idxProved(p, func(f *ssa.Function) bool { return fnPkg(f) != nil && inPkg[fnPkg(f).Path()] })
	found := 0
	for _, key := range claimed {
		if !strings.HasPrefix(key, "") {
			continue
		}
		pk := key
		if i := strings.Index(pk, "/"); i >= 0 {
			// keys are "<function>/<field path>"; the function name contains the package path, which may contain '/'
		}
		ok, seen := proved[key]
		if !seen {
			// the function or the field no longer exists under that name: nothing to decide for this key
			continue
		}
		// restrict to the packages of this call
		found++
		r.Instance(rule, key)
		if ok {
			r.OK(rule, key, p.IPos(where[key]), "every index and slice bound of this access follows from the tests that dominate it")
		} else {
			r.Bad(rule, key, p.IPos(where[key]), fmt.Sprintf("an index or slice bound of %s no longer follows from the tests that dominate it in the function (it did when the claimed set was frozen): a bound test this access relied on was removed or weakened, and a malformed font makes it panic", key))
		}
	}
	r.Count("claimed_access_keys", len(claimed))
	r.Floor(rule, found*100, len(claimed)*floorPct)
}

// idxKeys lists the proved keys (for `vsa ridxgen`).
func idxKeys(p *Prog, pkgs []string) []string {
	inPkg := map[string]bool{}
	for _, k := range pkgs {
		inPkg[p.pkgPath(k)] = true
	}
	proved, _ := idxProved(p, func(f *ssa.Function) bool { return fnPkg(f) != nil && inPkg[fnPkg(f).Path()] })
	var out []string
	for k, ok := range proved {
		if ok {
			out = append(out, k)
		}
	}
	sort.Strings(out)
	return out
}
