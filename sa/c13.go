package main

// c13.go — C13 Reusable objects never leak state between uses (R-KEY, R-INV, R-STATE); C14 shares R-INV.

func init() {
	register(&propDef{id: "C13", run: runC13, controls: controlsC13})
	register(&propDef{id: "C14", run: runC14, controls: func(cp *Prog, r *Report) {
		expectControl(r, "R-INV", func(cr *Report) { controlsInv(cp, cr) }, "Obj.cache/reset()/(*cache.Obj).SetPpemBad/ppem", "Obj.cache/reset()/(*cache.Obj).SetScaleBad/scale", "Obj.cand/built = false/(*cache.Obj).AddBad/db")
		expectControl(r, "R-ALIASCMP", func(cr *Report) { ruleAliasCompare(cp, cr, []string{"cache"}, 2) }, "(*cache.view).SetBad(c) -> coords")
		expectControl(r, "R-SCRATCH", func(cr *Report) {
			ruleScratchReset(cp, cr, "cache", "matcher", "scratch", "reset", 2)
			ruleScratchReset(cp, cr, "cache", "matcher", "pool", "reset", 1)
		}, "cache.selectBad(c)")
	}})
}

func invFaceExtents() invCfg {
	return invCfg{name: "Face.extentsCache", pkg: "font", typ: "Face",
		compute:      []fnRef{{"font", "Face", "glyphExtentsRaw"}},
		invalidators: []invalidator{{call: &fnRef{"font", "extentsCache", "reset"}, desc: "extentsCache.reset()"}},
		exempt:       map[string]string{"extentsCache": "the cache itself"},
		floorReads:   3}
}

func invFontMapLRU() invCfg {
	return invCfg{name: "FontMap.lru", pkg: "fontscan", typ: "FontMap",
		compute:      []fnRef{{"fontscan", "FontMap", "ResolveFace"}},
		invalidators: []invalidator{{call: &fnRef{"fontscan", "runeLRU", "Clear"}, desc: "lru.Clear()"}},
		keyFields:    []string{"query", "script"},
		keyCtor:      &fnRef{"fontscan", "runeLRU", "KeyFor"},
		exempt: map[string]string{"lru": "the cache itself", "built": "state of the candidates cache, see FontMap.candidates", "candidates": "derived cache, rebuilt from query/script/database (R-INV FontMap.candidates)",
			"faceCache": "idempotent load memo keyed by Location, written by the computation itself", "metaCache": "idempotent load memo", "firstFace": "idempotent memo of the first loaded face",
			"footprintsBuffer": "scratch, fully rewritten by each selection", "cribleBuffer": "scratch, reset by each selection", "logger": "does not influence the result"},
		floorReads: 2}
}

func invFontMapCandidates() invCfg {
	return invCfg{name: "FontMap.candidates", pkg: "fontscan", typ: "FontMap",
		compute:      []fnRef{{"fontscan", "FontMap", "buildCandidates"}},
		invalidators: []invalidator{{storeField: "built", storeFalse: true, desc: "built = false"}},
		exempt: map[string]string{"built": "the validity flag itself", "candidates": "the cache itself",
			"footprintsBuffer": "scratch, fully rewritten by each selection", "cribleBuffer": "scratch, reset by each selection", "logger": "does not influence the result"},
		floorReads: 3}
}

func runC13(p *Prog, r *Report) {
	r.Explain = append(r.Explain,
		"R-KEY/fields: every leaf of the plan-cache key object that shapePlan.init fills from an input not covered by the map key is read by shapePlan.equal (data-dependence of each stored value on each parameter, through callees).",
		"R-KEY/projection: at the Put into the shaper's font cache the key is not a strict projection of an argument that the constructor of the cached value captures whole.",
		"R-INV: every function outside the cached computation that may write a field the computation reads (field-based, transitively) invalidates the cache on every path through the write, or all its callers do, up to the exported API.")
	ruleKeyFields(p, r, keyFieldsCfg{pkg: "harfbuzz", keyType: "shapePlan", initRecv: "shapePlan", initFn: "init", eqRecv: "shapePlan", eqFn: "equal",
		lookupRecv: "Buffer", lookup: "newShapePlanCached", cacheRecv: "Buffer", cacheFld: "planCache"})
	r.Explain = append(r.Explain, "R-KEY/globals: every package-level option (exported variable of a basic type of the module) read while a shape plan is built is recorded by shapePlan.init in a field that shapePlan.equal compares.")
	ruleKeyGlobals(p, r, keyFieldsCfg{pkg: "harfbuzz", keyType: "shapePlan", initRecv: "shapePlan", initFn: "init", eqRecv: "shapePlan", eqFn: "equal",
		lookupRecv: "Buffer", lookup: "newShapePlanCached", cacheRecv: "Buffer", cacheFld: "planCache"}, "", "newShapePlan")
	ruleKeyProjection(p, r, keyProjCfg{pkg: "shaping", recv: "HarfbuzzShaper", fn: "Shape", putPkg: "shaping", putRecv: "fontLRU", putFn: "Put", keyArg: 0, valueArg: 1})
	r.Explain = append(r.Explain, "R-KEY/owned: the shape plan stored in Buffer.planCache is initialised by shapePlan.init in copy mode, so its key fields do not alias slices the caller may overwrite.")
	ruleCacheOwned(p, r, "harfbuzz", "Buffer", "newShapePlanCached", "Buffer", "planCache", "shapePlan", "init", 1)
	ruleInv(p, r, invFaceExtents())
	r.Explain = append(r.Explain, "R-ALIASCMP: a method that keeps a slice- or map-holding parameter as it is in a field of its receiver (the field then aliases the caller's storage) does not compare the parameter with that field to decide that nothing has changed and skip what it does on a change: edited in place and passed again, the storage is compared with itself.")
	ruleAliasCompare(p, r, []string{"font", "fontscan", "shaping", "harfbuzz", "segmenter"}, 3)
	r.Explain = append(r.Explain, "R-STATE: with P-FX (per-function exposed-read / must-write sets over struct fields, fixpoint over the VTA call graph), every field of the state-holding types of each reusable object that an entry method may read before writing it is classified with a reason; continuation methods may also read what the required initialiser writes on all its paths.")
	r.Explain = append(r.Explain, "R-STALE: storage kept in a slice-typed field is re-extended past its current length in place (x.f = x.f[:n] after consulting cap(x.f)) only where the exposed elements are overwritten whole by copy() or cleared, or for the fields listed with the reason confirmed by reading; everywhere else growth goes through append or make, which hand out zeroed elements, so a reused object does not see the elements of its previous use.")
	ruleStale(p, r, staleAllowed, 0)
	fx := NewFX(p)
	fx.Run()
	r.Count("fields_tracked", len(fx.fields))
	for _, c := range stateConfigs() {
		ruleState(p, r, fx, c)
	}
	r.Explain = append(r.Explain, "R-STATE/array: P-FX does not track the elements of array-typed fields; each element of Buffer.context (the text before / after the run) is reset on every path to every return of Buffer.Clear, by a store with a constant index or a call of a function whose parameter indexes the store (clearContext(0), clearContext(1)).")
	ruleArrayReset(p, r, "harfbuzz", "Buffer", "context", fnRef{"harfbuzz", "Buffer", "Clear"})
}

// staleAllowed: the fields whose kept storage is re-extended in place, each confirmed by reading.
var staleAllowed = map[string]string{
	"Buffer.Pos":              "positions: clearPositions/resizePositions precede positionDefault and positionStartGPOS, which assign XAdvance, YAdvance, XOffset, YOffset and attachChain of every glyph (attachType is only read when attachChain is set)",
	"aatMap.chainFlags":       "the aatMap is a local of the AAT layout compilation, rebuilt for every plan: accumulation across the ranges of one compilation is the intent",
	"HarfbuzzShaper.features": "every element up to the new length is assigned a whole harfbuzz.Feature by the loop that follows",
}

func stateConfigs() []stateCfg {
	return []stateCfg{
		{name: "shaping.HarfbuzzShaper",
			types:   []typeRef{{"shaping", "HarfbuzzShaper"}, {"harfbuzz", "Buffer"}, {"harfbuzz", "otApplyContext"}, {"harfbuzz", "skippingIterator"}, {"harfbuzz", "Font"}},
			entries: []fnRef{{"shaping", "HarfbuzzShaper", "Shape"}},
			allowed: map[string]string{
				"Buffer.planCache":        "cache: completeness of its key is decided by R-KEY/fields",
				"Font.face":               "ctor-only: field of the cached harfbuzz.Font, which is keyed by the face it captures (R-KEY/projection)",
				"Font.gsubAccels":         "ctor-only: derived from the face's GSUB at construction",
				"Font.gposAccels":         "ctor-only: derived from the face's GPOS at construction",
				"Font.faceUpem":           "ctor-only: derived from the face at construction",
				"Font.Ptem":               "ctor-only: public knob that the module never assigns (zero from NewFont)",
				"HarfbuzzShaper.buf":      "identity of the owned buffer, allocated on first use; its state is cleared by Buffer.Clear on every later use (its fields are checked here)",
				"HarfbuzzShaper.features": "scratch: re-sliced to len(input.FontFeatures) and every element assigned before it is handed to the buffer",
				"Buffer.context":          "array field (P-FX does not track array elements): both sides are reset by Buffer.Clear, which R-STATE/array decides; shape() saves and restores the pair around the direction reversal",
			}},
		{name: "harfbuzz.Buffer",
			types:   []typeRef{{"harfbuzz", "Buffer"}},
			entries: []fnRef{{"harfbuzz", "Buffer", "Clear"}},
			allowed: map[string]string{}},
		{name: "shaping.Segmenter",
			types:   []typeRef{{"shaping", "Segmenter"}},
			entries: []fnRef{{"shaping", "Segmenter", "Split"}},
			allowed: map[string]string{
				"Segmenter.input":  "read by reset only to nil out pointers of the stale pool before truncating it to length 0",
				"Segmenter.output": "read by reset only to nil out pointers of the stale pool before truncating it to length 0",
			}},
		{name: "shaping.LineWrapper",
			types:   []typeRef{{"shaping", "LineWrapper"}, {"shaping", "wrapBuffer"}, {"shaping", "breaker"}, {"shaping", "runMapper"}, {"shaping", "WrapConfig"}, {"shaping", "lineConfig"}, {"segmenter", "Segmenter"}},
			entries: []fnRef{{"shaping", "LineWrapper", "WrapParagraph"}, {"shaping", "LineWrapper", "Prepare"}},
			conts:   []struct{ fn, after fnRef }{{fnRef{"shaping", "LineWrapper", "WrapNextLine"}, fnRef{"shaping", "LineWrapper", "Prepare"}}},
			allowed: map[string]string{
				"wrapBuffer.lineExhausted": "growth hint: only decides whether the line slice gets extra capacity",
				"runMapper.runIdx":         "only decisive when runMapper.valid is set, which Prepare clears (the test is `runIdx != x || !valid`)",
				"runMapper.mapping":        "scratch capacity handed to mapRunesToClusterIndices3, which rebuilds the whole mapping",
			}},
		{name: "segmenter.Segmenter",
			types:   []typeRef{{"segmenter", "Segmenter"}, {"segmenter", "cursor"}},
			entries: []fnRef{{"segmenter", "Segmenter", "Init"}},
			allowed: map[string]string{}},
	}
}

func unusedC13() {
}

func runC14(p *Prog, r *Report) {
	r.Explain = append(r.Explain, "R-INV on FontMap: every writer of a field read by ResolveFace's miss path (other than the key components query/script) clears the rune LRU, and every writer of a field read by buildCandidates resets built, on all paths, up to the exported API.")
	ruleInv(p, r, invFontMapLRU())
	ruleInv(p, r, invFontMapCandidates())
	r.Explain = append(r.Explain, "R-SCRATCH: R-INV exempts FontMap.cribleBuffer and FontMap.footprintsBuffer as scratch storage 'reset by each selection'; that claim is checked: every function that receives one of them as an argument calls its reset method on it before any other use of it, on every path, or only hands it to a function that does (or drops it for a fresh value).")
	ruleScratchReset(p, r, "fontscan", "FontMap", "cribleBuffer", "reset", 2)
	ruleScratchReset(p, r, "fontscan", "FontMap", "footprintsBuffer", "reset", 2)
	r.Explain = append(r.Explain, "R-ALIASCMP (see C13): FontMap.SetQuery keeps the caller's query (its Families slice) and does not compare the new query with it to skip the invalidation.")
	ruleAliasCompare(p, r, []string{"fontscan"}, 1)
	r.Explain = append(r.Explain,
		"R-KEY/hash: the rune LRU key hashes the query families; runeLRU.Get returns a hit only on the equal edge of an exact comparison of those families.",
		"R-STEPS: on ResolveFace's miss path buildCandidates runs first and the four documented searches (exact families, fallbacks, manual fonts, script coverage) occur in that order on every path, each returning the face it finds before a later step; every path of buildCandidates that marks the candidates as built has run the substitution pass, the user-font pass and the aspect narrowing.")
	ruleKeyHash(p, r, "fontscan", "runeLRU", "KeyFor", "Get")
	ruleResolveOrder(p, r)
	ruleBuildCandidates(p, r)
	r.Assumptions = append(r.Assumptions, "hash/maphash is a hash (lossy); family substitution scoring and footprint coverage contents are not analysed")
	r.NotDecided = append(r.NotDecided, "non-nil result for a non-empty map", "that coverage contains the rune is what Contains computes", "family substitution scoring order")
}

func controlsC13(cp *Prog, r *Report) {
	controlsState(cp, r)
	expectControl(r, "R-ALIASCMP", func(cr *Report) { ruleAliasCompare(cp, cr, []string{"cache"}, 2) }, "(*cache.view).SetBad(c) -> coords")
	expectControl(r, "R-STATE/array", func(cr *Report) {
		ruleArrayReset(cp, cr, "reuse", "abuf", "ctx", fnRef{"reuse", "abuf", "Clear"})
		ruleArrayReset(cp, cr, "reuse", "abufBad", "ctx", fnRef{"reuse", "abufBad", "Clear"})
	}, "abufBad.ctx[1]/(*reuse.abufBad).Clear")
	expectControl(r, "R-STALE", func(cr *Report) {
		ruleStale(cp, cr, map[string]string{"gbuf.pos": "listed", "Buf.Pos": "listed (control of another rule)"}, 3)
	}, "gbuf.info/(*reuse.gbuf).addBad")
	expectControl(r, "R-KEY/fields", func(cr *Report) {
		ruleKeyFields(cp, cr, keyFieldsCfg{pkg: "cache", keyType: "planGood", initRecv: "planGood", initFn: "init", eqRecv: "planGood", eqFn: "equal", lookupRecv: "buf", lookup: "planGoodCached", cacheRecv: "buf", cacheFld: "good"})
		ruleKeyFields(cp, cr, keyFieldsCfg{pkg: "cache", keyType: "planBad", initRecv: "planBad", initFn: "init", eqRecv: "planBad", eqFn: "equal", lookupRecv: "buf", lookup: "planBadCached", cacheRecv: "buf", cacheFld: "bad"})
	}, "cache.buf.bad/planBad.feats", "cache.buf.bad/planBad.shaper.key")
	expectControl(r, "R-KEY/globals", func(cr *Report) {
		ruleKeyGlobals(cp, cr, keyFieldsCfg{pkg: "cache", keyType: "optGood", initRecv: "optGood", initFn: "init", eqRecv: "optGood", eqFn: "equal", lookupRecv: "optBuf", lookup: "goodCached", cacheRecv: "optBuf", cacheFld: "good"}, "", "buildOptGood")
		ruleKeyGlobals(cp, cr, keyFieldsCfg{pkg: "cache", keyType: "optBad", initRecv: "optBad", initFn: "init", eqRecv: "optBad", eqFn: "equal", lookupRecv: "optBuf", lookup: "badCached", cacheRecv: "optBuf", cacheFld: "bad"}, "", "noSuchConstructor")
	}, "cache.optBuf.bad/CompatBad")
	expectControl(r, "R-KEY/projection", func(cr *Report) {
		for _, fn := range []string{"ShapeGood", "ShapeBad", "MetricsGood"} {
			ruleKeyProjection(cp, cr, keyProjCfg{pkg: "cache", recv: "shaper", fn: fn, putPkg: "cache", putRecv: "lru", putFn: "Put", keyArg: 0, valueArg: 1})
		}
	}, "(*cache.shaper).ShapeBad/(*cache.lru).Put")
	expectControl(r, "R-INV", func(cr *Report) { controlsInv(cp, cr) },
		"Obj.cache/reset()/(*cache.Obj).SetPpemBad/ppem", "Obj.cache/reset()/(*cache.Obj).SetScaleBad/scale", "Obj.cand/built = false/(*cache.Obj).AddBad/db")
}

func controlsInv(cp *Prog, cr *Report) {
	ruleInv(cp, cr, invCfg{name: "Obj.cache", pkg: "cache", typ: "Obj", compute: []fnRef{{"cache", "Obj", "raw"}},
		invalidators: []invalidator{{call: &fnRef{"cache", "extCache", "reset"}, desc: "reset()"}}, exempt: map[string]string{"cache": "the cache"}, floorReads: 3})
	ruleInv(cp, cr, invCfg{name: "Obj.cand", pkg: "cache", typ: "Obj", compute: []fnRef{{"cache", "Obj", "build"}},
		invalidators: []invalidator{{storeField: "built", storeFalse: true, desc: "built = false"}}, exempt: map[string]string{"built": "flag", "cand": "the cache"}, floorReads: 1})
}

func controlsState(cp *Prog, r *Report) {
	expectControl(r, "R-STATE", func(cr *Report) {
		fx := NewFX(cp)
		fx.Run()
		ruleState(cp, cr, fx, stateCfg{name: "reuse.Wrapper", types: []typeRef{{"reuse", "Wrapper"}, {"reuse", "scratch"}, {"reuse", "mapper"}},
			entries: []fnRef{{"reuse", "Wrapper", "WrapGood"}, {"reuse", "Wrapper", "WrapBad"}, {"reuse", "Wrapper", "Prepare"}},
			conts:   []struct{ fn, after fnRef }{{fnRef{"reuse", "Wrapper", "Next"}, fnRef{"reuse", "Wrapper", "Prepare"}}},
			allowed: map[string]string{"scratch.hint": "growth hint", "mapper.idx": "only decisive when valid", "mapper.m": "scratch capacity"}})
	}, "reuse.Wrapper/(*reuse.Wrapper).WrapBad/Wrapper.total", "reuse.Wrapper/(*reuse.Wrapper).WrapBad/scratch.leftover")
	expectControl(r, "R-STATE(stack locals)", func(cr *Report) {
		fx := NewFX(cp)
		fx.Run()
		ruleState(cp, cr, fx, stateCfg{name: "reuse.Wrapper2", types: []typeRef{{"reuse", "Wrapper2"}, {"reuse", "wcfg"}},
			entries: []fnRef{{"reuse", "Wrapper2", "RunGood"}, {"reuse", "Wrapper2", "RunBad"}}, allowed: map[string]string{}})
	}, "reuse.Wrapper2/(*reuse.Wrapper2).RunBad/wcfg.dir")
}
