package main

// rkey.go — R-KEY: cache-key completeness.
//   (i)  no dead key component: every leaf of the key object that the key constructor fills from an input that the map
//        key does not cover is read by the equality function;
//   (ii) access-path cover: when the key of a Put is a strict projection x.f of an argument x of the constructor of the
//        cached value, the constructor must not capture x itself.

import (
	"fmt"
	"go/token"
	"go/types"
	"os"
	"sort"
	"strings"

	"golang.org/x/tools/go/ssa"
)

// spillOf: the local Alloc into which a value parameter is copied at entry (go/ssa spills address-taken params).
func spillOf(fn *ssa.Function, prm *ssa.Parameter) *ssa.Alloc {
	refs := prm.Referrers()
	if refs == nil {
		return nil
	}
	for _, in := range *refs {
		if st, ok := in.(*ssa.Store); ok && st.Val == ssa.Value(prm) {
			if al, ok := st.Addr.(*ssa.Alloc); ok {
				return al
			}
		}
	}
	return nil
}

// relPath: field path of addr/value v relative to one of the bases ("" for the base itself), ok=false when v is not
// rooted at a base through FieldAddr/Field chains.
func relPath(v ssa.Value, bases map[ssa.Value]bool) (string, bool) {
	if bases[v] {
		return "", true
	}
	switch x := v.(type) {
	case *ssa.FieldAddr:
		if pre, ok := relPath(x.X, bases); ok {
			return pre + "." + fieldOf(x).Name(), true
		}
	case *ssa.Field:
		if pre, ok := relPath(x.X, bases); ok {
			return pre + "." + fieldOf(x).Name(), true
		}
	case *ssa.UnOp:
		// whole load of a base (struct copy) keeps the path
		if x.Op == token.MUL {
			return relPath(x.X, bases)
		}
	}
	return "", false
}

type relWrite struct {
	path string
	val  ssa.Value
	in   ssa.Instruction
}

// basesOf returns the SSA values standing for parameter prm inside fn (the parameter and its spill).
func basesOf(fn *ssa.Function, prm *ssa.Parameter) map[ssa.Value]bool {
	b := map[ssa.Value]bool{prm: true}
	if al := spillOf(fn, prm); al != nil {
		b[al] = true
	}
	return b
}

// writesRel collects the stores fn (and its static callees that receive a sub-object) makes into the object designated by
// parameter index pi, as paths relative to that object.
func writesRel(fn *ssa.Function, pi int, prefix string, depth int, out *[]relWrite) {
	if fn.Blocks == nil || depth > 4 || pi >= len(fn.Params) {
		return
	}
	bases := basesOf(fn, fn.Params[pi])
	for _, b := range fn.Blocks {
		for _, in := range b.Instrs {
			switch x := in.(type) {
			case *ssa.Store:
				if path, ok := relPath(x.Addr, bases); ok {
					*out = append(*out, relWrite{prefix + path, x.Val, in})
				}
			case *ssa.Call:
				sc := x.Common().StaticCallee()
				if sc == nil {
					continue
				}
				for i, a := range x.Common().Args {
					if path, ok := relPath(a, bases); ok {
						if _, isAddr := a.Type().Underlying().(interface{ Elem() interface{} }); isAddr {
						}
						writesRel(sc, i, prefix+path, depth+1, out)
					}
				}
			}
		}
	}
}

// readsRel collects the field paths of the object designated by parameter pi that fn (and static callees receiving the
// object or a part of it) reads.
func readsRel(fn *ssa.Function, pi int, prefix string, depth int, out map[string]bool) {
	if fn.Blocks == nil || depth > 4 || pi >= len(fn.Params) {
		return
	}
	bases := basesOf(fn, fn.Params[pi])
	for _, b := range fn.Blocks {
		for _, in := range b.Instrs {
			switch x := in.(type) {
			case *ssa.UnOp:
				if x.Op == token.MUL {
					if path, ok := relPath(x.X, bases); ok && path != "" {
						out[prefix+path] = true
					}
				}
			case *ssa.Field:
				if path, ok := relPath(x, bases); ok {
					out[prefix+path] = true
				}
			case *ssa.Call:
				sc := x.Common().StaticCallee()
				if sc == nil {
					continue
				}
				for i, a := range x.Common().Args {
					if path, ok := relPath(a, bases); ok {
						readsRel(sc, i, prefix+path, depth+1, out)
					}
				}
			}
		}
	}
}

type keyFieldsCfg struct {
	pkg                 string
	keyType             string // shapePlan
	initRecv, initFn    string // (*shapePlan).init
	eqRecv, eqFn        string // (shapePlan).equal
	lookupRecv, lookup  string // (*Buffer).newShapePlanCached
	cacheRecv, cacheFld string // Buffer.planCache
}

func ruleKeyFields(p *Prog, r *Report, c keyFieldsCfg) {
	const rule = "R-KEY/fields"
	initF := p.Func(c.pkg, c.initRecv, c.initFn)
	eqF := p.Func(c.pkg, c.eqRecv, c.eqFn)
	look := p.Func(c.pkg, c.lookupRecv, c.lookup)
	cacheF := p.Field(c.pkg, c.cacheRecv, c.cacheFld)
	inst := c.pkg + "." + c.cacheRecv + "." + c.cacheFld
	r.Instance(rule, inst)

	// which parameters of init does the map key cover? Find the call of init in the lookup function, and the map index.
	var initCall *ssa.Call
	var keyExprs []ssa.Value
	for _, b := range look.Blocks {
		for _, in := range b.Instrs {
			switch x := in.(type) {
			case *ssa.Call:
				if x.Common().StaticCallee() == initF && initCall == nil {
					initCall = x
				}
			case *ssa.Lookup:
				if isLoadOfField(x.X, cacheF) {
					keyExprs = append(keyExprs, x.Index)
				}
			case *ssa.MapUpdate:
				if isLoadOfField(x.Map, cacheF) {
					keyExprs = append(keyExprs, x.Key)
				}
			}
		}
	}
	if initCall == nil || len(keyExprs) == 0 {
		undecided("R-KEY: %s does not call %s or does not index %s", p.FnName(look), p.FnName(initF), inst)
	}
	covered := map[int]bool{} // init parameter index -> covered by the map key
	for j, a := range initCall.Common().Args {
		if j == 0 {
			continue
		}
		all := true
		for _, k := range keyExprs {
			if !derivesFrom(k, func(v ssa.Value) bool { return v == stripConv(a) || v == a }, 0) && !derivesThroughLoads(k, a) {
				all = false
			}
		}
		if all {
			covered[j] = true
		}
	}
	// leaves written by init and the parameters they depend on
	var ws []relWrite
	writesRel(initF, 0, "", 0, &ws)
	if os.Getenv("VSA_DEBUG") != "" {
		fmt.Println("DEBUG writes", p.FnName(initF), len(ws), len(initF.Params), len(reachableFns(p, []*ssa.Function{initF})))
	}
	deps := map[string]map[int]bool{}
	for j := 1; j < len(initF.Params); j++ {
		t := NewTaint(p)
		t.values = true
		t.scope = reachableFns(p, []*ssa.Function{initF})
		root := initF.Params[j]
		t.rootValue = func(v ssa.Value) bool { return v == ssa.Value(root) }
		t.Run()
		if os.Getenv("VSA_DEBUG") != "" {
			fmt.Println("DEBUG taint", root.Name(), len(t.tainted), len(t.fns), len(t.scope))
		}
		for _, w := range ws {
			if t.Is(w.val) || t.Ctrl[w.in.Parent()] {
				if os.Getenv("VSA_DEBUG") != "" {
					fmt.Println("DEBUG dep", w.path, root.Name(), t.Is(w.val), t.Ctrl[w.in.Parent()], p.FnName(w.in.Parent()))
					for _, l := range t.Trace(w.val) {
						fmt.Println("     ", l)
					}
				}
				if deps[w.path] == nil {
					deps[w.path] = map[int]bool{}
				}
				deps[w.path][j] = true
			}
		}
	}
	reads := map[string]bool{}
	readsRel(eqF, 0, "", 0, reads)
	readsRel(eqF, 1, "", 0, reads)
	var paths []string
	for pth := range deps {
		paths = append(paths, pth)
	}
	sort.Strings(paths)
	r.Floor(rule+"(leaves)", len(paths), 1)
	for _, pth := range paths {
		var unc []string
		for j := range deps[pth] {
			if !covered[j] {
				unc = append(unc, initF.Params[j].Name())
			}
		}
		sort.Strings(unc)
		key := inst + "/" + c.keyType + pth
		if len(unc) == 0 {
			r.OK(rule, key, p.Pos(initF.Pos()), "filled only from inputs that the map key covers")
			continue
		}
		read := false
		for rd := range reads {
			if rd == pth || strings.HasPrefix(pth, rd+".") || strings.HasPrefix(rd, pth+".") {
				read = true
			}
		}
		if read {
			r.OK(rule, key, p.Pos(eqF.Pos()), fmt.Sprintf("depends on %s and is compared by %s", strings.Join(unc, ", "), p.FnName(eqF)))
		} else {
			r.Bad(rule, key, p.Pos(eqF.Pos()), fmt.Sprintf("%s fills %s%s from %s, which the map key does not cover, but %s never reads it: a cached value built for other %s is returned", p.FnName(initF), c.keyType, pth, strings.Join(unc, ", "), p.FnName(eqF), strings.Join(unc, ", ")))
		}
	}
}

// derivesThroughLoads: k is obtained from a by field loads (k = a.f.g...).
func derivesThroughLoads(k, a ssa.Value) bool {
	for i := 0; i < 8; i++ {
		if k == a {
			return true
		}
		switch x := k.(type) {
		case *ssa.UnOp:
			if x.Op != token.MUL {
				return false
			}
			k = x.X
		case *ssa.FieldAddr:
			k = x.X
		case *ssa.Field:
			k = x.X
		default:
			return false
		}
	}
	return false
}

// ---- (ii) projection ------------------------------------------------------------------------------------------

type keyProjCfg struct {
	pkg, recv, fn    string // function containing the Put
	putPkg, putRecv  string
	putFn            string
	keyArg, valueArg int // argument indices of Put (receiver excluded)
}

// sameLoadPath: two values are loads of the same field path of the same local (e.g. two reads of input.Face).
func sameLoadPath(a, b ssa.Value) bool {
	if a == b {
		return true
	}
	ua, ok1 := a.(*ssa.UnOp)
	ub, ok2 := b.(*ssa.UnOp)
	if !ok1 || !ok2 || ua.Op != token.MUL || ub.Op != token.MUL {
		return false
	}
	if !sameAddr(ua.X, ub.X) {
		return false
	}
	// the field must not be re-assigned in the function
	fa, ok := ua.X.(*ssa.FieldAddr)
	if !ok {
		return false
	}
	for _, blk := range ua.Parent().Blocks {
		for _, in := range blk.Instrs {
			if st, ok := in.(*ssa.Store); ok {
				if sa, ok := st.Addr.(*ssa.FieldAddr); ok && sameAddr(sa, fa) {
					return false
				}
			}
		}
	}
	return true
}

// projectionOf: k is obtained from a value equivalent to a through at least one field load.
func projectionOf(k, a ssa.Value) bool {
	steps := 0
	for i := 0; i < 8; i++ {
		if sameLoadPath(k, a) {
			return steps > 0
		}
		switch x := k.(type) {
		case *ssa.UnOp:
			if x.Op != token.MUL {
				return false
			}
			fa, ok := x.X.(*ssa.FieldAddr)
			if !ok {
				return false
			}
			k = fa.X
			steps++
		case *ssa.Field:
			k = x.X
			steps++
		default:
			return false
		}
	}
	return false
}

func ruleKeyProjection(p *Prog, r *Report, c keyProjCfg) {
	const rule = "R-KEY/projection"
	fn := p.Func(c.pkg, c.recv, c.fn)
	put := p.Func(c.putPkg, c.putRecv, c.putFn)
	n := 0
	for _, b := range fn.Blocks {
		for _, in := range b.Instrs {
			call, ok := in.(*ssa.Call)
			if !ok || call.Common().StaticCallee() != put {
				continue
			}
			n++
			args := call.Common().Args[1:]
			unbox := func(x ssa.Value) ssa.Value {
				for {
					if mi, ok := x.(*ssa.MakeInterface); ok {
						x = mi.X
						continue
					}
					return stripConv(x)
				}
			}
			k, v := unbox(args[c.keyArg]), unbox(args[c.valueArg])
			key := p.FnName(fn) + "/" + p.FnName(put)
			r.Instance(rule, key)
			ctor, ok := stripConv(v).(*ssa.Call)
			if !ok || ctor.Common().StaticCallee() == nil {
				r.OK(rule, key, p.IPos(in), "the cached value is not built by a constructor call at this site")
				continue
			}
			cf := ctor.Common().StaticCallee()
			bad := ""
			for i, a := range ctor.Common().Args {
				if !projectionOf(k, a) {
					continue
				}
				// key is a strict projection of argument i: the constructor must not capture the argument itself
				if i < len(cf.Params) && capturesParam(cf, cf.Params[i]) {
					bad = fmt.Sprintf("the key is a projection of argument %d of %s, but %s keeps the whole argument: two different arguments with the same projection share one cache entry", i, p.FnName(cf), p.FnName(cf))
				}
			}
			r.Check(bad == "", rule, key, p.IPos(in), "the key designates the same object that the constructor of the cached value captures"+map[bool]string{true: "", false: " — " + bad}[bad == ""])
		}
	}
	r.Floor(rule, n, 1)
}

// capturesParam: the function stores the parameter value itself somewhere (field, element, global) or returns it.
func capturesParam(fn *ssa.Function, prm *ssa.Parameter) bool {
	refs := prm.Referrers()
	if refs == nil {
		return false
	}
	for _, in := range *refs {
		switch x := in.(type) {
		case *ssa.Store:
			if x.Val == ssa.Value(prm) {
				if _, isSpill := x.Addr.(*ssa.Alloc); isSpill && !x.Addr.(*ssa.Alloc).Heap {
					continue
				}
				return true
			}
		case *ssa.Return, *ssa.MapUpdate, *ssa.MakeInterface, *ssa.MakeClosure:
			return true
		}
	}
	return false
}

// ruleKeyGlobals — R-KEY/globals: a package-level option (an exported variable of a basic type of the module, which a user
// may change between two uses) that the construction of the cached value reads must be part of the key: the key
// constructor stores it into a field of the key object and the equality function reads that field.
func ruleKeyGlobals(p *Prog, r *Report, c keyFieldsCfg, ctorRecv, ctor string) {
	const rule = "R-KEY/globals"
	initF := p.Func(c.pkg, c.initRecv, c.initFn)
	eqF := p.Func(c.pkg, c.eqRecv, c.eqFn)
	// the construction of the cached value: everything reachable from the named constructor, or from the lookup function
	// when the constructor is not a function of its own
	build := p.TryFunc(c.pkg, ctorRecv, ctor)
	if build == nil {
		build = p.Func(c.pkg, c.lookupRecv, c.lookup)
	}
	reach := reachableFns(p, []*ssa.Function{build})
	isOption := func(g *ssa.Global) bool {
		if g.Pkg == nil || !p.inModule(g.Pkg.Pkg) || !g.Object().Exported() {
			return false
		}
		_, basic := deref(g.Type()).Underlying().(*types.Basic)
		return basic
	}
	read := map[*ssa.Global]ssa.Instruction{}
	var fns []*ssa.Function
	for f := range reach {
		fns = append(fns, f)
	}
	sort.Slice(fns, func(i, j int) bool { return p.FnName(fns[i]) < p.FnName(fns[j]) })
	for _, f := range fns {
		for _, b := range f.Blocks {
			for _, in := range b.Instrs {
				if u, ok := in.(*ssa.UnOp); ok && u.Op == token.MUL {
					if g, ok := u.X.(*ssa.Global); ok && isOption(g) && read[g] == nil {
						read[g] = in
					}
				}
			}
		}
	}
	var gs []*ssa.Global
	for g := range read {
		gs = append(gs, g)
	}
	sort.Slice(gs, func(i, j int) bool { return gs[i].Name() < gs[j].Name() })
	for _, g := range gs {
		key := c.pkg + "." + c.cacheRecv + "." + c.cacheFld + "/" + g.Name()
		r.Instance(rule, key)
		// the field of the key object that init fills from the option
		var fld *types.Var
		for _, b := range initF.Blocks {
			for _, in := range b.Instrs {
				st, ok := in.(*ssa.Store)
				if !ok {
					continue
				}
				ld, ok := stripConv(st.Val).(*ssa.UnOp)
				if !ok || ld.Op != token.MUL || ld.X != ssa.Value(g) {
					continue
				}
				if f := fieldOf(st.Addr); f != nil {
					fld = f
				}
			}
		}
		compared := false
		if fld != nil {
			for _, b := range eqF.Blocks {
				for _, in := range b.Instrs {
					if bo, ok := in.(*ssa.BinOp); ok && (bo.Op == token.EQL || bo.Op == token.NEQ) {
						if fieldOf(stripLoad(bo.X)) == fld && fieldOf(stripLoad(bo.Y)) == fld {
							compared = true
						}
					}
				}
			}
		}
		detail := fmt.Sprintf("the construction of the cached value reads the package option %s (at %s)", g.Name(), p.IPos(read[g]))
		switch {
		case fld == nil:
			r.Bad(rule, key, p.IPos(read[g]), detail+", which "+p.FnName(initF)+" does not record in the key: a cached value built under another setting of the option is returned")
		case !compared:
			r.Bad(rule, key, p.IPos(read[g]), detail+"; the key records it in field "+fld.Name()+" but "+p.FnName(eqF)+" does not compare that field")
		default:
			r.OK(rule, key, p.IPos(read[g]), detail+"; the key records it in field "+fld.Name()+", which "+p.FnName(eqF)+" compares")
		}
	}
	r.Count("R-KEY/globals options read", len(gs))
}

// stripLoad: the address a value was loaded from (or the value itself for a Field extraction).
func stripLoad(v ssa.Value) ssa.Value {
	v = stripConv(v)
	if u, ok := v.(*ssa.UnOp); ok && u.Op == token.MUL {
		return u.X
	}
	return v
}
