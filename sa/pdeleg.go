package main

import (
	"go/types"

	"golang.org/x/tools/go/ssa"
)

// delegateOf: f is a pure forwarder — a single block whose only call is a static call to a module function g whose
// result(s) are returned as they are — and g is returned. The arguments may be parameters or constants only.
func delegateOf(p *Prog, f *ssa.Function) *ssa.Function {
	if f == nil || len(f.Blocks) != 1 {
		return nil
	}
	var call *ssa.Call
	for _, in := range f.Blocks[0].Instrs {
		switch x := in.(type) {
		case *ssa.Call:
			if call != nil {
				return nil
			}
			call = x
		case *ssa.Return:
			if call == nil {
				return nil
			}
			for _, res := range x.Results {
				switch y := res.(type) {
				case *ssa.Call:
					if y != call {
						return nil
					}
				case *ssa.Extract:
					if y.Tuple != ssa.Value(call) {
						return nil
					}
				default:
					return nil
				}
			}
		case *ssa.Extract, *ssa.DebugRef:
		case *ssa.Alloc, *ssa.Store, *ssa.UnOp, *ssa.FieldAddr, *ssa.Field:
			// spilled value receiver / parameters
		default:
			return nil
		}
	}
	if call == nil {
		return nil
	}
	g := call.Common().StaticCallee()
	if g == nil || g.Blocks == nil || !p.inModule(fnPkg(g)) {
		return nil
	}
	return g
}

// withDelegates: f followed by the functions it forwards to.
func withDelegates(p *Prog, f *ssa.Function) []*ssa.Function {
	out := []*ssa.Function{f}
	for i := 0; i < 4; i++ {
		g := delegateOf(p, out[len(out)-1])
		if g == nil {
			break
		}
		out = append(out, g)
	}
	return out
}

// staticCallToAny: in is a static call to one of fns.
func staticCallToAny(in ssa.Instruction, fns []*ssa.Function) bool {
	for _, f := range fns {
		if staticCallTo(in, f) {
			return true
		}
	}
	return false
}

// paramReachesReturn: the value of parameter i of f may flow into a returned value (through conversions, struct
// building in locals, arithmetic, and calls: a call with a tainted argument taints its result and the local objects
// whose address it receives; a static module callee is followed instead when it has a body).
func paramReachesReturn(p *Prog, f *ssa.Function, i int, depth int) bool {
	if f == nil || f.Blocks == nil || i >= len(f.Params) || depth > 4 {
		return false
	}
	tainted := map[ssa.Value]bool{f.Params[i]: true}
	root := func(v ssa.Value) ssa.Value {
		for k := 0; k < 12; k++ {
			switch x := v.(type) {
			case *ssa.FieldAddr:
				v = x.X
			case *ssa.IndexAddr:
				v = x.X
			default:
				return v
			}
		}
		return v
	}
	for changed := true; changed; {
		changed = false
		mark := func(v ssa.Value) {
			if v != nil && !tainted[v] {
				tainted[v] = true
				changed = true
			}
		}
		for _, b := range f.Blocks {
			for _, in := range b.Instrs {
				switch x := in.(type) {
				case *ssa.Store:
					if tainted[x.Val] {
						if a, ok := root(x.Addr).(*ssa.Alloc); ok {
							mark(a)
						}
					}
				case *ssa.Return:
					for _, res := range x.Results {
						if tainted[res] {
							return true
						}
					}
				case *ssa.Call:
					any := false
					var which []int
					for k, a := range x.Common().Args {
						if tainted[a] || tainted[root(a)] {
							any = true
							which = append(which, k)
						}
					}
					if x.Common().IsInvoke() && tainted[x.Common().Value] {
						any = true
					}
					if !any {
						continue
					}
					if sc := x.Common().StaticCallee(); sc != nil && sc.Blocks != nil && p.inModule(fnPkg(sc)) {
						for _, k := range which {
							if paramReachesReturn(p, sc, k, depth+1) {
								mark(x)
							}
						}
						continue
					}
					mark(x)
					for _, a := range x.Common().Args {
						if _, isPtr := a.Type().Underlying().(*types.Pointer); isPtr {
							if al, ok := root(a).(*ssa.Alloc); ok {
								mark(al)
							}
						}
					}
				default:
					v, ok := in.(ssa.Value)
					if !ok {
						continue
					}
					for _, op := range in.Operands(nil) {
						if *op != nil && tainted[*op] {
							mark(v)
							break
						}
					}
				}
			}
		}
	}
	return false
}
