package main

// c16.go — C16 The system font index survives persistence, corruption and incremental refresh (R-GEN on the deserializers,
// R-ERR, R-LAYOUT). File-system histories are not applicable to static analysis.

import (
	"strings"

	"golang.org/x/tools/go/ssa"
)

func init() {
	register(&propDef{id: "C16", run: runC16, controls: controlsC16})
}

var fontscanPairs = []layoutPair{
	{"serializeFloat", "deserializeFloat"},
	{"serializeString", "deserializeString"},
	{"serializeAspect", "deserializeAspectFrom"},
	{"Footprint.serializeTo", "Footprint.deserializeFrom"},
	{"serializeFootprintsTo", "deserializeFootprints"},
	{"fileFootprints.serializeTo", "fileFootprints.deserializeFrom"},
	{"systemFontsIndex.serializeTo", "deserializeIndex"},
	{"RuneSet.serialize", "RuneSet.deserializeFrom"},
	{"ScriptSet.serialize", "ScriptSet.deserializeFrom"},
	{"LangSet.serialize", "LangSet.deserializeFrom"},
	{"timeStamp.serialize", "timeStamp.deserialize"},
}

func isFontscanReader(p *Prog) func(f *ssa.Function) bool {
	return func(f *ssa.Function) bool {
		if fnPkg(f) == nil || fnPkg(f).Path() != p.pkgPath("fontscan") {
			return false
		}
		n := f.Name()
		return strings.Contains(strings.ToLower(n), "deserialize")
	}
}

func runC16(p *Prog, r *Report) {
	r.Explain = append(r.Explain, "R-GEN (P-LIN) on the cache readers of fontscan: every index, slice and binary.*.UintN access to the input bytes of a deserialize* function follows from the length tests that dominate it (linear facts: failing edges of comparisons, loop headers, lengths of made slices, `read <= len(arg)` post-conditions of the nested readers, constant length preconditions of helpers checked at every call site): a truncated or corrupted cache yields an error, not a panic.")
	ruleGenReaders(p, r, "R-GEN", isFontscanReader(p), nil, 8)
	r.Explain = append(r.Explain, "R-ERR: the error of every deserialize* call is returned or tested on all paths; the one deliberate discard (refreshSystemFontsIndex) feeds a value that is only handed to scanFontFootprints.")
	ruleErr(p, r)
	r.Explain = append(r.Explain, "R-LAYOUT: each serialize* function of the index and its deserialize* sibling go through the same sequence of layout items — fixed-width integers (binary.BigEndian.PutUintN / UintN), single bytes, raw byte runs, nested records (a call of another writer / of its sibling reader) — with the same widths, the same constant offsets and strides (named constants folded), the same loop nesting and, where both sides name one, the same struct field. A necessary condition of the round trip; values, clamping and lengths are not decided.")
	ruleLayout(p, r, "fontscan", fontscanPairs, []string{"systemFontsIndex.serializeToFile", "deserializeIndexFile"}, 10)
	r.Explain = append(r.Explain, "R-STAMP: every os.FileInfo that reaches newTimeStamp — the stamp stored in the index and compared to decide whether a previous scan is reused — comes (through parameters, up the call graph) from a stat that follows symbolic links (os.Stat, (*os.File).Stat), or from os.Lstat / fs.DirEntry.Info only where the entry was tested not to be a link. A necessary condition of 'incremental refresh == scan from scratch' when the target of a link is replaced or touched; the refresh over file-system histories itself is not decided.")
	ruleStamp(p, r, "fontscan", "newTimeStamp", 1)
	r.Explain = append(r.Explain,
		"R-STAMP/eq: values of fontscan.timeStamp are compared for equality only (a stamp identifies a version of a file; an ordering keeps the footprint of a file replaced by an older one).",
		"R-TRUNC: every file fontscan opens for writing is truncated (os.Create, or os.OpenFile with O_TRUNC, O_APPEND or O_EXCL in its constant flags): a shorter index must not keep the tail of the previous one.")
	ruleStampIdentity(p, r, "fontscan", "timeStamp", 1)
	ruleTruncOnWrite(p, r, "fontscan", 1)
	r.Explain = append(r.Explain, "R-DRAIN: a function that reads the index through a gzip reader returns success only after io.Copy / io.ReadAll has read that reader to its end and its error was tested, on every path: the CRC-32 of the gzip trailer is verified only there, so a corrupted cache gives an error instead of stale or damaged footprints that an incremental refresh would keep.")
	ruleDrain(p, r, "fontscan", 1)
	r.Assumptions = append(r.Assumptions, "integer overflow of offset arithmetic is not modelled", "compress/gzip and bytes.Buffer are trusted", "incremental refresh versus from-scratch scan over file-system histories is behaviour over an external mutable world and is NOT decided; of the round trip only the writer/reader layout agreement (R-LAYOUT) is decided, not the values")
	r.NotDecided = append(r.NotDecided, "round-trip equality of the index beyond layout agreement (values, clamping, NaN)", "refresh equals rescan after any history of file-system changes")
}

// ruleErr: errors returned by deserialize* functions are not dropped.
func ruleErr(p *Prog, r *Report) {
	const rule = "R-ERR"
	sel := isFontscanReader(p)
	n := 0
	for _, f := range p.ModFns() {
		if fnPkg(f) == nil || fnPkg(f).Path() != p.pkgPath("fontscan") {
			continue
		}
		for _, b := range f.Blocks {
			for _, in := range b.Instrs {
				call, ok := in.(*ssa.Call)
				if !ok {
					continue
				}
				sc := call.Common().StaticCallee()
				if sc == nil || !sel(sc) {
					continue
				}
				res := sc.Signature.Results()
				if res.Len() == 0 || res.At(res.Len()-1).Type().String() != "error" {
					continue
				}
				n++
				key := p.FnName(f) + "->" + sc.Name()
				r.Instance(rule, key)
				used := false
				if res.Len() == 1 {
					used = call.Referrers() != nil && len(*call.Referrers()) > 0
				} else if refs := call.Referrers(); refs != nil {
					for _, u := range *refs {
						if ex, ok := u.(*ssa.Extract); ok && ex.Index == res.Len()-1 && ex.Referrers() != nil && len(*ex.Referrers()) > 0 {
							used = true
						}
					}
				}
				if !used && f.Name() == "refreshSystemFontsIndex" && sc.Name() == "deserializeIndexFile" {
					r.OK(rule, key, p.IPos(in), "deliberate discard: an unreadable cache means scanning from scratch (a nil index is handed to scanFontFootprints)")
					continue
				}
				r.Check(used, rule, key, p.IPos(in), "the error of the reader is consumed (returned or tested)")
			}
		}
	}
	r.Floor(rule, n, 8)
}

func controlsC16(cp *Prog, r *Report) {
	expectControl(r, "R-DRAIN", func(cr *Report) { ruleDrain(cp, cr, "stamp", 2) }, "stamp.readBad/success")
	expectControl(r, "R-STAMP", func(cr *Report) {
		ruleStamp(cp, cr, "stamp", "newStampGood", 1)
		ruleStamp(cp, cr, "stamp", "newStampBad", 1)
		ruleStamp(cp, cr, "stamp", "newStampOpt", 2)
	}, "newStampBad/(io/fs.DirEntry).Info")
	expectControl(r, "R-STAMP/eq", func(cr *Report) {
		ruleStampIdentity(cp, cr, "stamp", "stampGood", 1)
		ruleStampIdentity(cp, cr, "stamp", "stampBad", 1)
	}, "stamp.stampBad")
	expectControl(r, "R-TRUNC", func(cr *Report) { ruleTruncOnWrite(cp, cr, "stamp", 3) }, "stamp.writeBad/os.OpenFile")
	expectControl(r, "R-GEN", func(cr *Report) {
		ruleGenReaders(cp, cr, "R-GEN", func(f *ssa.Function) bool {
			return fnPkg(f) != nil && fnPkg(f).Path() == "ctl/des"
		}, nil, 4)
	}, "(*des.entry).readBad", "des.stringBad", "des.stampCallerBad", "des.docWrapBad", "des.signBad", "des.fillBad", "des.rowKO", "des.reloadBad", "(des.kern2).joinBad", "des.constPhiBad")
	expectControl(r, "R-LAYOUT", func(cr *Report) {
		ruleLayout(cp, cr, "lay", []layoutPair{{"serializeGood", "deserializeGood"}, {"serializeSwap", "deserializeSwap"}, {"serializeWidth", "deserializeWidth"},
			{"serializeStride", "deserializeStride"}, {"serializeNested", "deserializeNested"}}, nil, 5)
	}, "lay.serializeSwap <-> deserializeSwap", "lay.serializeWidth <-> deserializeWidth", "lay.serializeStride <-> deserializeStride", "lay.serializeNested <-> deserializeNested")
}
