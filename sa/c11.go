package main

// c11.go — C11 Character map lookup, enumeration and coverage agree (R-SIB, R-COV, table preconditions).

import (
	"fmt"
	"go/token"
	"go/types"
	"sort"

	"golang.org/x/tools/go/ssa"
)

func init() {
	register(&propDef{id: "C11", run: runC11, controls: controlsC11})
}

// ruleSibling: a struct type that embeds an implementation of iface and declares its own `primary` method must declare
// every method of `siblings` too — otherwise the embedded value's siblings answer for another function than the override.
func ruleSibling(p *Prog, r *Report, pkg, ifaceName, primary string, siblings []string, floor int) {
	const rule = "R-SIB"
	iface, ok := p.Named(pkg, ifaceName).Underlying().(*types.Interface)
	if !ok {
		undecided("anchor: %s.%s is not an interface", pkg, ifaceName)
	}
	sc := p.Pkg(pkg).Types.Scope()
	names := sc.Names()
	sort.Strings(names)
	n := 0
	for _, name := range names {
		tn, ok := sc.Lookup(name).(*types.TypeName)
		if !ok {
			continue
		}
		nt, ok := tn.Type().(*types.Named)
		if !ok {
			continue
		}
		st, ok := nt.Underlying().(*types.Struct)
		if !ok {
			continue
		}
		if !types.Implements(nt, iface) && !types.Implements(types.NewPointer(nt), iface) {
			continue
		}
		embeds := false
		for i := 0; i < st.NumFields(); i++ {
			f := st.Field(i)
			if f.Embedded() && (types.Implements(f.Type(), iface) || types.Identical(f.Type().Underlying(), iface)) {
				embeds = true
			}
		}
		if !embeds {
			continue
		}
		declared := map[string]bool{}
		for i := 0; i < nt.NumMethods(); i++ {
			declared[nt.Method(i).Name()] = true
		}
		if !declared[primary] {
			continue
		}
		n++
		key := pkg + "." + name
		r.Instance(rule, key)
		var missing []string
		for _, s := range siblings {
			if !declared[s] {
				missing = append(missing, s)
			}
		}
		r.Check(len(missing) == 0, rule, key, p.Pos(tn.Pos()), fmt.Sprintf("%s overrides %s of the embedded %s; the sibling methods %v must be overridden too, otherwise enumeration and point lookup are different functions (inherited: %v)", name, primary, ifaceName, siblings, missing))
	}
	r.Floor(rule, n, floor)
}

// ruleSharedIter — R-SIB/iter: the iterator a map type returns decides what its enumeration yields. Two implementations of
// the map interface whose Iter methods build the same concrete iterator type enumerate with the same function; they must
// then also look up with the same function (the same declared Lookup, e.g. one type serving two formats) — otherwise
// enumeration and point lookup disagree for one of them by construction. Iterator types with a field of function type are
// parameterised by their builder and decide nothing.
func ruleSharedIter(p *Prog, r *Report, pkg, ifaceName, lookup, iter string, floor int) {
	const rule = "R-SIB/iter"
	iface, ok := p.Named(pkg, ifaceName).Underlying().(*types.Interface)
	if !ok {
		undecided("anchor: %s.%s is not an interface", pkg, ifaceName)
	}
	sc := p.Pkg(pkg).Types.Scope()
	names := sc.Names()
	sort.Strings(names)
	type impl struct {
		name   string
		lookup *ssa.Function
		pos    token.Pos
	}
	byIter := map[string][]impl{}
	n := 0
	for _, name := range names {
		tn, ok := sc.Lookup(name).(*types.TypeName)
		if !ok || tn.IsAlias() {
			continue
		}
		nt, ok := tn.Type().(*types.Named)
		if !ok {
			continue
		}
		var recv types.Type = nt
		if !types.Implements(nt, iface) {
			if !types.Implements(types.NewPointer(nt), iface) {
				continue
			}
			recv = types.NewPointer(nt)
		}
		declared := map[string]bool{}
		for i := 0; i < nt.NumMethods(); i++ {
			declared[nt.Method(i).Name()] = true
		}
		if !declared[iter] || !declared[lookup] {
			continue // inherited through an embedded map: R-SIB
		}
		fIter := p.SSA.LookupMethod(recv, tn.Pkg(), iter)
		fLook := p.SSA.LookupMethod(recv, tn.Pkg(), lookup)
		if fIter == nil || fLook == nil || fIter.Blocks == nil {
			continue
		}
		// the concrete types the method boxes into its result
		for _, b := range fIter.Blocks {
			for _, in := range b.Instrs {
				mi, ok := in.(*ssa.MakeInterface)
				if !ok {
					continue
				}
				itn := namedOf(mi.X.Type())
				if itn == nil || itn.Obj().Pkg() != tn.Pkg() {
					continue
				}
				// an iterator that carries a function is parameterised by the map that builds it: what it yields is
				// not decided by its type (the remapping iterators)
				if st, ok := itn.Underlying().(*types.Struct); ok {
					param := false
					for i := 0; i < st.NumFields(); i++ {
						if _, isFn := st.Field(i).Type().Underlying().(*types.Signature); isFn {
							param = true
						}
					}
					if param {
						continue
					}
				}
				n++
				byIter[itn.Obj().Name()] = append(byIter[itn.Obj().Name()], impl{name, fLook, tn.Pos()})
			}
		}
	}
	var its []string
	for k := range byIter {
		its = append(its, k)
	}
	sort.Strings(its)
	for _, it := range its {
		key := pkg + "." + it
		r.Instance(rule, key)
		impls := byIter[it]
		bad := ""
		for _, x := range impls[1:] {
			if x.lookup != impls[0].lookup {
				bad = fmt.Sprintf("%s and %s enumerate through %s and look up through different functions", impls[0].name, x.name, it)
			}
		}
		r.Check(bad == "", rule, key, p.Pos(impls[0].pos), fmt.Sprintf("the %d map type(s) enumerating through %s look up through one function", len(impls), it)+pref(bad))
	}
	r.Floor(rule, n, floor)
}

// ruleCoverageSource: the coverage builders are fed with the cmap object the face uses.
func ruleCoverageSource(p *Prog, r *Report) {
	const rule = "R-COV"
	ncc := p.Func("fontscan", "", "newCoveragesFromCmap")
	fCmap := p.Field("font", "Font", "Cmap")
	process := p.Func("font", "", "ProcessCmap")
	parse := p.Func("font/opentype/tables", "", "ParseCmap")
	for _, who := range []string{"newFootprintFromFont", "newFootprintFromLoader"} {
		f := p.Func("fontscan", "", who)
		key := "fontscan." + who
		r.Instance(rule, key)
		cs := callsOf(f, ncc)
		if len(cs) != 1 {
			r.Bad(rule, key, p.Pos(f.Pos()), fmt.Sprintf("expected one call of newCoveragesFromCmap, found %d", len(cs)))
			continue
		}
		arg := cs[0].Common().Args[0]
		switch who {
		case "newFootprintFromFont":
			r.Check(isLoadOfField(arg, fCmap), rule, key, p.IPos(cs[0]), "the coverage is computed from Font.Cmap, the very object Face.NominalGlyph consults")
		default:
			ex, ok := arg.(*ssa.Extract)
			good := false
			if ok && ex.Index == 0 {
				if c, ok := ex.Tuple.(*ssa.Call); ok && c.Common().StaticCallee() == process {
					// its table argument is the result of ParseCmap
					if e2, ok := c.Common().Args[0].(*ssa.Extract); ok && e2.Index == 0 {
						if c2, ok := e2.Tuple.(*ssa.Call); ok && c2.Common().StaticCallee() == parse {
							good = true
						}
					}
				}
			}
			r.Check(good, rule, key, p.IPos(cs[0]), "the coverage is computed from font.ProcessCmap(tables.ParseCmap(raw), page), the constructor NewFont uses for Font.Cmap")
		}
	}
	// the font page handed to ProcessCmap by the scanner is read from OS/2 when — and only when — the table parsed
	{
		f := p.Func("fontscan", "", "newFootprintFromLoader")
		parseOs2 := p.Func("font/opentype/tables", "", "ParseOs2")
		fontPage := p.Func("font/opentype/tables", "Os2", "FontPage")
		key := "fontscan.newFootprintFromLoader/fontPage"
		r.Instance(rule, key)
		ok, why := false, "no call of (Os2).FontPage whose result reaches ProcessCmap"
		for _, pc := range callsOf(f, process) {
			page := pc.Common().Args[1]
			for _, fc := range callsOf(f, fontPage) {
				if !derivesFrom(page, func(v ssa.Value) bool { return v == ssa.Value(fc) }, 0) {
					continue
				}
				// the call is reachable only from the edge on which the error of ParseOs2 is nil
				ok, why = false, "the font page is read on a path where ParseOs2 returned an error (the table it is read from is the zero value)"
				for _, b := range f.Blocks {
					iff := ifOf(b)
					if iff == nil {
						continue
					}
					bo, isBo := iff.Cond.(*ssa.BinOp)
					if !isBo || bo.Op != token.EQL && bo.Op != token.NEQ {
						continue
					}
					isErr := func(v ssa.Value) bool {
						ex, isEx := v.(*ssa.Extract)
						if !isEx {
							return false
						}
						c, isC := ex.Tuple.(*ssa.Call)
						return isC && c.Common().StaticCallee() == parseOs2 && ex.Index == 2
					}
					isNil := func(v ssa.Value) bool { c, isC := v.(*ssa.Const); return isC && c.Value == nil }
					if !(isErr(bo.X) && isNil(bo.Y) || isErr(bo.Y) && isNil(bo.X)) {
						continue
					}
					// the edge on which err != nil must not reach the FontPage call
					if guardedBy(p, f, fc, guard{iff, bo.Op == token.NEQ}) {
						ok, why = true, ""
					}
				}
			}
		}
		r.Check(ok, rule, key, p.Pos(f.Pos()), "the font page given to ProcessCmap by the scanner is (Os2).FontPage() of a successfully parsed OS/2 table, as in NewFont"+pref(why))
	}
	// NewFont builds Font.Cmap with the same constructor
	nf := p.Func("font", "", "NewFont")
	key := "font.NewFont/Cmap"
	r.Instance(rule, key)
	good := false
	for _, b := range nf.Blocks {
		for _, in := range b.Instrs {
			if st, ok := in.(*ssa.Store); ok && fieldOf(st.Addr) == fCmap {
				if ex, ok := st.Val.(*ssa.Extract); ok && ex.Index == 0 {
					if c, ok := ex.Tuple.(*ssa.Call); ok && c.Common().StaticCallee() == process {
						good = true
					}
				}
			}
		}
	}
	r.Check(good, rule, key, p.Pos(nf.Pos()), "Font.Cmap is the first result of font.ProcessCmap")
	_ = token.ADD
}

func runC11(p *Prog, r *Report) {
	r.Explain = append(r.Explain,
		"R-SIB: every type of package font that implements Cmap by embedding a Cmap and declares its own Lookup also declares Iter (and RuneRanges is not inherited from the embedded value) — otherwise enumeration and point lookup are different functions by construction.",
		"R-COV: both coverage builders of fontscan are fed with the cmap the face uses: Font.Cmap itself, respectively the result of font.ProcessCmap(tables.ParseCmap(raw), page), the constructor NewFont stores into Font.Cmap; the font page argument of the scanner is (Os2).FontPage() read on the edge where ParseOs2 succeeded.",
		"R-TAB: ScriptRanges sorted and disjoint (precondition of the merge in scriptsFromRanges).")
	ruleSibling(p, r, "font", "Cmap", "Lookup", []string{"Iter"}, 3)
	r.Explain = append(r.Explain, "R-SIB/iter: two Cmap implementations whose Iter methods build the same concrete iterator type have the same Lookup function: the iterator decides what the enumeration yields, so sharing it between formats whose lookups differ (format 13 is many-to-one, format 12 is not) makes one of them disagree with itself.")
	ruleSharedIter(p, r, "font", "Cmap", "Lookup", "Iter", 5)
	ruleCoverageSource(p, r)
	r.Explain = append(r.Explain, "R-ORDERDEP: no function of the font packages and of fontscan hands out an element of a map on the first iteration of a range over it without a test (the subtable chosen by ProcessCmap, and with it lookup, enumeration and the coverage computed by the scanner, must be a function of the font, not of the iteration order of a map).")
	ruleOrderDep(p, r, []string{"font", "font/opentype", "font/opentype/tables", "font/cff", "fontscan", "language", "unicodedata", "shaping", "harfbuzz", "segmenter"}, 5)
	le := newLitEval(p)
	ruleSortedRanges(p, r, le, "language", "ScriptRanges", "Start", "End", 900)
	r.Assumptions = append(r.Assumptions, "the per-format Lookup/Iter implementations (cmap0/4/6/10/12/13) are NOT compared with each other: zero-glyph entries and delta wrap-around inside cmap4 are runtime arithmetic")
	r.NotDecided = append(r.NotDecided, "agreement of Lookup and Iter inside each cmap format", "RuneSet set algebra and addRangeToPage bit arithmetic")
}

func controlsC11(cp *Prog, r *Report) {
	expectControl(r, "R-SIB", func(cr *Report) { ruleSibling(cp, cr, "sib", "Map", "Lookup", []string{"Iter"}, 2) }, "sib.remapBad")
	expectControl(r, "R-ORDERDEP", func(cr *Report) { ruleOrderDep(cp, cr, []string{"sib"}, 2) }, "sib.pickBad/range m")
	expectControl(r, "R-SIB/iter", func(cr *Report) { ruleSharedIter(cp, cr, "sib", "Map", "Lookup", "Iter", 3) }, "sib.seqIter")
}
