// Package sib holds positive controls for R-SIB.
package sib

type Iter interface {
	Next() bool
	Char() (rune, int)
}

type Map interface {
	Lookup(r rune) (int, bool)
	Iter() Iter
}

type base struct{ m map[rune]int }

func (b base) Lookup(r rune) (int, bool) { g, ok := b.m[r]; return g, ok }
func (b base) Iter() Iter                { return nil }

// seeded: overrides Lookup, inherits Iter
type remapBad struct{ Map }

func (r remapBad) Lookup(c rune) (int, bool) {
	if g, ok := r.Map.Lookup(c); ok {
		return g, true
	}
	return r.Map.Lookup(0xF000 + c)
}

type remapGood struct{ Map }

func (r remapGood) Lookup(c rune) (int, bool) { return r.Map.Lookup(0xF000 + c) }
func (r remapGood) Iter() Iter                { return r.Map.Iter() }

// embeds without overriding: fine
type passThrough struct{ Map }

var _ = []Map{base{}, remapBad{}, remapGood{}, passThrough{}}

// two formats over the same records: one maps a range to consecutive values, the other to one value
type group struct{ start, end rune; first int }

type seq []group
type many []group

type seqIter struct {
	data seq
	i    int
	off  rune
}

func (it *seqIter) Next() bool { return it.i < len(it.data) }
func (it *seqIter) Char() (rune, int) {
	g := it.data[it.i]
	r, v := g.start+it.off, g.first+int(it.off)
	if r == g.end {
		it.i, it.off = it.i+1, 0
	} else {
		it.off++
	}
	return r, v
}

type manyIter struct {
	data many
	i    int
	off  rune
}

func (it *manyIter) Next() bool { return it.i < len(it.data) }
func (it *manyIter) Char() (rune, int) {
	g := it.data[it.i]
	r := g.start + it.off
	if r == g.end {
		it.i, it.off = it.i+1, 0
	} else {
		it.off++
	}
	return r, g.first
}

func (s seq) Lookup(r rune) (int, bool) {
	for _, g := range s {
		if g.start <= r && r <= g.end {
			return g.first + int(r-g.start), true
		}
	}
	return 0, false
}
func (s seq) Iter() Iter { return &seqIter{data: s} }

// good: its own iterator
type manyGood []group

func (s manyGood) Lookup(r rune) (int, bool) {
	for _, g := range s {
		if g.start <= r && r <= g.end {
			return g.first, true
		}
	}
	return 0, false
}
func (s manyGood) Iter() Iter { return &manyIter{data: many(s)} }

// bad: the many-to-one format enumerates with the iterator of the sequential one
func (s many) Lookup(r rune) (int, bool) { return manyGood(s).Lookup(r) }
func (s many) Iter() Iter                { return &seqIter{data: seq(s)} }

// the first element of a map, whichever it is
func pickBad(m map[int]Map) Map {
	for _, v := range m {
		return v
	}
	return nil
}

// the element satisfying a test
func pickGood(m map[int]Map, want int) Map {
	for k, v := range m {
		if k == want {
			return v
		}
	}
	return nil
}
