// Package sib holds positive controls for R-SIB.
package sib

type Iter interface {
	Next() bool
	Char() (rune, int)
}

type Map interface {
	Lookup(r rune) (int, bool)
	Iter() Iter
}

type base struct{ m map[rune]int }

func (b base) Lookup(r rune) (int, bool) { g, ok := b.m[r]; return g, ok }
func (b base) Iter() Iter                { return nil }

// seeded: overrides Lookup, inherits Iter
type remapBad struct{ Map }

func (r remapBad) Lookup(c rune) (int, bool) {
	if g, ok := r.Map.Lookup(c); ok {
		return g, true
	}
	return r.Map.Lookup(0xF000 + c)
}

type remapGood struct{ Map }

func (r remapGood) Lookup(c rune) (int, bool) { return r.Map.Lookup(0xF000 + c) }
func (r remapGood) Iter() Iter                { return r.Map.Iter() }

// embeds without overriding: fine
type passThrough struct{ Map }

var _ = []Map{base{}, remapBad{}, remapGood{}, passThrough{}}
