// Package reflr: negative control of R-NOUNSAFE (reflect used for read-only questions).
package reflr

import "reflect"

func SameType(a, b interface{}) bool { return reflect.TypeOf(a) == reflect.TypeOf(b) && reflect.DeepEqual(a, a) }

func Name(a interface{}) string { return reflect.TypeOf(a).String() }
