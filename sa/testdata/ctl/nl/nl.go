// Package nl: positive and negative controls of R-NIL (interfaces left nil by a NULL offset).
package nl

type Cov interface{ Index(g int) int }

type cov1 struct{}

func (cov1) Index(int) int { return 0 }

type Look interface{ isLook() }

type T struct {
	C Cov   // nullable
	D Cov   // nullable
	F Cov   // nullable, replaced by fillLook
	R Cov   // nullable, a nil one is refused by checkT
	U Cov   // always set
	E []Cov // elements nullable
}

func (T) isLook() {}

type W struct {
	c    Cov // copied from T.D
	t    T
	hasD bool // caches t.D != nil
}

func parseT(src []byte) (T, error) {
	var t T
	t.U = cov1{}
	if off := int(src[0]); off != 0 {
		t.C = cov1{}
	}
	if off := int(src[1]); off != 0 {
		t.D = cov1{}
	}
	if off := int(src[2]); off != 0 {
		t.F = cov1{}
	}
	if off := int(src[5]); off != 0 {
		t.R = cov1{}
	}
	t.E = make([]Cov, 2)
	for i := range t.E {
		off := int(src[3+i])
		if off == 0 {
			continue
		}
		t.E[i] = cov1{}
	}
	return t, nil
}

func nonNilCov(c Cov) Cov {
	if c == nil {
		return cov1{}
	}
	return c
}

func fillLook(l Look) Look {
	switch l := l.(type) {
	case T:
		l.F = nonNilCov(l.F)
		return l
	}
	return l
}

func parseLook(src []byte) (Look, error) {
	t, err := parseT(src)
	var out Look = t
	return fillLook(out), err
}

// rawLook hands out a Look that did not go through fillLook
func rawLook(src []byte) (Look, error) {
	t, err := parseT(src)
	return t, err
}

func useBad(t T) int { return t.C.Index(1) }

func useGood(t T) int {
	if t.C == nil {
		return 0
	}
	return t.C.Index(1)
}

func useAlways(t T) int { return t.U.Index(1) }

func useFilled(t T) int { return t.F.Index(1) }

func useElemBad(t T, i int) int { return t.E[i&1].Index(0) }

func useElemGood(t T, i int) int {
	s := t.E[i&1]
	if s == nil {
		return 0
	}
	return s.Index(0)
}

func helper(c Cov) int { return c.Index(0) }

func viaParamBad(t T) int { return helper(t.D) }

func helperGuarded(c Cov) int { return c.Index(0) }

func viaParamGood(t T) int {
	if t.D != nil {
		return helperGuarded(t.D)
	}
	return 0
}

func newW(t T) W { return W{c: t.D, t: t, hasD: t.D != nil} }

func (w W) copyBad() int { return w.c.Index(0) }

func (w W) flagGood() int {
	if w.hasD {
		return w.t.D.Index(0)
	}
	return 0
}

func (w W) copyGood() int {
	if w.c != nil {
		return w.c.Index(0)
	}
	return 0
}

func closureBad(t T) func(int) int {
	c := t.C
	return func(g int) int { return c.Index(g) }
}

type nilErr struct{}

func (nilErr) Error() string { return "nil" }

func checkT(t T) error {
	if t.R == nil {
		return nilErr{}
	}
	return nil
}

func loadT(t T) error { return checkT(t) }

func useRejected(t T) int { return t.R.Index(1) }
