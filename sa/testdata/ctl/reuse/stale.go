package reuse

// controls of R-STALE

type ginfo struct {
	cp, cluster int
	aux         uint8
}

type gbuf struct {
	info    []ginfo
	pos     []int
	scratch []int
}

func (b *gbuf) clear() { b.info = b.info[:0]; b.pos = b.pos[:0] }

// growth through append: zeroed elements
func (b *gbuf) addGood(text []rune) {
	for i, r := range text {
		b.info = append(b.info, ginfo{cp: int(r), cluster: i})
	}
}

// re-extension in place: the elements keep the aux of the previous use
func (b *gbuf) addBad(text []rune) {
	start := len(b.info)
	if L := start + len(text); cap(b.info) >= L {
		b.info = b.info[:L]
	} else {
		b.info = append(b.info, make([]ginfo, len(text))...)
	}
	for i, r := range text {
		g := &b.info[start+i]
		g.cp, g.cluster = int(r), i
	}
}

// re-extension followed by a copy of the new length
func (b *gbuf) setScratch(src []int) {
	S := b.scratch
	if L := len(src); cap(S) < L {
		S = make([]int, L)
	} else {
		S = S[:L]
	}
	copy(S, src)
	b.scratch = S
}

// listed: every user rewrites the positions
func (b *gbuf) resizePos() {
	L := len(b.info)
	if cap(b.pos) >= L {
		b.pos = b.pos[:L]
	} else {
		b.pos = append(b.pos[:cap(b.pos)], make([]int, L-cap(b.pos))...)
	}
}

// a compaction never consults the capacity
func (b *gbuf) compact() {
	j := 0
	for i := range b.info {
		if b.info[i].cp != 0 {
			b.info[j] = b.info[i]
			j++
		}
	}
	b.info = b.info[:j]
}

// controls of R-STATE/array

type abuf struct{ ctx [2][]rune }
type abufBad struct{ ctx [2][]rune }

func (b *abuf) clearSide(side uint) { b.ctx[side] = b.ctx[side][:0] }
func (b *abuf) Clear() {
	b.clearSide(0)
	b.clearSide(1)
}

func (b *abufBad) clearSide(side uint) { b.ctx[side] = b.ctx[side][:0] }

// the text after the run survives
func (b *abufBad) Clear() { b.clearSide(0) }

// controls of R-STATE: a local of the same struct type on the stack (a by-value parameter) must not hide a read of the
// persistent object (P-FX has one abstract object per struct type)

type wcfg struct {
	dir  int
	trim bool
}

type Wrapper2 struct {
	cfg wcfg
}

func (w *Wrapper2) RunGood(c wcfg) int {
	w.cfg = c
	return w.cfg.dir
}

// reads the configuration of the previous call
func (w *Wrapper2) RunBad(c wcfg) int {
	d := w.cfg.dir
	w.cfg = c
	return d + c.dir
}
