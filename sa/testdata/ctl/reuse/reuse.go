// Package reuse holds positive controls for R-STATE (P-FX).
package reuse

type scratch struct {
	line     []int
	used     int
	hint     bool
	leftover int // seeded: never reset
}

func (s *scratch) reset() {
	s.line = s.line[:0]
	s.used = 0
	if s.hint {
		s.hint = false
		s.line = append(s.line[:cap(s.line)], 0)[:0]
	}
}

type mapper struct {
	valid bool
	idx   int
	m     []int
}

func (m *mapper) mapRun(i int, src []int) {
	if m.idx != i || !m.valid {
		m.m = append(m.m[:0], src...)
		m.idx = i
		m.valid = true
	}
}

type Wrapper struct {
	s     scratch
	mp    mapper
	start int
	more  bool
	total int // seeded: accumulates over calls
}

func (w *Wrapper) Prepare(n int) {
	w.start = 0
	w.more = n > 0
	w.mp.valid = false
	w.s.reset()
}

func (w *Wrapper) Next(src []int) int {
	if !w.more {
		return -1
	}
	w.mp.mapRun(w.start, src)
	w.s.used += len(w.mp.m)
	w.start++
	w.more = w.start < len(src)
	return w.s.used
}

func (w *Wrapper) WrapGood(src []int) int {
	w.Prepare(len(src))
	n := 0
	for w.more {
		n = w.Next(src)
	}
	return n
}

// seeded: reads total and leftover, which no reset writes
func (w *Wrapper) WrapBad(src []int) int {
	w.Prepare(len(src))
	w.total += len(src) + w.s.leftover
	w.s.leftover = len(src)
	return w.total
}

// ---- R-FRAME ----

type In struct {
	Text       []rune
	Start, End int
	Size       int
}

var pool []In

func resetPool() {
	for i := range pool {
		pool[i].Text = nil // excluded: drops stale references only
	}
	pool = pool[:0]
}

func splitGood(in In) {
	cur := in
	cur.End = in.Start + 1
	pool = append(pool, cur)
}

func splitBad(in In) {
	cur := in
	cur.End = in.Start + 1
	cur.Size = 12 // seeded
	pool = append(pool, cur)
}

func SplitAll(in In) []In {
	resetPool()
	splitGood(in)
	splitBad(in)
	return pool
}
