// Package lay: positive and negative controls of R-LAYOUT (writer/reader layout agreement).
package lay

import "encoding/binary"

type Rec struct {
	A, B uint16
	W    uint32
	Tags []uint16
}

const tagSize = 2

func serializeGood(r Rec) []byte {
	buf := make([]byte, 9+tagSize*len(r.Tags))
	binary.BigEndian.PutUint16(buf, r.A)
	binary.BigEndian.PutUint16(buf[2:], r.B)
	binary.BigEndian.PutUint32(buf[4:], r.W)
	buf[8] = byte(len(r.Tags))
	for i, t := range r.Tags {
		binary.BigEndian.PutUint16(buf[9+tagSize*i:], t)
	}
	return buf
}

func deserializeGood(r *Rec, data []byte) bool {
	if len(data) < 9 {
		return false
	}
	r.A = binary.BigEndian.Uint16(data)
	r.B = binary.BigEndian.Uint16(data[2:])
	r.W = binary.BigEndian.Uint32(data[4:])
	n := int(data[8])
	if len(data) < 9+tagSize*n {
		return false
	}
	r.Tags = make([]uint16, n)
	for i := range r.Tags {
		r.Tags[i] = binary.BigEndian.Uint16(data[9+tagSize*i:])
	}
	return true
}

// the reader swaps A and B
func serializeSwap(r Rec) []byte {
	buf := make([]byte, 4)
	binary.BigEndian.PutUint16(buf, r.A)
	binary.BigEndian.PutUint16(buf[2:], r.B)
	return buf
}

func deserializeSwap(r *Rec, data []byte) {
	r.B = binary.BigEndian.Uint16(data)
	r.A = binary.BigEndian.Uint16(data[2:])
}

// the reader reads W on 16 bits
func serializeWidth(r Rec) []byte {
	buf := make([]byte, 4)
	binary.BigEndian.PutUint32(buf, r.W)
	return buf
}

func deserializeWidth(r *Rec, data []byte) {
	r.W = uint32(binary.BigEndian.Uint16(data))
}

// the reader uses another stride
func serializeStride(r Rec) []byte {
	buf := make([]byte, tagSize*len(r.Tags))
	for i, t := range r.Tags {
		binary.BigEndian.PutUint16(buf[tagSize*i:], t)
	}
	return buf
}

func deserializeStride(r *Rec, data []byte) {
	for i := range r.Tags {
		r.Tags[i] = binary.BigEndian.Uint16(data[4*i:])
	}
}

// nested records in another order
func serializeNested(r Rec) []byte {
	out := append([]byte{}, serializeSwap(r)...)
	out = append(out, serializeWidth(r)...)
	return out
}

func deserializeNested(r *Rec, data []byte) {
	deserializeWidth(r, data)
	deserializeSwap(r, data[4:])
}
