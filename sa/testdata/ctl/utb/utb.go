// Package utb: controls for R-UTB/syllables and R-UTB/halfopen.
package utb

type GlyphInfo struct {
	Cluster   int
	codepoint rune
	syllable  uint8
}

type Buffer struct {
	Info []GlyphInfo
	out  []GlyphInfo
	idx  int
}

func (b *Buffer) nextGlyph() {
	b.out = append(b.out, b.Info[b.idx])
	b.idx++
}

func (b *Buffer) unsafeToBreak(start, end int) {
	for i := start; i < end; i++ {
		b.Info[i].Cluster |= 1 << 30
	}
}

type syllableIterator struct {
	buffer []GlyphInfo
	i      int
}

func (b *Buffer) syllableIterator() (*syllableIterator, int) {
	return &syllableIterator{buffer: b.Info}, len(b.Info)
}

func (it *syllableIterator) next() (start, end int) {
	start = it.i
	if start >= len(it.buffer) {
		return start, start
	}
	s := it.buffer[start].syllable
	for end = start + 1; end < len(it.buffer) && it.buffer[end].syllable == s; end++ {
	}
	it.i = end
	return start, end
}

func foundSyllable(typ uint8, ts, te int, info []GlyphInfo, serial *uint8) {
	for i := ts; i < te; i++ {
		info[i].syllable = (*serial << 4) | typ
	}
	*serial++
}

func findSyllables(b *Buffer) {
	var serial uint8 = 1
	for i := 0; i+1 < len(b.Info); i += 2 {
		foundSyllable(1, i, i+2, b.Info, &serial)
	}
}

// every syllable is flagged
func setupGood(b *Buffer) bool {
	findSyllables(b)
	iter, count := b.syllableIterator()
	for start, end := iter.next(); start < count; start, end = iter.next() {
		b.unsafeToBreak(start, end)
	}
	return false
}

// the loop is gone
func setupBadNone(b *Buffer) bool {
	findSyllables(b)
	return false
}

// some syllables are skipped
func setupBadSkip(b *Buffer) bool {
	findSyllables(b)
	iter, count := b.syllableIterator()
	for start, end := iter.next(); start < count; start, end = iter.next() {
		if b.Info[start].syllable&0x0F == 3 {
			continue
		}
		b.unsafeToBreak(start, end)
	}
	return false
}

// the range is not the syllable
func setupBadRange(b *Buffer) bool {
	findSyllables(b)
	iter, count := b.syllableIterator()
	for start, end := iter.next(); start < count; start, end = iter.next() {
		b.unsafeToBreak(start, start+1)
		_ = end
	}
	return false
}

// the flagged range [base, i+1) holds the glyph that is rewritten
func puaGood(b *Buffer) {
	base := 0
	for i := range b.Info {
		if b.Info[i].codepoint < 0x100 {
			base = i
			continue
		}
		b.unsafeToBreak(base, i+1)
		b.Info[i].codepoint += 0xF000
	}
}

// the range is half open: the rewritten glyph i is outside [base, i)
func puaBad(b *Buffer) {
	base := 0
	info := b.Info
	for i := range info {
		if info[i].codepoint < 0x100 {
			base = i
			continue
		}
		b.unsafeToBreak(base, i)
		info[i].codepoint += 0xF000
	}
}

// the pair (cursor, next glyph) is flagged before the cursor moves
func cursorGood(b *Buffer) {
	for b.idx = 0; b.idx+1 < len(b.Info); {
		if b.Info[b.idx+1].codepoint == 0x11C3 {
			b.unsafeToBreak(b.idx, b.idx+2)
			b.nextGlyph()
		}
		b.nextGlyph()
	}
}

// the cursor has moved: the range no longer holds the glyph the decision was taken on
func cursorBad(b *Buffer) {
	for b.idx = 0; b.idx+1 < len(b.Info); {
		if b.Info[b.idx+1].codepoint == 0x11C3 {
			b.nextGlyph()
			b.unsafeToBreak(b.idx, b.idx+2)
		}
		b.nextGlyph()
	}
}

// the loop lives in a helper: every syllable is flagged
func flagAll(b *Buffer) {
	iter, count := b.syllableIterator()
	for start, end := iter.next(); start < count; start, end = iter.next() {
		b.unsafeToBreak(start, end)
	}
}

func setupHelperGood(b *Buffer) bool {
	findSyllables(b)
	flagAll(b)
	return false
}

// the helper skips a kind of syllable
func flagSome(b *Buffer, skip uint8) {
	iter, count := b.syllableIterator()
	for start, end := iter.next(); start < count; start, end = iter.next() {
		if b.Info[start].syllable&0x0F == skip {
			continue
		}
		b.unsafeToBreak(start, end)
	}
}

func setupHelperBad(b *Buffer) bool {
	findSyllables(b)
	flagSome(b, 3)
	return false
}
