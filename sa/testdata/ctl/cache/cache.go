// Package cache holds positive controls for R-KEY and R-INV.
package cache

type font struct{ upem int }
type face struct {
	*font
	coords []int
}

type hbFont struct {
	f    *face
	upem int
}

func newHB(f *face) *hbFont { return &hbFont{f: f, upem: f.upem} }

// value only depends on the projection: fine to key by it
type metrics struct{ upem int }

func newMetrics(f *face) *metrics { return &metrics{upem: f.font.upem} }

type lru struct{ m map[interface{}]interface{} }

func (l *lru) Get(k interface{}) (interface{}, bool) { v, ok := l.m[k]; return v, ok }
func (l *lru) Put(k, v interface{}) {
	if l.m == nil {
		l.m = map[interface{}]interface{}{}
	}
	l.m[k] = v
}

type input struct {
	Face *face
	Size int
}

type shaper struct{ fonts, ms lru }

func (s *shaper) ShapeGood(in input) *hbFont {
	if v, ok := s.fonts.Get(in.Face); ok {
		return v.(*hbFont)
	}
	s.fonts.Put(in.Face, newHB(in.Face))
	return nil
}

// seeded: keyed by the font, value captures the face
func (s *shaper) ShapeBad(in input) *hbFont {
	if v, ok := s.fonts.Get(in.Face.font); ok {
		return v.(*hbFont)
	}
	s.fonts.Put(in.Face.font, newHB(in.Face))
	return nil
}

// keyed by a projection, but the constructor only uses that projection: fine
func (s *shaper) MetricsGood(in input) {
	s.ms.Put(in.Face.font, newMetrics(in.Face))
}

// ---- plan cache ----

type props struct{ dir, script int }
type sub struct {
	key    [2]int
	tables *font
}

func (s *sub) init(t *font, coords []int) {
	s.key = [2]int{find(t, coords), find(t, coords)}
	s.tables = t
}

func find(t *font, coords []int) int {
	for i, c := range coords {
		if c > t.upem {
			return i
		}
	}
	return -1
}

type planGood struct {
	shaper sub
	props  props
	feats  []int
}

func (p *planGood) init(f *hbFont, pr props, feats []int, coords []int) {
	p.props = pr
	p.feats = feats
	p.shaper.init(f.f.font, coords)
}

func (p planGood) equal(o planGood) bool {
	if len(p.feats) != len(o.feats) {
		return false
	}
	return p.props == o.props && p.shaper.key == o.shaper.key
}

type planBad struct {
	shaper sub
	props  props
	feats  []int
}

func (p *planBad) init(f *hbFont, pr props, feats []int, coords []int) {
	p.props = pr
	p.feats = feats
	p.shaper.init(f.f.font, coords)
}

// seeded: the variation key and the features are not compared
func (p planBad) equal(o planBad) bool { return p.props == o.props }

type buf struct {
	good map[*face][]*planGood
	bad  map[*face][]*planBad
}

func (b *buf) planGoodCached(f *hbFont, pr props, feats, coords []int) *planGood {
	var key planGood
	key.init(f, pr, feats, coords)
	for _, p := range b.good[f.f] {
		if p.equal(key) {
			return p
		}
	}
	p := &planGood{}
	p.init(f, pr, feats, coords)
	b.good[f.f] = append(b.good[f.f], p)
	return p
}

func (b *buf) planBadCached(f *hbFont, pr props, feats, coords []int) *planBad {
	var key planBad
	key.init(f, pr, feats, coords)
	for _, p := range b.bad[f.f] {
		if p.equal(key) {
			return p
		}
	}
	p := &planBad{}
	p.init(f, pr, feats, coords)
	b.bad[f.f] = append(b.bad[f.f], p)
	return p
}

// ---- invalidation ----

type ext struct {
	valid bool
	v     int
}
type extCache []ext

func (c extCache) reset() {
	for i := range c {
		c[i] = ext{}
	}
}

type Obj struct {
	cache  extCache
	coords []int
	ppem   int
	scale  int
	hint   int // never read by the computation
	db     []int
	built  bool
	cand   []int
}

func NewObj(n int) *Obj { return &Obj{cache: make(extCache, n), ppem: 1} } // constructor: fine

func (o *Obj) raw(g int) int { return g*o.ppem + len(o.coords) + o.scale }

func (o *Obj) Extent(g int) int {
	if o.cache[g].valid {
		return o.cache[g].v
	}
	v := o.raw(g)
	o.cache[g] = ext{true, v}
	return v
}

func (o *Obj) SetCoordsGood(c []int) { o.coords = c; o.cache.reset() }
func (o *Obj) SetHintGood(h int)     { o.hint = h }

// seeded: input changed, cache kept
func (o *Obj) SetPpemBad(p int) { o.ppem = p }

// seeded: reset only on one path
func (o *Obj) SetScaleBad(s int, fast bool) {
	o.scale = s
	if !fast {
		o.cache.reset()
	}
}

func (o *Obj) appendDB(x ...int) { o.db = append(o.db, x...) }

func (o *Obj) build() {
	if o.built {
		return
	}
	o.cand = o.cand[:0]
	for _, d := range o.db {
		if d > 0 {
			o.cand = append(o.cand, d)
		}
	}
	o.built = true
}

func (o *Obj) AddGood(x int) { o.appendDB(x); o.built = false }

// seeded: the helper changes the database, this caller does not invalidate
func (o *Obj) AddBad(x int) { o.appendDB(x) }

// ---- package options read while a cached value is built (R-KEY/globals) ----

// CompatGood is recorded in the key of optGood; CompatBad is read by buildOptBad but is not part of the key of optBad.
var (
	CompatGood = false
	CompatBad  = false
)

type optGood struct {
	props  props
	compat bool
	value  int
}

func (p *optGood) init(pr props) {
	p.props = pr
	p.compat = CompatGood
}

func (p optGood) equal(o optGood) bool { return p.props == o.props && p.compat == o.compat }

func buildOptGood(pr props) *optGood {
	p := &optGood{}
	p.init(pr)
	if CompatGood {
		p.value = 1
	}
	return p
}

type optBad struct {
	props props
	value int
}

func (p *optBad) init(pr props) { p.props = pr }

func (p optBad) equal(o optBad) bool { return p.props == o.props }

func buildOptBad(pr props) *optBad {
	p := &optBad{}
	p.init(pr)
	if CompatBad {
		p.value = 1
	}
	return p
}

type optBuf struct {
	good []*optGood
	bad  []*optBad
}

func (b *optBuf) goodCached(pr props) *optGood {
	var key optGood
	key.init(pr)
	for _, p := range b.good {
		if p.equal(key) {
			return p
		}
	}
	p := buildOptGood(pr)
	b.good = append(b.good, p)
	return p
}

func (b *optBuf) badCached(pr props) *optBad {
	var key optBad
	key.init(pr)
	for _, p := range b.bad {
		if p.equal(key) {
			return p
		}
	}
	p := buildOptBad(pr)
	b.bad = append(b.bad, p)
	return p
}

// ---- R-SCRATCH: a scratch map kept in a reusable object and lent to helpers

type crible map[string]int

func (c crible) reset() {
	for k := range c {
		delete(c, k)
	}
}

type matcher struct {
	scratch crible
	pool    crible
}

func (m *matcher) query(families []string) int {
	return selectGood(families, m.scratch) + selectForward(families, m.scratch) + selectBad(families[0], m.pool)
}

func selectGood(families []string, c crible) int {
	c.reset()
	for i, f := range families {
		c[f] = i
	}
	return len(c)
}

// only hands the map to a function that empties it first
func selectForward(families []string, c crible) int { return selectGood(families, c) }

// borrows the map assuming it is empty
func selectBad(family string, c crible) int {
	c[family] = 0
	n := len(c)
	delete(c, family)
	return n
}

// ---- R-ALIASCMP: change detection against storage that aliases the caller's

type view struct {
	coords []int
	own    []int
	cache  map[int]int
}

// keeps the caller's slice and always invalidates
func (v *view) SetGood(c []int) {
	v.coords = c
	v.cache = nil
}

// compares with its own copy
func (v *view) SetCopyGood(c []int) {
	if sameInts(v.own, c) {
		return
	}
	v.own = append(v.own[:0], c...)
	v.cache = nil
}

// compares with the caller's storage it kept
func (v *view) SetBad(c []int) {
	if sameInts(v.coords, c) {
		return
	}
	v.coords = c
	v.cache = nil
}

func sameInts(a, b []int) bool {
	if len(a) != len(b) {
		return false
	}
	for i := range a {
		if a[i] != b[i] {
			return false
		}
	}
	return true
}
