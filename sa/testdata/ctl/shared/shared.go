// Package shared holds positive controls for R-GLOBAL / R-FONT.
package shared

import "sync"

type Table struct {
	Metrics []int
	Names   map[int]string
}

type Font struct {
	tab   Table
	memo  map[int]int
	names []string
	n     int
}

type Face struct {
	*Font
	cache  []int // per-goroutine: fine
	coords []float32
}

// constructor: stores into the font under construction are fine
func NewFont(n int) *Font {
	f := &Font{n: n}
	f.tab.Metrics = make([]int, n)
	f.fill()
	return f
}

func (f *Font) fill() {
	for i := range f.tab.Metrics {
		f.tab.Metrics[i] = i
	}
}

func NewFace(f *Font) *Face { return &Face{Font: f} }

// per-goroutine state: fine
func (f *Face) SetCoords(c []float32) { f.coords = append(f.coords[:0], c...); f.cache = f.cache[:0] }

func (f *Face) AdvanceGood(g int) int {
	if g < len(f.cache) {
		return f.cache[g]
	}
	f.cache = append(f.cache, f.tab.Metrics[g%f.n])
	return f.cache[len(f.cache)-1]
}

// seeded: memo on the shared font
func (f *Face) AdvanceMemoBad(g int) int {
	if v, ok := f.memo[g]; ok {
		return v
	}
	if f.Font.memo == nil {
		f.Font.memo = map[int]int{}
	}
	f.Font.memo[g] = g
	return g
}

func side(g int, t Table) int {
	if t.Metrics[g] < 0 {
		t.Metrics[g] = 0 // seeded: writes the font's backing array through a by-value struct
	}
	return t.Metrics[g]
}

func (f *Face) SideBad(g int) int { return side(g, f.tab) }

// seeded: lazily filled table on the font through an unexported helper
func (f *Font) lazy() []string {
	if f.names == nil {
		f.names = make([]string, f.n)
	}
	return f.names
}

func (f *Face) NameBad(g int) string { return f.lazy()[g] }

// globals
var table = map[int]int{}
var scratch []int
var once sync.Once
var system []int
var lookup = [4]int{1, 2, 3, 4}

func init() {
	table[1] = 2 // fine: during initialisation
	fillTable()
}

func fillTable() { table[2] = 3 } // init-only helper: fine

func LoadSystem() []int {
	once.Do(func() {
		system = []int{1, 2, 3} // fine: only inside sync.Once
	})
	return system
}

func ReadGood(i int) int { return table[i] + lookup[i&3] }

// seeded: package-level scratch buffer
func SumBad(xs []int) int {
	scratch = append(scratch[:0], xs...)
	s := 0
	for _, x := range scratch {
		s += x
	}
	return s
}

// seeded: map cache at package level
func CachedBad(i int) int {
	if v, ok := table[i]; ok {
		return v
	}
	table[i] = i * i
	return i * i
}

// seeded: write through a pointer obtained from a global array
func TweakBad(i int) { p := &lookup; p[i&3]++ }

// a shallow copy of a table of the font still shares its arrays with it: writing through the copy, in a helper that
// receives its address from an array of pointers, writes into the font

func resolveBad(t *Table, k int) {
	for i := range t.Metrics {
		t.Metrics[i] += k
	}
}

func (f *Face) CompileBad(k int) int {
	tab := f.tab // shallow copy
	tabs := [1]*Table{&tab}
	for _, t := range tabs {
		resolveBad(t, k)
	}
	return tab.Metrics[0]
}

// the copy owns its array: fine
func resolveGood(t *Table, k int) {
	for i := range t.Metrics {
		t.Metrics[i] += k
	}
}

func (f *Face) CompileGood(k int) int {
	tab := Table{Metrics: append([]int(nil), f.tab.Metrics...)}
	tabs := [1]*Table{&tab}
	for _, t := range tabs {
		resolveGood(t, k)
	}
	return tab.Metrics[0]
}

// a scratch object kept in a pool and handed to the caller: the next user of the pool overwrites it
type loader struct{ segs []int }

var loaders = sync.Pool{New: func() interface{} { return new(loader) }}

func LoadPooledBad(n int) []int {
	l := loaders.Get().(*loader)
	defer loaders.Put(l)
	l.segs = l.segs[:0]
	for i := 0; i < n; i++ {
		l.segs = append(l.segs, i)
	}
	return l.segs
}

// the same scratch object used correctly: nothing derived from it survives the Put
func LoadPooledGood(n int) []int {
	l := loaders.Get().(*loader)
	defer loaders.Put(l)
	l.segs = l.segs[:0]
	for i := 0; i < n; i++ {
		l.segs = append(l.segs, i)
	}
	out := make([]int, len(l.segs))
	copy(out, l.segs)
	return out
}

// ownership handed to the caller, which puts it back itself: not decided by R-POOL
func getLoader() *loader { return loaders.Get().(*loader) }

var shared sync.Map

// a value kept in a shared map is shared: writing into it is a mutation of global state
func BumpSharedBad(k int) {
	if v, ok := shared.Load(k); ok {
		v.(*loader).segs[0]++
	}
}
