// Package fidx holds the controls of R-FONTIDX.
package fidx

type record struct {
	SeqIndex uint16
	Lookup   uint16
}

type langSys struct{ Required uint16 }

func sanitize(l *langSys, n int) {
	if int(l.Required) >= n {
		l.Required = 0xFFFF
	}
}

// the index is compared with the count, out-of-range records are skipped
func applyGood(recs []record, count int, pos *[64]int) int {
	s := 0
	for _, r := range recs {
		idx := int(r.SeqIndex)
		if idx >= count {
			continue
		}
		s += pos[idx]
	}
	return s
}

// the index goes straight to the array
func applyBad(recs []record, count int, pos *[64]int) int {
	s := 0
	for _, r := range recs {
		idx := int(r.SeqIndex)
		s += pos[idx]
	}
	return s
}

// replaced by the loader when out of range
func required(l langSys, feats []int) int {
	if l.Required == 0xFFFF {
		return -1
	}
	return feats[l.Required]
}
