// Package stamp holds the controls of R-STAMP.
package stamp

import (
	"compress/gzip"
	"io"
	"io/fs"
	"os"
	"path/filepath"
)

type scanner struct{ prev map[string]int64 }

func newStampGood(info os.FileInfo) int64 { return info.ModTime().UnixNano() }
func newStampBad(info os.FileInfo) int64  { return info.ModTime().UnixNano() }
func newStampOpt(info os.FileInfo) int64  { return info.ModTime().UnixNano() }

func (s *scanner) consumeGood(path string, info os.FileInfo) bool {
	return s.prev[path] == newStampGood(info)
}
func (s *scanner) consumeBad(path string, info os.FileInfo) bool {
	return s.prev[path] == newStampBad(info)
}
func (s *scanner) consumeOpt(path string, info os.FileInfo) bool {
	return s.prev[path] == newStampOpt(info)
}

// follows the links
func (s *scanner) walkGood(dir string) error {
	return filepath.WalkDir(dir, func(path string, d fs.DirEntry, err error) error {
		if err != nil || d.IsDir() {
			return nil
		}
		info, err := os.Stat(path)
		if err != nil {
			return nil
		}
		s.consumeGood(path, info)
		return nil
	})
}

// the stamp of a link is the one of the link itself
func (s *scanner) walkBad(dir string) error {
	return filepath.WalkDir(dir, func(path string, d fs.DirEntry, err error) error {
		if err != nil || d.IsDir() {
			return nil
		}
		info, err := d.Info()
		if err != nil {
			return nil
		}
		mode := info.Mode()
		if mode&fs.ModeSymlink != 0 {
			target, err := os.Stat(path)
			if err != nil {
				return nil
			}
			mode = target.Mode()
		}
		if !mode.IsRegular() {
			return nil
		}
		s.consumeBad(path, info)
		return nil
	})
}

// only the links are resolved, and their information replaced: correct
func (s *scanner) walkOpt(dir string) error {
	return filepath.WalkDir(dir, func(path string, d fs.DirEntry, err error) error {
		if err != nil || d.IsDir() {
			return nil
		}
		info, err := d.Info()
		if err != nil {
			return nil
		}
		if info.Mode()&fs.ModeSymlink != 0 {
			info, err = os.Stat(path)
			if err != nil {
				return nil
			}
		}
		s.consumeOpt(path, info)
		return nil
	})
}

// controls of R-DRAIN

func readGood(src io.Reader) ([]byte, error) {
	r, err := gzip.NewReader(src)
	if err != nil {
		return nil, err
	}
	defer r.Close()
	var buf [4]byte
	if _, err := io.ReadFull(r, buf[:]); err != nil {
		return nil, err
	}
	if _, err := io.Copy(io.Discard, r); err != nil {
		return nil, err
	}
	return buf[:], nil
}

// stops after the last entry: the trailer is never reached
func readBad(src io.Reader) ([]byte, error) {
	r, err := gzip.NewReader(src)
	if err != nil {
		return nil, err
	}
	defer r.Close()
	var buf [4]byte
	if _, err := io.ReadFull(r, buf[:]); err != nil {
		return nil, err
	}
	return buf[:], nil
}

// ---- R-STAMP/eq and R-TRUNC

type stampGood int64
type stampBad int64

func reuseGood(old, now stampGood) bool { return old == now }
func reuseBad(old, now stampBad) bool   { return now <= old }

func writeGood(path string, b []byte) error {
	f, err := os.Create(path)
	if err != nil {
		return err
	}
	defer f.Close()
	_, err = f.Write(b)
	return err
}

func writeTruncGood(path string, b []byte) error {
	f, err := os.OpenFile(path, os.O_WRONLY|os.O_CREATE|os.O_TRUNC, 0o600)
	if err != nil {
		return err
	}
	defer f.Close()
	_, err = f.Write(b)
	return err
}

func writeBad(path string, b []byte) error {
	f, err := os.OpenFile(path, os.O_WRONLY|os.O_CREATE, 0o600)
	if err != nil {
		return err
	}
	defer f.Close()
	_, err = f.Write(b)
	return err
}
