// Package rec holds positive controls for R-REC.
package rec

type ctx struct {
	left   int
	budget *state
	fn     func(c *ctx, i int) bool
}

type state struct{ ops int }

// --- depth guard on a field, every cycle through (*ctx).recurseGood ---

func (c *ctx) recurseGood(i int) bool {
	if c.left == 0 || c.fn == nil {
		return false
	}
	c.budget.ops--
	if c.budget.ops < 0 {
		return false
	}
	c.left--
	r := applyGood(c, i)
	c.left++
	return r
}

func applyGood(c *ctx, i int) bool {
	ok := false
	for k := 0; k < i; k++ { // fan-out: needs the budget
		ok = c.recurseGood(k) || ok
	}
	return ok
}

// the defect pattern: exhausted nesting falls through to the call, budget not charged per call
func (c *ctx) recurseBad(i int) bool {
	if c.left == 0 || c.fn == nil || c.budget.ops <= 0 {
		if c.budget.ops <= 0 {
			c.budget.ops--
			return false
		}
		c.budget.ops--
	}
	c.left--
	r := applyBad(c, i)
	c.left++
	return r
}

func applyBad(c *ctx, i int) bool {
	ok := false
	for k := 0; k < i; k++ {
		ok = c.recurseBad(k) || ok
	}
	return ok
}

// --- depth guard on a parameter ---

func depthGood(t []int, i, depth int) int {
	if depth > 8 || i >= len(t) {
		return 0
	}
	return depthGood(t, t[i], depth+1) + 1
}

func depthBad(t []int, i, depth int) int {
	if depth > 8 {
		depth = 0 // guard does not leave
	}
	if i >= len(t) {
		return 0
	}
	return depthBad(t, t[i], depth+1) + 1
}

// depth guard only: recursion in a loop without a shared budget
func fanoutBad(t [][]int, i, depth int) int {
	if depth > 20 || i >= len(t) {
		return 0
	}
	n := 0
	for _, j := range t[i] {
		n += fanoutBad(t, j, depth+1)
	}
	return n
}

// --- consume marker ---

type pos struct {
	chain int16
	x     int
}

func markerGood(ps []pos, i int) {
	chain := ps[i].chain
	if chain == 0 {
		return
	}
	ps[i].chain = 0
	j := i + int(chain)
	if j >= len(ps) {
		return
	}
	markerGood(ps, j)
	ps[i].x += ps[j].x
}

func markerBad(ps []pos, i int) {
	chain := ps[i].chain
	if chain == 0 {
		return
	}
	j := i + int(chain)
	if j >= len(ps) || j < 0 {
		return
	}
	markerBad(ps, j) // marker never cleared: a cycle in the chain never ends
	ps[i].x += ps[j].x
}

// --- no argument at all ---

func plainBad(t []int, i int) int {
	if i >= len(t) {
		return 0
	}
	return plainBad(t, t[i])
}

// --- switch-coded map ---

func mapGood(r rune) rune {
	switch {
	case 0x20 <= r && r <= 0x22:
		return [...]rune{0xf120, 0xf121, 0xf122}[r-0x20]
	case 0x25 == r:
		return 0xf125
	}
	return 0
}

func mapBad(r rune) rune {
	switch {
	case 0x20 <= r && r <= 0x22:
		return [...]rune{0xf120, 0x25, 0xf122}[r-0x20]
	case 0x25 == r:
		return 0x21
	}
	return 0
}

type cm struct{ m map[rune]int }

func (c cm) lookupGood(r rune) (int, bool) {
	if g, ok := c.m[r]; ok {
		return g, true
	}
	if mapped := mapGood(r); mapped != 0 {
		return c.lookupGood(mapped)
	}
	return 0, false
}

func (c cm) lookupBad(r rune) (int, bool) {
	if g, ok := c.m[r]; ok {
		return g, true
	}
	if mapped := mapBad(r); mapped != 0 {
		return c.lookupBad(mapped)
	}
	return 0, false
}

func (c cm) offsetGood(r rune) (int, bool) {
	if g, ok := c.m[r]; ok {
		return g, true
	}
	if r <= 0xFF {
		return c.offsetGood(0xF000 + r)
	}
	return 0, false
}

func (c cm) offsetBad(r rune) (int, bool) {
	if g, ok := c.m[r]; ok {
		return g, true
	}
	if r <= 0xFFFF {
		return c.offsetBad(0xF0 + r)
	}
	return 0, false
}

var Sink = []interface{}{applyGood, applyBad, depthGood, depthBad, fanoutBad, markerGood, markerBad, plainBad, cm.lookupGood, cm.lookupBad, cm.offsetGood, cm.offsetBad}

// ---- delegation through a field of the receiver, and a work budget behind a pointer parameter ----

type iter interface{ next() bool }

type leaf struct{ n int }

func (l *leaf) next() bool { l.n--; return l.n > 0 }

// clean: base is assigned only while the wrapper is built (and with nil)
type wrapGood struct{ base iter }

func newWrapGood(b iter) *wrapGood { return &wrapGood{base: b} }

func (w *wrapGood) next() bool {
	if w.base != nil {
		if w.base.next() {
			return true
		}
		w.base = nil
	}
	return false
}

// seeded: base can be re-pointed after construction, possibly at the wrapper itself
type wrapBad struct{ base iter }

func (w *wrapBad) next() bool {
	if w.base != nil {
		return w.base.next()
	}
	return false
}

func (w *wrapBad) rebase(b iter) { w.base = b }

type tree struct{ kids []int }

// clean: one budget for all levels
func walkGood(ts []tree, i, depth int, budget *int) {
	if depth > 20 || i >= len(ts) {
		return
	}
	for _, k := range ts[i].kids {
		if *budget <= 0 {
			return
		}
		*budget--
		walkGood(ts, k, depth+1, budget)
	}
}

// seeded: the budget is tested but never charged
func walkBad(ts []tree, i, depth int, budget *int) {
	if depth > 20 || i >= len(ts) {
		return
	}
	for _, k := range ts[i].kids {
		if *budget <= 0 {
			return
		}
		walkBad(ts, k, depth+1, budget)
	}
}

func useWraps(ts []tree) {
	var it iter = newWrapGood(&leaf{3})
	it.next()
	wb := &wrapBad{}
	wb.rebase(wb)
	it = wb
	it.next()
	b := 100
	walkGood(ts, 0, 0, &b)
	walkBad(ts, 0, 0, &b)
}
