// Package tab holds positive controls for R-TAB / R-BITS: one seeded violation per "Bad" construct,
// one clean twin per "Good" construct.
package tab

import "unicode"

var Good = &unicode.RangeTable{
	R16: []unicode.Range16{{Lo: 0x41, Hi: 0x5a, Stride: 1}, {Lo: 0x100, Hi: 0x110, Stride: 2}},
	R32: []unicode.Range32{{Lo: 0x10000, Hi: 0x10010, Stride: 1}},
}

var BadUnsorted = &unicode.RangeTable{
	R16: []unicode.Range16{{Lo: 0x100, Hi: 0x110, Stride: 1}, {Lo: 0x41, Hi: 0x5a, Stride: 1}},
}

var BadStride = &unicode.RangeTable{
	R16: []unicode.Range16{{Lo: 0x100, Hi: 0x110, Stride: 0}},
}

var BadR32Below = &unicode.RangeTable{
	R16: []unicode.Range16{{Lo: 0x100, Hi: 0x2000, Stride: 1}},
	R32: []unicode.Range32{{Lo: 0x1000, Hi: 0x10010, Stride: 1}},
}

var BadArr = [...]*unicode.RangeTable{
	0: {R16: []unicode.Range16{{Lo: 1, Hi: 2, Stride: 1}}},
	1: {R16: []unicode.Range16{{Lo: 5, Hi: 2, Stride: 1}}},
}

// families
var FamG1 = &unicode.RangeTable{R16: []unicode.Range16{{Lo: 0x10, Hi: 0x1f, Stride: 1}}}
var FamG2 = &unicode.RangeTable{R16: []unicode.Range16{{Lo: 0x20, Hi: 0x2e, Stride: 2}}}
var FamG3 = &unicode.RangeTable{R16: []unicode.Range16{{Lo: 0x21, Hi: 0x2f, Stride: 2}}} // interleaved with G2 by stride: disjoint
var famGoodAll = &unicode.RangeTable{R16: []unicode.Range16{{Lo: 0x10, Hi: 0x2f, Stride: 1}}}
var famGood = [...]*unicode.RangeTable{FamG1, FamG2, FamG3}

var FamB1 = &unicode.RangeTable{R16: []unicode.Range16{{Lo: 0x10, Hi: 0x1f, Stride: 1}}}
var FamB2 = &unicode.RangeTable{R16: []unicode.Range16{{Lo: 0x1f, Hi: 0x2f, Stride: 1}}}     // overlaps B1 at 0x1f
var famBadAll = &unicode.RangeTable{R16: []unicode.Range16{{Lo: 0x10, Hi: 0x2e, Stride: 1}}} // misses 0x2f
var famBad = [...]*unicode.RangeTable{FamB1, FamB2}

type R struct {
	Start, End rune
	S          int
}

var rangesGood = [...]R{{0, 5, 1}, {6, 6, 2}, {10, 20, 1}}
var rangesBad = [...]R{{0, 5, 1}, {5, 6, 2}, {10, 20, 1}}

var mirrorGood = map[rune]rune{'(': ')', ')': '(', '<': '>', '>': '<'}
var mirrorBad = map[rune]rune{'(': ')', ')': '(', '<': '>', '>': '('}

const (
	SBase  = 0xAC00
	SCount = 11172
)

var d1Good = map[rune]rune{0x340: 0x300}
var d2Good = map[rune][2]rune{0xc0: {0x41, 0x300}, 0x344: {0x308, 0x301}}
var compGood = map[[2]rune]rune{{0x41, 0x300}: 0xc0, {0x308, 0x301}: 0}

var d1Bad = map[rune]rune{0x340: 0x300, 0xAC01: 0x41, 0x500: 0x501}
var d2Bad = map[rune][2]rune{0xc0: {0x41, 0x300}, 0xc1: {0x41, 0x301}, 0x501: {0x500, 0x300}, 0x502: {0x41, 0x303}}
var compBad = map[[2]rune]rune{{0x41, 0x300}: 0xc0, {0x41, 0x301}: 0xc2, {0x500, 0x300}: 0x501, {0x41, 0x302}: 0xc3}

type ID uint16
type info struct {
	lang    string
	scripts [3]int
}

var canonGood = [256]byte{'-': '-', '_': '-', 'a': 'a', 'b': 'b', 'd': 'd', 'e': 'e', 'f': 'f', 'r': 'r', 'A': 'a', 'B': 'b'}
var canonBad = [256]byte{'-': '-', '_': '-', 'a': 'b', 'b': 'a', 'd': 'd', 'e': 'e', 'f': 'f', 'r': 'r'}

const splitGood ID = 4
const splitBad ID = 4

var langsGood = [...]info{{}, {"aa", [3]int{1}}, {"de", [3]int{}}, {"fr", [3]int{}}, {"ab-ba", [3]int{}}, {"be", [3]int{}}}
var langsBad = [...]info{{}, {"aa", [3]int{1}}, {"fr", [3]int{}}, {"dE", [3]int{}}, {"ab", [3]int{}}, {"fr", [3]int{}}}

const (
	LGAa    ID = 1
	LGDe    ID = 2
	LGFr    ID = 3
	LGAb_Ba ID = 4
	LGBe    ID = 5
)
const (
	LBAa  ID = 1
	LBFr  ID = 2
	LBDe  ID = 3
	LBAb  ID = 4
	LBFr2 ID = 5
)

// bits
type Dir uint8

const (
	mA Dir = 1 << iota
	mB
)
const mC Dir = 3 // not a single bit

func (d *Dir) SetA(on bool) {
	if on {
		*d |= mA
	} else {
		*d &= ^mA
	}
}
func (d *Dir) SetBBad(on bool) {
	if on {
		*d = mB // drops every other bit
	} else {
		*d &= ^mB
	}
}
func (d *Dir) SetCBad()  { *d |= mA | mB }
func (d Dir) A() bool    { return d&mA != 0 }
func (d Dir) BBad() bool { return d&(mA|mB) != 0 }

var listGood = [...]rune{0x28, 0x29, 0x3c, 0x3e}
var listBad = [...]rune{0x28, 0x29, 0x5b, 0x3e}

// ---- R-TABONLY ----

const unknownS = 99

func lookupGood(r rune) int {
	for i, j := 0, len(rangesGood); i < j; {
		h := i + (j-i)/2
		e := rangesGood[h]
		if r < e.Start {
			j = h
		} else if e.End < r {
			i = h + 1
		} else {
			return e.S
		}
	}
	return unknownS
}

// seeded: a shortcut in front of the table
func lookupBad(r rune) int {
	if r < 0x80 {
		return 1
	}
	for _, e := range rangesGood {
		if e.Start <= r && r <= e.End {
			return e.S
		}
	}
	return unknownS
}

func canonGoodFn(s string) string {
	out := make([]byte, 0, len(s))
	for _, r := range s {
		if r >= 0xFF {
			continue
		}
		if c := canonGood[r]; c != 0 {
			out = append(out, c)
		}
	}
	return string(out)
}

// seeded: post-processing of the canonical bytes
func canonBadFn(s string) string {
	out := make([]byte, 0, len(s))
	for _, r := range s {
		if r >= 0xFF {
			continue
		}
		if c := canonGood[r]; c != 0 {
			out = append(out, c)
		}
	}
	if len(out) > 0 && out[0] == '-' {
		out = out[1:]
	}
	return string(out)
}
