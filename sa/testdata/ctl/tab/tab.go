// Package tab holds positive controls for R-TAB / R-BITS: one seeded violation per "Bad" construct,
// one clean twin per "Good" construct.
package tab

import "unicode"

var Good = &unicode.RangeTable{
	R16: []unicode.Range16{{Lo: 0x41, Hi: 0x5a, Stride: 1}, {Lo: 0x100, Hi: 0x110, Stride: 2}},
	R32: []unicode.Range32{{Lo: 0x10000, Hi: 0x10010, Stride: 1}},
}

var BadUnsorted = &unicode.RangeTable{
	R16: []unicode.Range16{{Lo: 0x100, Hi: 0x110, Stride: 1}, {Lo: 0x41, Hi: 0x5a, Stride: 1}},
}

var BadStride = &unicode.RangeTable{
	R16: []unicode.Range16{{Lo: 0x100, Hi: 0x110, Stride: 0}},
}

var BadR32Below = &unicode.RangeTable{
	R16: []unicode.Range16{{Lo: 0x100, Hi: 0x2000, Stride: 1}},
	R32: []unicode.Range32{{Lo: 0x1000, Hi: 0x10010, Stride: 1}},
}

var BadArr = [...]*unicode.RangeTable{
	0: {R16: []unicode.Range16{{Lo: 1, Hi: 2, Stride: 1}}},
	1: {R16: []unicode.Range16{{Lo: 5, Hi: 2, Stride: 1}}},
}

// families
var FamG1 = &unicode.RangeTable{R16: []unicode.Range16{{Lo: 0x10, Hi: 0x1f, Stride: 1}}}
var FamG2 = &unicode.RangeTable{R16: []unicode.Range16{{Lo: 0x20, Hi: 0x2e, Stride: 2}}}
var FamG3 = &unicode.RangeTable{R16: []unicode.Range16{{Lo: 0x21, Hi: 0x2f, Stride: 2}}} // interleaved with G2 by stride: disjoint
var famGoodAll = &unicode.RangeTable{R16: []unicode.Range16{{Lo: 0x10, Hi: 0x2f, Stride: 1}}}
var famGood = [...]*unicode.RangeTable{FamG1, FamG2, FamG3}

var FamB1 = &unicode.RangeTable{R16: []unicode.Range16{{Lo: 0x10, Hi: 0x1f, Stride: 1}}}
var FamB2 = &unicode.RangeTable{R16: []unicode.Range16{{Lo: 0x1f, Hi: 0x2f, Stride: 1}}}     // overlaps B1 at 0x1f
var famBadAll = &unicode.RangeTable{R16: []unicode.Range16{{Lo: 0x10, Hi: 0x2e, Stride: 1}}} // misses 0x2f
var famBad = [...]*unicode.RangeTable{FamB1, FamB2}

type R struct {
	Start, End rune
	S          int
}

var rangesGood = [...]R{{0, 5, 1}, {6, 6, 2}, {10, 20, 1}}
var rangesBad = [...]R{{0, 5, 1}, {5, 6, 2}, {10, 20, 1}}

var mirrorGood = map[rune]rune{'(': ')', ')': '(', '<': '>', '>': '<'}
var mirrorBad = map[rune]rune{'(': ')', ')': '(', '<': '>', '>': '('}

const (
	SBase  = 0xAC00
	SCount = 11172
)

var d1Good = map[rune]rune{0x340: 0x300}
var d2Good = map[rune][2]rune{0xc0: {0x41, 0x300}, 0x344: {0x308, 0x301}}
var compGood = map[[2]rune]rune{{0x41, 0x300}: 0xc0, {0x308, 0x301}: 0}

var d1Bad = map[rune]rune{0x340: 0x300, 0xAC01: 0x41, 0x500: 0x501}
var d2Bad = map[rune][2]rune{0xc0: {0x41, 0x300}, 0xc1: {0x41, 0x301}, 0x501: {0x500, 0x300}, 0x502: {0x41, 0x303}}
var compBad = map[[2]rune]rune{{0x41, 0x300}: 0xc0, {0x41, 0x301}: 0xc2, {0x500, 0x300}: 0x501, {0x41, 0x302}: 0xc3}

type ID uint16
type info struct {
	lang    string
	scripts [3]int
}

var canonGood = [256]byte{'-': '-', '_': '-', 'a': 'a', 'b': 'b', 'd': 'd', 'e': 'e', 'f': 'f', 'r': 'r', 'A': 'a', 'B': 'b'}
var canonBad = [256]byte{'-': '-', '_': '-', 'a': 'b', 'b': 'a', 'd': 'd', 'e': 'e', 'f': 'f', 'r': 'r'}

const splitGood ID = 4
const splitBad ID = 4

var langsGood = [...]info{{}, {"aa", [3]int{1}}, {"de", [3]int{}}, {"fr", [3]int{}}, {"ab-ba", [3]int{}}, {"be", [3]int{}}}
var langsBad = [...]info{{}, {"aa", [3]int{1}}, {"fr", [3]int{}}, {"dE", [3]int{}}, {"ab", [3]int{}}, {"fr", [3]int{}}}

const (
	LGAa    ID = 1
	LGDe    ID = 2
	LGFr    ID = 3
	LGAb_Ba ID = 4
	LGBe    ID = 5
)
const (
	LBAa  ID = 1
	LBFr  ID = 2
	LBDe  ID = 3
	LBAb  ID = 4
	LBFr2 ID = 5
)

// bits
type Dir uint8

const (
	mA Dir = 1 << iota
	mB
)
const mC Dir = 3 // not a single bit

func (d *Dir) SetA(on bool) {
	if on {
		*d |= mA
	} else {
		*d &= ^mA
	}
}
func (d *Dir) SetBBad(on bool) {
	if on {
		*d = mB // drops every other bit
	} else {
		*d &= ^mB
	}
}
func (d *Dir) SetCBad()  { *d |= mA | mB }
func (d Dir) A() bool    { return d&mA != 0 }
func (d Dir) BBad() bool { return d&(mA|mB) != 0 }

var listGood = [...]rune{0x28, 0x29, 0x3c, 0x3e}
var listBad = [...]rune{0x28, 0x29, 0x5b, 0x3e}

// ---- R-TABONLY ----

const unknownS = 99

func lookupGood(r rune) int {
	for i, j := 0, len(rangesGood); i < j; {
		h := i + (j-i)/2
		e := rangesGood[h]
		if r < e.Start {
			j = h
		} else if e.End < r {
			i = h + 1
		} else {
			return e.S
		}
	}
	return unknownS
}

// seeded: a shortcut in front of the table
func lookupBad(r rune) int {
	if r < 0x80 {
		return 1
	}
	for _, e := range rangesGood {
		if e.Start <= r && r <= e.End {
			return e.S
		}
	}
	return unknownS
}

func canonGoodFn(s string) string {
	out := make([]byte, 0, len(s))
	for _, r := range s {
		if r >= 0xFF {
			continue
		}
		if c := canonGood[r]; c != 0 {
			out = append(out, c)
		}
	}
	return string(out)
}

// seeded: post-processing of the canonical bytes
func canonBadFn(s string) string {
	out := make([]byte, 0, len(s))
	for _, r := range s {
		if r >= 0xFF {
			continue
		}
		if c := canonGood[r]; c != 0 {
			out = append(out, c)
		}
	}
	if len(out) > 0 && out[0] == '-' {
		out = out[1:]
	}
	return string(out)
}

// controls of R-TAB/parity: 40 bracket pairs in order; the bad one has an unpaired opening mark
var delimsGood = [...]rune{
	0x0028, 0x0029, 0x005b, 0x005d, 0x007b, 0x007d, 0x0f3a, 0x0f3b, 0x0f3c, 0x0f3d, 0x169b, 0x169c, 0x2045, 0x2046, 0x207d, 0x207e,
	0x208d, 0x208e, 0x2308, 0x2309, 0x230a, 0x230b, 0x2329, 0x232a, 0x2768, 0x2769, 0x276a, 0x276b, 0x276c, 0x276d, 0x276e, 0x276f,
	0x2770, 0x2771, 0x2772, 0x2773, 0x2774, 0x2775, 0x27c5, 0x27c6, 0x27e6, 0x27e7, 0x27e8, 0x27e9, 0x27ea, 0x27eb, 0x27ec, 0x27ed,
	0x27ee, 0x27ef, 0x2983, 0x2984, 0x2985, 0x2986, 0x2987, 0x2988, 0x2989, 0x298a, 0x298b, 0x298c, 0x298d, 0x298e, 0x298f, 0x2990,
	0x2991, 0x2992, 0x2993, 0x2994, 0x2995, 0x2996, 0x2997, 0x2998, 0x29d8, 0x29d9, 0x29da, 0x29db, 0x29fc, 0x29fd, 0x3008, 0x3009,
}

var delimsBad = [...]rune{
	0x0028, 0x0029, 0x005b, 0x005d, 0x007b, 0x007d, 0x0f3a, 0x0f3b, 0x0f3c, 0x0f3d, 0x169b, 0x169c, 0x2045, 0x2046, 0x207d, 0x207e,
	0x208d, 0x208e, 0x2308, 0x2309, 0x230a, 0x230b, 0x2329, 0x232a, 0x2768, 0x2769, 0x276a, 0x276b, 0x276c, 0x276d, 0x276e, 0x276f,
	0x2770, 0x2771, 0x2772, 0x2773, 0x2774, 0x2775, 0x27c5, 0x27c6, 0x27e6, 0x27e7, 0x27e8, 0x27e9, 0x27ea, 0x27eb, 0x27ec, 0x27ed,
	0x27ee, 0x27ef, 0x2983, 0x2984, 0x2985, 0x2986, 0x2987, 0x2988, 0x2989, 0x298a, 0x298b, 0x298c, 0x298d, 0x298e, 0x298f, 0x2990,
	0x2991, 0x2992, 0x2993, 0x2994, 0x2995, 0x2996, 0x2997, 0x2998, 0x29d8, 0x29d9, 0x29da, 0x29db, 0x29fc, 0x29fd, 0x2e42, 0x3008,
	0x3009, 0x300a, 0x300b, 0x300c,
}

// the ornate parentheses have their categories against the code point order: handled apart by the code (Good), or not (Bad)
var delimsOrnate = [...]rune{
	0x0028, 0x0029, 0x005b, 0x005d, 0x007b, 0x007d, 0x0f3a, 0x0f3b, 0x0f3c, 0x0f3d, 0x169b, 0x169c, 0x2045, 0x2046, 0x207d, 0x207e,
	0x208d, 0x208e, 0x2308, 0x2309, 0x230a, 0x230b, 0x2329, 0x232a, 0x2768, 0x2769, 0x276a, 0x276b, 0x276c, 0x276d, 0x276e, 0x276f,
	0x2770, 0x2771, 0x2772, 0x2773, 0x2774, 0x2775, 0x27c5, 0x27c6, 0x27e6, 0x27e7, 0x27e8, 0x27e9, 0x27ea, 0x27eb, 0x27ec, 0x27ed,
	0xfd3e, 0xfd3f,
}

func ornateIsOpen(index int) bool {
	switch delimsOrnate[index] {
	case 0xfd3e:
		return false
	case 0xfd3f:
		return true
	}
	return index%2 == 0
}

func ornateOpening(closeIndex int) int {
	switch delimsOrnate[closeIndex] {
	case 0xfd3e:
		return closeIndex + 1
	}
	return closeIndex - 1
}

var delimsOrnateBad = [...]rune{
	0x0028, 0x0029, 0x005b, 0x005d, 0x007b, 0x007d, 0x0f3a, 0x0f3b, 0x0f3c, 0x0f3d, 0x169b, 0x169c, 0x2045, 0x2046, 0x207d, 0x207e,
	0x208d, 0x208e, 0x2308, 0x2309, 0x230a, 0x230b, 0x2329, 0x232a, 0x2768, 0x2769, 0x276a, 0x276b, 0x276c, 0x276d, 0x276e, 0x276f,
	0x2770, 0x2771, 0x2772, 0x2773, 0x2774, 0x2775, 0x27c5, 0x27c6, 0x27e6, 0x27e7, 0x27e8, 0x27e9, 0x27ea, 0x27eb, 0x27ec, 0x27ed,
	0xfd3e, 0xfd3f,
}
