// Package syncbuf holds positive controls for R-SYNC and R-BUDGET.
package syncbuf

type Buf struct {
	Info    []int
	Pos     []int
	out     []int
	have    bool
	idx     int
	maxOps  int
	maxLen  int
	inplace bool
}

func (b *Buf) resize() {
	L := len(b.Info)
	if cap(b.Pos) >= L {
		b.Pos = b.Pos[:L]
	} else {
		b.Pos = make([]int, L)
	}
}

func (b *Buf) clearOutput() { b.have = true; b.out = b.out[:0]; b.idx = 0 }

func (b *Buf) swapGood() {
	b.have = false
	b.Info, b.out = b.out, b.Info
	b.resize()
}

// seeded: Info replaced, Pos left behind
func (b *Buf) swapBad() {
	b.have = false
	b.Info, b.out = b.out, b.Info
}

// seeded: length taken from the wrong slice
func (b *Buf) resyncBad() {
	L := len(b.out)
	b.Pos = make([]int, L)
}

func (b *Buf) appendGood(x int) {
	b.Info = append(b.Info, x)
	b.Pos = append(b.Pos, 0)
}

// seeded: one branch forgets Pos
func (b *Buf) deleteBad(j int, both bool) {
	b.Info = b.Info[:j]
	if both {
		b.Pos = b.Pos[:j]
	}
}

// output-mode interior: only called under have==true
func (b *Buf) shift(n int) { b.Info = append(b.Info, make([]int, n)...) }

func (b *Buf) moveTo(i int) {
	if !b.have {
		b.idx = i
		return
	}
	if b.idx < i {
		b.shift(i - b.idx)
	}
}

// seeded: same kind of writer, but callable outside output mode
func (b *Buf) shiftBad(n int) { b.Info = append(b.Info, make([]int, n)...) }

func (b *Buf) moveBad(i int) { b.shiftBad(i) }

type proxy struct{ inplace bool }

func applyGood(b *Buf, p proxy) {
	if len(b.Info) == 0 {
		return
	}
	if !p.inplace {
		b.clearOutput()
	}
	b.idx = 0
	if !p.inplace {
		b.swapGood()
	}
}

// seeded: early return between clearOutput and swap
func applyBad(b *Buf, p proxy) {
	b.clearOutput()
	if b.idx > 3 {
		return
	}
	b.swapGood()
}

// budgets
type shaper struct{}

func (b *Buf) work() bool {
	b.maxOps--
	return b.maxOps > 0 && len(b.Info) < b.maxLen
}

func (shaper) shapeGood(b *Buf) {
	b.maxOps = len(b.Info)*1024 + 16384
	b.maxLen = len(b.Info)*64 + 16384
	b.work()
	b.maxOps = 0x1FFFFFFF
}

// seeded: maxOps never assigned from the input length before the work, maxLen on one path only
func (shaper) shapeBad(b *Buf, fast bool) {
	if !fast {
		b.maxLen = len(b.Info)*64 + 16384
	}
	b.work()
	b.maxOps = 0x1FFFFFFF
}

type mapT struct{}

func (b *Buf) applyString() {}

func (mapT) applyGood(b *Buf, n int) {
	for i := 0; i < n; i++ {
		if len(b.Info) > b.maxLen {
			return
		}
		b.applyString()
	}
}

func (mapT) applyBad(b *Buf, n int) {
	for i := 0; i < n; i++ {
		if len(b.Info) > b.maxLen {
			b.idx = 0 // notices but continues
		}
		b.applyString()
	}
}
