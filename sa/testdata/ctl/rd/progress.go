package rd

import (
	"encoding/binary"
	"errors"
)

// controls of R-PROGRESS

type prec struct{ length uint32 }

// the length covers the header: progress
func parseRecGood(src []byte) (prec, int, error) {
	if len(src) < 4 {
		return prec{}, 0, errors.New("EOF")
	}
	length := binary.BigEndian.Uint32(src)
	if int(length) > len(src) || length < 4 {
		return prec{}, 0, errors.New("invalid length")
	}
	return prec{length: length}, int(length), nil
}

// a zero length is accepted: no progress
func parseRecBad(src []byte) (prec, int, error) {
	if len(src) < 4 {
		return prec{}, 0, errors.New("EOF")
	}
	length := binary.BigEndian.Uint32(src)
	if int(length) > len(src) {
		return prec{}, 0, errors.New("invalid length")
	}
	return prec{length: length}, int(length), nil
}

func parseAllGood(src []byte) ([]prec, error) {
	if len(src) < 4 {
		return nil, errors.New("EOF")
	}
	count := int(binary.BigEndian.Uint32(src))
	var out []prec
	offset := 4
	for i := 0; i < count; i++ {
		if offset > len(src) {
			return nil, errors.New("EOF")
		}
		r, read, err := parseRecGood(src[offset:])
		if err != nil {
			return nil, err
		}
		out = append(out, r)
		offset += read
	}
	return out, nil
}

func parseAllBad(src []byte) ([]prec, error) {
	if len(src) < 4 {
		return nil, errors.New("EOF")
	}
	count := int(binary.BigEndian.Uint32(src))
	var out []prec
	offset := 4
	for i := 0; i < count; i++ {
		if offset > len(src) {
			return nil, errors.New("EOF")
		}
		r, read, err := parseRecBad(src[offset:])
		if err != nil {
			return nil, err
		}
		out = append(out, r)
		offset += read
	}
	return out, nil
}
