package rd

import "errors"

// controls of R-OPBUDGET

type handler interface {
	Apply(m *machine, op byte) error
}

type machine struct {
	instr []byte
	depth int
}

var errTooMany = errors.New("too many operators")

// every dispatched operator is counted and the count is bounded
func (m *machine) RunGood(h handler) error {
	n := 0
	for len(m.instr) != 0 {
		op := m.instr[0]
		m.instr = m.instr[1:]
		if op < 32 {
			n++
			if n > 1000 {
				return errTooMany
			}
			if err := h.Apply(m, op); err != nil { // may re-assign m.instr (subroutine)
				return err
			}
		}
	}
	return nil
}

// only the nesting is bounded: subroutine calls multiply the work
func (m *machine) RunBad(h handler) error {
	n := 0
	for len(m.instr) != 0 {
		op := m.instr[0]
		m.instr = m.instr[1:]
		if op < 32 {
			if m.depth > 10 {
				return errTooMany
			}
			if err := h.Apply(m, op); err != nil {
				return err
			}
		} else {
			n++
		}
	}
	_ = n
	return nil
}
