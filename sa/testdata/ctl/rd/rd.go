// Package rd holds positive controls for R-ALLOC and R-COUNT.
package rd

import (
	"encoding/binary"
	"errors"
	"io"
)

type section struct {
	offset, length, zLength uint32
	count                   uint16
}

type Loader struct {
	file io.ReaderAt
	size int64
}

// seeded: 32-bit directory length sizes the buffer, only the capacity idiom "guards" it
func (l *Loader) tableBad(s section, dst []byte) ([]byte, error) {
	if cap(dst) < int(s.length) {
		dst = make([]byte, s.length)
	}
	dst = dst[:s.length]
	_, err := l.file.ReadAt(dst, int64(s.offset))
	return dst, err
}

func (l *Loader) tableGood(s section, dst []byte) ([]byte, error) {
	if int64(s.length) > l.size {
		return nil, errors.New("table larger than the file")
	}
	if cap(dst) < int(s.length) {
		dst = make([]byte, s.length)
	}
	dst = dst[:s.length]
	_, err := l.file.ReadAt(dst, int64(s.offset))
	return dst, err
}

// 16-bit count: bounded by type
func (l *Loader) small(s section) []int { return make([]int, s.count) }

func parseGood(src []byte) ([]uint16, error) {
	if len(src) < 4 {
		return nil, errors.New("EOF")
	}
	n := int(binary.BigEndian.Uint32(src))
	if len(src) < 4+n*2 {
		return nil, errors.New("EOF")
	}
	out := make([]uint16, n)
	for i := range out {
		out[i] = binary.BigEndian.Uint16(src[4+2*i:])
	}
	return out, nil
}

// seeded: the length test was dropped, elements are read lazily
func parseBad(src []byte) ([]uint16, error) {
	if len(src) < 4 {
		return nil, errors.New("EOF")
	}
	n := int(binary.BigEndian.Uint32(src))
	out := make([]uint16, n)
	for i := range out {
		if 4+2*i+2 > len(src) {
			break
		}
		out[i] = binary.BigEndian.Uint16(src[4+2*i:])
	}
	return out, nil
}

// seeded: the guard compares count+1 computed in uint32 (0 for count = 0xFFFFFFFF) while the make is sized by count
func parseWrapBad(src []byte) ([][]byte, error) {
	if len(src) < 4 {
		return nil, errors.New("EOF")
	}
	count := binary.BigEndian.Uint32(src)
	need := int(count+1) * 2
	if len(src) < need {
		return nil, errors.New("EOF")
	}
	return make([][]byte, count), nil
}

// clean: the same wrapped value sizes the allocation
func parseWrapGood(src []byte) ([]uint16, error) {
	if len(src) < 4 {
		return nil, errors.New("EOF")
	}
	count := binary.BigEndian.Uint32(src)
	n := int(count + 1)
	if len(src) < 4+n*2 {
		return nil, errors.New("EOF")
	}
	return make([]uint16, n), nil
}

// ---- R-COUNT ----

func parseN(src []byte, count int) ([]uint16, error) {
	if len(src) < count*2 {
		return nil, errors.New("EOF")
	}
	out := make([]uint16, count)
	for i := range out {
		out[i] = binary.BigEndian.Uint16(src[2*i:])
	}
	return out, nil
}

type hdr struct{ first, last, n uint16 }

func callGoodUnsigned(src []byte, h hdr) ([]uint16, error) { return parseN(src, int(h.n)) }

func callGoodGuarded(src []byte, h hdr) ([]uint16, error) {
	if h.last < h.first {
		return nil, errors.New("inverted range")
	}
	return parseN(src, int(h.last)-int(h.first)+1)
}

func callGoodClamped(src []byte, total int, h hdr) ([]uint16, error) {
	rest := len(src) - int(h.n)
	if rest < 0 {
		rest = 0
	}
	return parseN(src, rest)
}

// seeded: difference of two file values, no test
func callBadDiff(src []byte, h hdr) ([]uint16, error) {
	return parseN(src, int(h.last)-int(h.first)+1)
}

// ---- R-LOOP ----

type rec struct {
	dupe bool
	data []byte
}

// seeded: follows links stored in the data with no hop bound
func followBad(rs []rec, g uint16) rec {
	for {
		if int(g) >= len(rs) {
			return rec{}
		}
		out := rs[g]
		if !out.dupe || len(out.data) < 2 {
			return out
		}
		next := binary.BigEndian.Uint16(out.data)
		if next == g {
			return rec{}
		}
		g = next
	}
}

func followGood(rs []rec, g uint16) rec {
	for hops := 0; hops < 8; hops++ {
		if int(g) >= len(rs) {
			return rec{}
		}
		out := rs[g]
		if !out.dupe || len(out.data) < 2 {
			return out
		}
		g = binary.BigEndian.Uint16(out.data)
	}
	return rec{}
}

// ---- R-DIV ----

type dev struct{ start, end uint16 }

func divGood(d dev, ppem uint16, scale int32) int32 {
	if ppem == 0 {
		return 0
	}
	return scale / int32(ppem)
}

func divSwitchGood(kind uint8, w int32) int32 {
	switch kind {
	case 2, 3, 4:
		return w / int32(kind)
	}
	return w
}

// seeded: the zero case was folded into the default
func divSwitchBad(kind uint8, w int32) int32 {
	switch kind {
	case 1:
		return w
	default:
		return w / int32(kind)
	}
}

func divBad(d dev, ppem uint16, scale int32) int32 {
	if ppem < d.start || ppem > d.end {
		return 0
	}
	return scale / int32(ppem) // seeded: start may be 0
}
