// Package des holds positive controls for R-GEN (P-LIN).
package des

import (
	"encoding/binary"
	"errors"
)

func stringGood(s *string, data []byte) (int, error) {
	if len(data) < 2 {
		return 0, errors.New("EOF")
	}
	L := int(binary.BigEndian.Uint16(data))
	if len(data) < 2+L {
		return 0, errors.New("EOF")
	}
	*s = string(data[2 : 2+L])
	return 2 + L, nil
}

// seeded: off by two in the length test
func stringBad(s *string, data []byte) (int, error) {
	if len(data) < 2 {
		return 0, errors.New("EOF")
	}
	L := int(binary.BigEndian.Uint16(data))
	if len(data) < L {
		return 0, errors.New("EOF")
	}
	*s = string(data[2 : 2+L])
	return 2 + L, nil
}

type stamp uint64

// assume len(src) >= 8
func (t *stamp) read(src []byte) { *t = stamp(binary.BigEndian.Uint64(src)) }

type set []uint32

func (st *set) readFrom(data []byte) (int, error) {
	if len(data) < 1 {
		return 0, errors.New("EOF")
	}
	L := int(data[0])
	if len(data) < 1+4*L {
		return 0, errors.New("EOF")
	}
	v := make(set, L)
	for i := range v {
		v[i] = binary.BigEndian.Uint32(data[1+4*i:])
	}
	*st = v
	return 1 + 4*L, nil
}

type entry struct {
	path string
	mod  stamp
	size uint64
	s    set
}

func (e *entry) readGood(src []byte) error {
	n, err := stringGood(&e.path, src)
	if err != nil {
		return err
	}
	if len(src) < n+16 {
		return errors.New("EOF")
	}
	e.mod.read(src[n:])
	e.size = binary.BigEndian.Uint64(src[n+8:])
	n += 16
	read, err := e.s.readFrom(src[n:])
	if err != nil {
		return err
	}
	n += read
	_ = src[:n]
	return nil
}

// seeded: a field was added, the length test kept its old value
func (e *entry) readBad(src []byte) error {
	n, err := stringGood(&e.path, src)
	if err != nil {
		return err
	}
	if len(src) < n+8 {
		return errors.New("EOF")
	}
	e.mod.read(src[n:])
	e.size = binary.BigEndian.Uint64(src[n+8:])
	return nil
}

// seeded: helper with a length precondition called without a test
func stampCallerBad(src []byte) stamp {
	var t stamp
	if len(src) < 4 {
		return 0
	}
	t.read(src)
	return t
}

// ---- wrap, sign and reader-filled arrays ----

// seeded: offset+length is added in uint32 and wraps; only the end is tested
func docWrapBad(data []byte, offset, length uint32) ([]byte, error) {
	end := offset + length
	if len(data) < int(end) {
		return nil, errors.New("EOF")
	}
	return data[offset:end], nil
}

// clean: the sum is taken in int
func docWrapGood(data []byte, offset, length uint32) ([]byte, error) {
	start, end := int(offset), int(offset)+int(length)
	if len(data) < end {
		return nil, errors.New("EOF")
	}
	return data[start:end], nil
}

// seeded: the test converts the signed value with uint16(), the slice expression does not
func signBad(data []byte, v int16) (uint16, error) {
	if len(data) < int(uint16(v))+2 {
		return 0, errors.New("EOF")
	}
	return binary.BigEndian.Uint16(data[v:]), nil
}

// clean twin
func signGood(data []byte, v int16) (uint16, error) {
	if len(data) < int(uint16(v))+2 {
		return 0, errors.New("EOF")
	}
	return binary.BigEndian.Uint16(data[uint16(v):]), nil
}

// seeded: a reader fills a preallocated array with as many values as a run announces, not as many as were allocated
func fillBad(data []byte, count int) ([]uint16, error) {
	if count < 0 {
		return nil, errors.New("negative count")
	}
	out := make([]uint16, count)
	for n := 0; n < len(out); {
		if len(data) < 1 {
			return nil, errors.New("EOF")
		}
		run := int(data[0]&0x7F) + 1
		if len(data) < 1+run {
			return nil, errors.New("EOF")
		}
		for _, b := range data[1 : 1+run] {
			out[n] = uint16(b)
			n++
		}
		data = data[1+run:]
	}
	return out, nil
}

// clean twin: the array grows with the values
func fillGood(data []byte, count int) ([]uint16, error) {
	if count < 0 {
		return nil, errors.New("negative count")
	}
	out := make([]uint16, 0, count)
	for len(out) < count {
		if len(data) < 1 {
			return nil, errors.New("EOF")
		}
		run := int(data[0]&0x7F) + 1
		if len(data) < 1+run {
			return nil, errors.New("EOF")
		}
		for _, b := range data[1 : 1+run] {
			out = append(out, uint16(b))
		}
		data = data[1+run:]
	}
	return out, nil
}

// a helper whose accesses rest on a symbolic precondition established by its (only) callers

func rowOK(src []byte, n int) []uint16 {
	out := make([]uint16, n)
	for j := 0; j < n; j++ {
		out[j] = binary.BigEndian.Uint16(src[2*j:])
	}
	return out
}

func rowsGood(src []byte, n int) ([]uint16, error) {
	if n < 0 || len(src) < 4+2*n {
		return nil, errors.New("EOF")
	}
	return rowOK(src[4:], n), nil
}

func rowKO(src []byte, n int) []uint16 {
	out := make([]uint16, n)
	for j := 0; j < n; j++ {
		out[j] = binary.BigEndian.Uint16(src[2*j:])
	}
	return out
}

// the caller tests one byte per value
func rowsBad(src []byte, n int) ([]uint16, error) {
	if n < 0 || len(src) < 4+n {
		return nil, errors.New("EOF")
	}
	return rowKO(src[4:], n), nil
}

// a second load of the same location with nothing written in between is the same quantity
type recd struct{ off uint16 }

func reloadGood(src []byte, recs []recd) uint16 {
	var s uint16
	for i := range recs {
		r := &recs[i]
		if len(src) < int(r.off)+2 {
			continue
		}
		s += binary.BigEndian.Uint16(src[r.off:])
	}
	return s
}

// ... but not when the location is written in between
func reloadBad(src []byte, recs []recd) uint16 {
	var s uint16
	for i := range recs {
		r := &recs[i]
		if len(src) < int(r.off)+2 {
			continue
		}
		r.off *= 2
		s += binary.BigEndian.Uint16(src[r.off:])
	}
	return s
}

// an index computed differently on two branches, each with its own bound test, and used after the join
type kern2 struct {
	data  []byte
	start uint32
	ext   bool
}

func (kd kern2) joinGood(l, r uint16) uint16 {
	index := int(l) + int(r)
	if kd.ext {
		index = int(kd.start) - 12 + 2*index
		if index < 0 || len(kd.data) < index+2 {
			return 0
		}
	} else if len(kd.data) < index+2 || index < int(kd.start) {
		return 0
	}
	return binary.BigEndian.Uint16(kd.data[index:])
}

// the same, one branch without its test
func (kd kern2) joinBad(l, r uint16) uint16 {
	index := int(l) + int(r)
	if kd.ext {
		index = int(kd.start) - 12 + 2*index
		if index < 0 || len(kd.data) < index+2 {
			return 0
		}
	} else if index < int(kd.start) {
		return 0
	}
	return binary.BigEndian.Uint16(kd.data[index:])
}

// an index that is one of two constants, tested after the join
func constPhiGood(src []byte, ot bool) byte {
	at := 5
	if ot {
		at = 4
	}
	if len(src) >= 6 && src[at] > 3 {
		return src[at]
	}
	return 0
}

// the same with a test that is too weak for one of the constants
func constPhiBad(src []byte, ot bool) byte {
	at := 5
	if ot {
		at = 4
	}
	if len(src) >= 5 && src[at] > 3 {
		return 1
	}
	return 0
}
