// Package des holds positive controls for R-GEN (P-LIN).
package des

import (
	"encoding/binary"
	"errors"
)

func stringGood(s *string, data []byte) (int, error) {
	if len(data) < 2 {
		return 0, errors.New("EOF")
	}
	L := int(binary.BigEndian.Uint16(data))
	if len(data) < 2+L {
		return 0, errors.New("EOF")
	}
	*s = string(data[2 : 2+L])
	return 2 + L, nil
}

// seeded: off by two in the length test
func stringBad(s *string, data []byte) (int, error) {
	if len(data) < 2 {
		return 0, errors.New("EOF")
	}
	L := int(binary.BigEndian.Uint16(data))
	if len(data) < L {
		return 0, errors.New("EOF")
	}
	*s = string(data[2 : 2+L])
	return 2 + L, nil
}

type stamp uint64

// assume len(src) >= 8
func (t *stamp) read(src []byte) { *t = stamp(binary.BigEndian.Uint64(src)) }

type set []uint32

func (st *set) readFrom(data []byte) (int, error) {
	if len(data) < 1 {
		return 0, errors.New("EOF")
	}
	L := int(data[0])
	if len(data) < 1+4*L {
		return 0, errors.New("EOF")
	}
	v := make(set, L)
	for i := range v {
		v[i] = binary.BigEndian.Uint32(data[1+4*i:])
	}
	*st = v
	return 1 + 4*L, nil
}

type entry struct {
	path string
	mod  stamp
	size uint64
	s    set
}

func (e *entry) readGood(src []byte) error {
	n, err := stringGood(&e.path, src)
	if err != nil {
		return err
	}
	if len(src) < n+16 {
		return errors.New("EOF")
	}
	e.mod.read(src[n:])
	e.size = binary.BigEndian.Uint64(src[n+8:])
	n += 16
	read, err := e.s.readFrom(src[n:])
	if err != nil {
		return err
	}
	n += read
	_ = src[:n]
	return nil
}

// seeded: a field was added, the length test kept its old value
func (e *entry) readBad(src []byte) error {
	n, err := stringGood(&e.path, src)
	if err != nil {
		return err
	}
	if len(src) < n+8 {
		return errors.New("EOF")
	}
	e.mod.read(src[n:])
	e.size = binary.BigEndian.Uint64(src[n+8:])
	return nil
}

// seeded: helper with a length precondition called without a test
func stampCallerBad(src []byte) stamp {
	var t stamp
	if len(src) < 4 {
		return 0
	}
	t.read(src)
	return t
}
