// Package grow holds the controls of R-BUDGET/grow.
package grow

type Buf struct {
	Info   []int
	out    []int
	idx    int
	maxLen int
}

// controls of R-BUDGET/grow

func (b *Buf) outputGlyphIndex(g int)            { b.out = append(b.out, g) }
func (b *Buf) replaceGlyphs(n int, glyphs []int) { b.out = append(b.out, glyphs...) }

// one input glyph, len(seq) output glyphs: capped by the limit on the buffer length
func (b *Buf) multiplyGood(seq []int) {
	if len(seq) > 1 && len(b.out)+len(b.Info)-b.idx+len(seq) > b.maxLen {
		seq = seq[:1]
	}
	for _, g := range seq {
		b.outputGlyphIndex(g)
	}
}

// seeded: nothing bounds the multiplication inside one lookup
func (b *Buf) multiplyBad(seq []int) {
	for _, g := range seq {
		b.outputGlyphIndex(g)
	}
}

func (b *Buf) insertGood(glyphs []int, count int) {
	if count > len(glyphs) {
		return
	}
	if len(b.out)+len(b.Info)-b.idx+count > b.maxLen {
		return
	}
	b.replaceGlyphs(0, glyphs[:count])
}

// seeded: the count of inserted glyphs comes from the font and is not compared with the limit
func (b *Buf) insertBad(glyphs []int, count int) {
	if count > len(glyphs) {
		return
	}
	b.replaceGlyphs(0, glyphs[:count])
}

// a fixed, small number of glyphs is not an instance
func (b *Buf) insertOne(g int) { b.replaceGlyphs(1, []int{g}) }

func (b *Buf) enlargeGood(extra int) {
	if extra < 0 || len(b.Info)+extra > b.maxLen {
		return
	}
	b.Info = append(b.Info, make([]int, extra)...)
}

// seeded: the number of copies comes from the advances of the font
func (b *Buf) enlargeBad(extra int) {
	if extra < 0 {
		return
	}
	b.Info = append(b.Info, make([]int, extra)...)
}
