module ctl

go 1.19
