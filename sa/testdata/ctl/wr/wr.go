// Package wr holds positive controls for R-RO / R-DIR.
package wr

import (
	"encoding/binary"
	"io"
)

type Table struct {
	Content []byte
	Tag     uint32
}

type entry struct{ Tag, CheckSum, Offset, Length uint32 }

const hdr, ent = 12, 16

func readHeader(r io.Reader) (uint32, uint16) {
	var buf [hdr]byte
	r.Read(buf[:])
	return binary.BigEndian.Uint32(buf[0:4]), binary.BigEndian.Uint16(buf[4:6])
}

func readEntry(r io.Reader) (e entry) {
	var buf [ent]byte
	io.ReadFull(r, buf[:])
	e.Tag = binary.BigEndian.Uint32(buf[0:4])
	e.CheckSum = binary.BigEndian.Uint32(buf[4:8])
	e.Offset = binary.BigEndian.Uint32(buf[8:12])
	e.Length = binary.BigEndian.Uint32(buf[12:16])
	return e
}

func sumGood(t []byte) uint32 {
	var s uint32
	n := len(t) / 4
	for i := 0; i < n; i++ {
		s += binary.BigEndian.Uint32(t[i*4:])
	}
	if r := len(t) % 4; r != 0 {
		var last [4]byte
		copy(last[:], t[n*4:])
		s += binary.BigEndian.Uint32(last[:])
	}
	return s
}

// seeded: appends the padding to the caller's slice
func sumBad(t []byte) uint32 {
	if r := len(t) % 4; r != 0 {
		t = append(t, make([]byte, 4-r)...)
	}
	var s uint32
	for i := 0; i < len(t)/4; i++ {
		s += binary.BigEndian.Uint32(t[i*4:])
	}
	return s
}

func headerGood(n int, out []byte) {
	binary.BigEndian.PutUint32(out, 0x00010000)
	binary.BigEndian.PutUint16(out[4:], uint16(n))
}

func headerBad(n int, out []byte) {
	binary.BigEndian.PutUint32(out, 0x00010000)
	binary.BigEndian.PutUint16(out[6:], uint16(n)) // seeded: wrong position
}

func WriteGood(tables []Table) []byte {
	intro := uint32(hdr + len(tables)*ent)
	buf := make([]byte, intro)
	headerGood(len(tables), buf)
	off := intro
	for i, t := range tables {
		cs := sumGood(t.Content)
		l := uint32(len(t.Content))
		s := buf[hdr+i*ent:]
		binary.BigEndian.PutUint32(s, t.Tag)
		binary.BigEndian.PutUint32(s[4:], cs)
		binary.BigEndian.PutUint32(s[8:], off)
		binary.BigEndian.PutUint32(s[12:], l)
		off = (off + l + 3) &^ 3
	}
	buf = append(buf, make([]byte, off-intro)...)
	off = intro
	for _, t := range tables {
		copy(buf[off:], t.Content)
		off = (off + uint32(len(t.Content)) + 3) &^ 3
	}
	return buf
}

func WriteBad(tables []Table) []byte {
	intro := uint32(hdr + len(tables)*ent)
	buf := make([]byte, intro)
	headerBad(len(tables), buf)
	off := intro
	for i, t := range tables {
		cs := sumBad(buf) // seeded: checksum of the wrong bytes
		l := uint32(len(t.Content))
		s := buf[hdr+i*ent:]
		binary.BigEndian.PutUint32(s, t.Tag)
		binary.BigEndian.PutUint32(s[4:], cs)
		binary.BigEndian.PutUint32(s[8:], l) // seeded: length and offset swapped
		binary.BigEndian.PutUint32(s[12:], off)
		off += l
		sumBad(t.Content)
	}
	buf = append(buf, make([]byte, off-intro)...)
	off = 0 // seeded: bodies start at another position than the directory says
	for _, t := range tables {
		copy(buf[off:], t.Content)
		off += uint32(len(t.Content))
	}
	return buf
}
