// Package own holds positive controls for the who-may-write, exchange and must-accompany rules.
package own

type Glyph struct{ Adv, Off, lead int }

type Run struct {
	Glyphs  []Glyph
	Advance int
	Visual  int32
}

func (r *Run) Recompute() {
	a := 0
	for _, g := range r.Glyphs {
		a += g.Adv
	}
	r.Advance = a
}

// writes without recomputing: callers must
func (r *Run) trim() {
	if len(r.Glyphs) > 0 {
		r.Glyphs[0].Adv -= r.Glyphs[0].lead
	}
}

func (r *Run) SpaceGood(d int) {
	for i := range r.Glyphs {
		r.Glyphs[i].Adv += d
	}
	r.Recompute()
}

// seeded: one path returns without recomputing
func (r *Run) SpaceBad(d int) {
	for i := range r.Glyphs {
		r.Glyphs[i].Adv += d
	}
	if d == 0 {
		return
	}
	r.Recompute()
}

func CutGood(r Run, n int) Run {
	r.Glyphs = r.Glyphs[:n]
	r.trim()
	r.Recompute()
	return r
}

// seeded: forgets to recompute after the deferred writer
func CutBad(r Run, n int) Run {
	r.Glyphs = r.Glyphs[:n]
	r.trim()
	return r
}

// ---- region ----

func measure(r Run) int { return r.Advance }

func trimBad(r Run) Run {
	if len(r.Glyphs) > 0 {
		r.Glyphs[0].Adv = 0 // seeded: writes the shared backing array
	}
	return r
}

func copyGood(r Run) Run {
	g := r.Glyphs[0] // local copy
	g.Adv = 0
	r.Advance -= g.Adv
	return r
}

func WrapGood(rs []Run) int {
	n := 0
	for _, r := range rs {
		n += measure(copyGood(r))
	}
	return n
}

func WrapBad(rs []Run) int {
	n := 0
	for _, r := range rs {
		n += measure(trimBad(r))
	}
	return n
}

// ---- ownership of Visual ----

func order(line []Run) {
	for i := range line {
		line[i].Visual = int32(i)
	}
}

func swapGood(sub []Run) {
	L := len(sub)
	for i := range sub[0 : L/2] {
		j := L - i - 1
		sub[i].Visual, sub[j].Visual = sub[j].Visual, sub[i].Visual
	}
}

// seeded: not an exchange
func swapBad(sub []Run) {
	L := len(sub)
	for i := range sub[0 : L/2] {
		j := L - i - 1
		sub[i].Visual = sub[j].Visual
		sub[j].Visual = sub[i].Visual
	}
}

// seeded: another writer
func sneakBad(line []Run) { line[0].Visual = 7 }
