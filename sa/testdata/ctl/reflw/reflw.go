// Package reflw: positive control of R-NOUNSAFE (a write made through reflect).
package reflw

import "reflect"

type T struct{ N int }

func Set(t *T, n int) { reflect.ValueOf(t).Elem().Field(0).SetInt(int64(n)) }
