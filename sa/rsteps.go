package main

// rsteps.go — R-STEPS: documented step orders that are visible in the shape of the code (C14 ResolveFace priority,
// buildCandidates passes, C15 retainsBestMatches narrowing chain), R-KEY/hash (C14) and R-KEY/owned (C13).

import (
	"fmt"
	"go/token"
	"go/types"
	"strings"

	"golang.org/x/tools/go/ssa"
)

// ---- C15: narrowing chain ------------------------------------------------------------------------------------------

type chainStep struct{ matcher, filter, aspectField string }

func ruleChain(p *Prog, r *Report, pkg, recv, fn string, defaults fnRef, steps []chainStep) {
	const rule = "R-STEPS"
	f := p.Func(pkg, recv, fn)
	key := p.FnName(f)
	r.Instance(rule, key)
	var rets []*ssa.Return
	for _, b := range f.Blocks {
		for _, in := range b.Instrs {
			if ret, ok := in.(*ssa.Return); ok {
				rets = append(rets, ret)
			}
		}
	}
	if len(rets) != 1 {
		r.Bad(rule, key, p.Pos(f.Pos()), fmt.Sprintf("expected a single return of the narrowed candidates, found %d", len(rets)))
		return
	}
	setDef := p.Func(defaults.pkg, defaults.recv, defaults.name)
	cur := rets[0].Results[0]
	// walk the chain backwards
	for i := len(steps) - 1; i >= 0; i-- {
		st := steps[i]
		filt := p.Func(pkg, recv, st.filter)
		match := p.Func(pkg, recv, st.matcher)
		fc, ok := cur.(*ssa.Call)
		if !ok || fc.Common().StaticCallee() != filt {
			r.Bad(rule, key+"/"+st.filter, p.IPos(rets[0]), fmt.Sprintf("step %d: the candidates are not narrowed by %s at this position of the chain (stretch, then style, then weight)", i+1, st.filter))
			return
		}
		args := fc.Common().Args // recv, candidates, value
		mc, ok := stripConv(args[2]).(*ssa.Call)
		if !ok || mc.Common().StaticCallee() != match {
			r.Bad(rule, key+"/"+st.filter, p.IPos(fc), fmt.Sprintf("step %d: %s does not receive the value returned by %s", i+1, st.filter, st.matcher))
			return
		}
		if mc.Common().Args[1] != args[1] {
			r.Bad(rule, key+"/"+st.matcher, p.IPos(mc), fmt.Sprintf("step %d: %s is computed on another candidate list than the one %s narrows", i+1, st.matcher, st.filter))
			return
		}
		// the requested value is the aspect field of the query parameter, read after SetDefaults
		qv := stripConv(mc.Common().Args[2])
		okField := false
		if u, isU := qv.(*ssa.UnOp); isU && u.Op == token.MUL {
			if fld := fieldOf(u.X); fld != nil && fld.Name() == st.aspectField {
				okField = true
				if okp, _ := mustPrecede(p, f, u, func(in ssa.Instruction) bool { return staticCallTo(in, setDef) }, nil); !okp {
					r.Bad(rule, key+"/defaults", p.IPos(u), fmt.Sprintf("query.%s is read before SetDefaults", st.aspectField))
					return
				}
			}
		}
		if fv, isF := qv.(*ssa.Field); isF && fieldOf(fv) != nil && fieldOf(fv).Name() == st.aspectField {
			okField = false // a value copy taken before SetDefaults
		}
		if !okField {
			r.Bad(rule, key+"/"+st.matcher, p.IPos(mc), fmt.Sprintf("step %d: %s is not asked for query.%s (after defaults)", i+1, st.matcher, st.aspectField))
			return
		}
		r.OK(rule, key+"/"+st.filter, p.IPos(fc), fmt.Sprintf("step %d: %s(current candidates, %s(current candidates, query.%s))", i+1, st.filter, st.matcher, st.aspectField))
		cur = args[1]
	}
	if _, isParam := cur.(*ssa.Parameter); !isParam {
		r.Bad(rule, key, p.Pos(f.Pos()), "the chain does not start from the candidates parameter")
		return
	}
	r.OK(rule, key, p.Pos(f.Pos()), "SetDefaults, then stretch, style, weight, each matcher evaluated on the list its filter narrows")
}

// ---- C14: ResolveFace priority ---------------------------------------------------------------------------------------

func ruleResolveOrder(p *Prog, r *Report) {
	const rule = "R-STEPS"
	f := p.Func("fontscan", "FontMap", "ResolveFace")
	rfr := p.Func("fontscan", "FontMap", "resolveForRune")
	build := p.Func("fontscan", "FontMap", "buildCandidates")
	key := p.FnName(f)
	r.Instance(rule, key)
	classify := func(v ssa.Value) string {
		// load of fm.candidates.X  /  lookup in fm.scriptMap
		if u, ok := v.(*ssa.UnOp); ok && u.Op == token.MUL {
			if fld := fieldOf(u.X); fld != nil {
				return fld.Name()
			}
		}
		if l, ok := v.(*ssa.Lookup); ok {
			if u, ok := l.X.(*ssa.UnOp); ok && u.Op == token.MUL {
				if fld := fieldOf(u.X); fld != nil {
					return fld.Name()
				}
			}
		}
		return "?"
	}
	want := []string{"withoutFallback", "withFallback", "manual", "scriptMap"}
	calls := map[string]*ssa.Call{}
	for _, c := range callsOf(f, rfr) {
		calls[classify(c.Common().Args[1])] = c
	}
	var prev ssa.Instruction
	for _, bc := range callsOf(f, build) {
		prev = bc
	}
	if prev == nil {
		r.Bad(rule, key+"/buildCandidates", p.Pos(f.Pos()), "the miss path does not call buildCandidates")
		return
	}
	for i, w := range want {
		c := calls[w]
		k := fmt.Sprintf("%s/step%d(%s)", key, i+1, w)
		if c == nil {
			r.Bad(rule, k, p.Pos(f.Pos()), fmt.Sprintf("no resolveForRune call on %s: a documented search step is missing", w))
			return
		}
		pr := prev
		ok, _ := mustPrecede(p, f, c, func(in ssa.Instruction) bool { return in == pr }, nil)
		// the face found is returned: from the `!= nil` edge no later step is tried
		found := false
		retOK := true
		for _, iff := range ifsOn(f, func(v ssa.Value) bool {
			bo, ok := v.(*ssa.BinOp)
			return ok && (bo.Op == token.NEQ || bo.Op == token.EQL) && stripConv(bo.X) == ssa.Value(c)
		}) {
			found = true
			bo := iff.Cond.(*ssa.BinOp)
			idx := 0
			if bo.Op == token.EQL {
				idx = 1
			}
			hit, _ := reachableFrom(p, f, point{iff.Block().Succs[idx], 0}, func(in ssa.Instruction) bool { return staticCallTo(in, rfr) }, nil, nil)
			if hit != nil {
				retOK = false
			}
		}
		r.Check(ok && found && retOK, rule, k, p.IPos(c), fmt.Sprintf("step %d searches %s after the previous step on every path, and a face found there is returned before any later step", i+1, w))
		prev = c
	}
}

func ruleBuildCandidates(p *Prog, r *Report) {
	const rule = "R-STEPS"
	f := p.Func("fontscan", "FontMap", "buildCandidates")
	fBuilt := p.Field("fontscan", "FontMap", "built")
	key := p.FnName(f)
	var done ssa.Instruction
	for _, b := range f.Blocks {
		for _, in := range b.Instrs {
			if st, ok := in.(*ssa.Store); ok && fieldOf(st.Addr) == fBuilt {
				if c, ok := st.Val.(*ssa.Const); ok && c.Value != nil && c.Value.ExactString() == "true" {
					done = in
				}
			}
		}
	}
	if done == nil {
		undecided("R-STEPS: buildCandidates no longer sets built = true")
	}
	for _, pass := range []struct{ fn, field string }{{"selectByFamilyWithSubs", "withFallback"}, {"filterUserProvided", "manual"}, {"retainsBestMatches", ""}} {
		callee := withDelegates(p, p.Func("fontscan", "fontSet", pass.fn)) // or the function it merely forwards to
		k := key + "/" + pass.fn
		r.Instance(rule, k)
		ok, path := mustPrecede(p, f, done, func(in ssa.Instruction) bool { return staticCallToAny(in, callee) }, nil)
		r.Check(ok, rule, k, p.IPos(done), fmt.Sprintf("every path that marks the candidates as built has run %s", pass.fn), path...)
	}
	// the exact-family pass: the loop over query.Families calls selectByFamilyExact
	k := key + "/selectByFamilyExact"
	r.Instance(rule, k)
	r.Check(len(callsOf(f, p.Func("fontscan", "fontSet", "selectByFamilyExact"))) > 0, rule, k, p.Pos(f.Pos()), "the exact-family pass is present")
}

// ---- R-KEY/hash -------------------------------------------------------------------------------------------------------

// ruleKeyHash: a key component computed by a hash of an input is lossy; the lookup must compare that input exactly and
// return a hit only on the equal edge of those comparisons.
func ruleKeyHash(p *Prog, r *Report, pkg, recv, keyFn, getFn string) {
	const rule = "R-KEY/hash"
	kfs := withDelegates(p, p.Func(pkg, recv, keyFn))
	kf := kfs[len(kfs)-1] // the function that builds the key, when keyFn only forwards to it
	get := p.Func(pkg, recv, getFn)
	key := p.FnName(get)
	r.Instance(rule, key)
	// inputs fed to a hash in the key function: fields of parameters loaded and passed to (hash).Write*
	hashed := map[*types.Var]bool{}
	for _, b := range kf.Blocks {
		for _, in := range b.Instrs {
			call, ok := in.(*ssa.Call)
			if !ok {
				continue
			}
			sc := call.Common().StaticCallee()
			if sc == nil || fnPkg(sc) == nil || !strings.HasPrefix(fnPkg(sc).Path(), "hash") || !strings.HasPrefix(sc.Name(), "Write") {
				continue
			}
			for _, a := range call.Common().Args[1:] {
				findFieldSources(a, hashed, 0)
			}
		}
	}
	if len(hashed) == 0 {
		r.OK(rule, key, p.Pos(kf.Pos()), "the key function hashes no input: every key component is exact")
		return
	}
	// in Get: comparisons whose operand derives from a hashed field of a parameter
	var cmps []*ssa.If
	for _, b := range get.Blocks {
		iff := ifOf(b)
		if iff == nil {
			continue
		}
		bo, ok := iff.Cond.(*ssa.BinOp)
		if !ok || (bo.Op != token.NEQ && bo.Op != token.EQL) {
			continue
		}
		src := map[*types.Var]bool{}
		findFieldSources(bo.X, src, 0)
		findFieldSources(bo.Y, src, 0)
		for fld := range src {
			if hashed[fld] {
				cmps = append(cmps, iff)
			}
		}
	}
	// hit returns: Return with a true constant as last result
	okAll := len(cmps) > 0
	nret := 0
	for _, b := range get.Blocks {
		for _, in := range b.Instrs {
			ret, ok := in.(*ssa.Return)
			if !ok || len(ret.Results) == 0 {
				continue
			}
			c, ok := ret.Results[len(ret.Results)-1].(*ssa.Const)
			if !ok || c.Value == nil || c.Value.ExactString() != "true" {
				continue
			}
			nret++
			guarded := false
			for _, iff := range cmps {
				bo := iff.Cond.(*ssa.BinOp)
				// element comparison `a != b`: the hit must be unreachable from the "different" edge
				if guardedBy(p, get, ret, guard{iff, bo.Op == token.NEQ}) {
					guarded = true
				}
			}
			if !guarded {
				okAll = false
			}
		}
	}
	var names []string
	for fld := range hashed {
		names = append(names, fld.Name())
	}
	r.Check(okAll && nret > 0, rule, key, p.Pos(get.Pos()), fmt.Sprintf("the key hashes %v; a cache hit is returned only on the equal edge of an exact comparison of that input (two inputs with the same hash do not share an entry)", names))
}

func findFieldSources(v ssa.Value, out map[*types.Var]bool, d int) {
	if d > 10 {
		return
	}
	switch x := v.(type) {
	case *ssa.UnOp:
		if x.Op == token.MUL {
			if f := fieldOf(x.X); f != nil {
				out[f] = true
			}
			findFieldSources(x.X, out, d+1)
		}
	case *ssa.Field:
		if f := fieldOf(x); f != nil {
			out[f] = true
		}
		findFieldSources(x.X, out, d+1)
	case *ssa.FieldAddr:
		if f := fieldOf(x); f != nil {
			out[f] = true
		}
		findFieldSources(x.X, out, d+1)
	case *ssa.IndexAddr:
		findFieldSources(x.X, out, d+1)
	case *ssa.Index:
		findFieldSources(x.X, out, d+1)
	case *ssa.Extract:
		findFieldSources(x.Tuple, out, d+1)
	case *ssa.Next:
		findFieldSources(x.Iter, out, d+1)
	case *ssa.Range:
		findFieldSources(x.X, out, d+1)
	case *ssa.Call:
		if bi, ok := x.Common().Value.(*ssa.Builtin); ok && bi.Name() == "len" {
			findFieldSources(x.Common().Args[0], out, d+1)
		}
	case *ssa.Phi:
		for _, e := range x.Edges {
			findFieldSources(e, out, d+1)
		}
	}
}

// ---- R-KEY/owned ---------------------------------------------------------------------------------------------------------

// ruleCacheOwned: the object stored into the cache is initialised in copy mode: every call of initFn on the object whose
// address reaches the cache passes the constant `true` for its copy parameter (the cached key must not alias caller storage).
func ruleCacheOwned(p *Prog, r *Report, pkg, lookupRecv, lookupFn, cacheRecv, cacheFld, initRecv, initFn string, copyIdx int) {
	const rule = "R-KEY/owned"
	look := p.Func(pkg, lookupRecv, lookupFn)
	initF := p.Func(pkg, initRecv, initFn)
	cacheF := p.Field(pkg, cacheRecv, cacheFld)
	key := p.FnName(look) + "/" + cacheFld
	r.Instance(rule, key)
	// values stored in the cache
	var stored []ssa.Value
	// (in the lookup function or in a helper it calls)
	for fn := range reachableFns(p, []*ssa.Function{look}) {
		for _, b := range fn.Blocks {
			for _, in := range b.Instrs {
				if mu, ok := in.(*ssa.MapUpdate); ok && isLoadOfField(mu.Map, cacheF) {
					stored = append(stored, mu.Value)
				}
			}
		}
	}
	if len(stored) == 0 {
		undecided("R-KEY/owned: %s no longer stores into %s", p.FnName(look), cacheFld)
	}
	// objects whose address flows into the stored value
	var objs []*ssa.Alloc
	var trace func(v ssa.Value, d int)
	seen := map[ssa.Value]bool{}
	trace = func(v ssa.Value, d int) {
		if d > 12 || seen[v] {
			return
		}
		seen[v] = true
		switch x := v.(type) {
		case *ssa.Alloc:
			objs = append(objs, x)
		case *ssa.Call:
			if bi, ok := x.Common().Value.(*ssa.Builtin); ok && bi.Name() == "append" {
				for _, a := range x.Common().Args[1:] {
					trace(a, d+1)
				}
				return
			}
			if sc := x.Common().StaticCallee(); sc != nil && sc.Blocks != nil {
				for _, b := range sc.Blocks {
					for _, in := range b.Instrs {
						if ret, ok := in.(*ssa.Return); ok {
							for _, rv := range ret.Results {
								trace(rv, d+1)
							}
						}
					}
				}
			}
		case *ssa.Slice:
			trace(x.X, d+1)
		case *ssa.Parameter:
			// the store is in a helper: the value is what its callers pass
			if node := p.CG().Nodes[x.Parent()]; node != nil {
				for i, q := range x.Parent().Params {
					if q != x {
						continue
					}
					for _, e := range node.In {
						if e.Site != nil && e.Site.Common().StaticCallee() == x.Parent() && i < len(e.Site.Common().Args) {
							trace(e.Site.Common().Args[i], d+1)
						}
					}
				}
			}
		case *ssa.Phi:
			for _, e := range x.Edges {
				trace(e, d+1)
			}
		case *ssa.UnOp:
			if x.Op == token.MUL {
				// a spilled element array of a variadic append
				if al, ok := x.X.(*ssa.Alloc); ok {
					trace(al, d+1)
				}
			}
		}
		// elements stored into a local array (variadic append)
		if al, ok := v.(*ssa.Alloc); ok {
			for _, in := range *al.Referrers() {
				if ia, ok := in.(*ssa.IndexAddr); ok {
					for _, in2 := range *ia.Referrers() {
						if st, ok := in2.(*ssa.Store); ok {
							trace(st.Val, d+1)
						}
					}
				}
			}
		}
	}
	for _, v := range stored {
		trace(v, 0)
	}
	n, bad := 0, ""
	for _, o := range objs {
		if !types.Identical(deref(o.Type()), deref(initF.Params[0].Type())) {
			continue
		}
		for _, in := range *o.Referrers() {
			call, ok := in.(*ssa.Call)
			if !ok || call.Common().StaticCallee() != initF || call.Common().Args[0] != ssa.Value(o) {
				continue
			}
			n++
			c, ok := call.Common().Args[copyIdx].(*ssa.Const)
			if !ok || c.Value == nil || c.Value.ExactString() != "true" {
				bad = p.IPos(call)
			}
		}
	}
	r.Check(n > 0 && bad == "", rule, key, p.Pos(look.Pos()), fmt.Sprintf("the plan stored in the cache is initialised by %s in copy mode (its key fields do not alias the caller's slices)%s", initFn, map[bool]string{true: "", false: " — initialised without copy at " + bad}[bad == ""]))
}
