package main

// lit.go — P-LIT: evaluation of package-level table literals from the syntax tree, using
// types.Info constant values only. No init function is run and nothing is executed.

import (
	"fmt"
	"go/ast"
	"go/constant"
	"go/token"
	"go/types"

	"golang.org/x/tools/go/packages"
)

type LVKind int

const (
	LConst LVKind = iota // Const set
	LNil
	LStruct // Fields
	LList   // array/slice: Elems with integer keys
	LMap    // Keys/Elems parallel
	LRef    // reference to another package-level variable (Ref)
	LPtr    // &composite : Elem
	LUnknown
)

type LV struct {
	Kind   LVKind
	Type   types.Type
	Const  constant.Value
	Fields map[string]*LV
	Index  []int64 // for LList: index of each element
	Keys   []*LV   // for LMap
	Elems  []*LV
	Ref    *types.Var
	Elem   *LV
	Pos    token.Pos
	Len    int64 // LList: array length / slice length
}

type litEval struct {
	p     *Prog
	inits map[*types.Var]litInit
}

type litInit struct {
	expr ast.Expr
	info *types.Info
}

func newLitEval(p *Prog) *litEval {
	le := &litEval{p: p, inits: map[*types.Var]litInit{}}
	for _, pk := range p.Pkgs {
		le.index(pk)
	}
	return le
}

func (le *litEval) index(pk *packages.Package) {
	for _, f := range pk.Syntax {
		for _, d := range f.Decls {
			gd, ok := d.(*ast.GenDecl)
			if !ok || gd.Tok != token.VAR {
				continue
			}
			for _, sp := range gd.Specs {
				vs := sp.(*ast.ValueSpec)
				if len(vs.Values) != len(vs.Names) {
					continue
				}
				for i, n := range vs.Names {
					if v, ok := pk.TypesInfo.Defs[n].(*types.Var); ok {
						le.inits[v] = litInit{vs.Values[i], pk.TypesInfo}
					}
				}
			}
		}
	}
}

// Var evaluates the initializer of a package-level variable.
func (le *litEval) Var(v *types.Var) *LV {
	in, ok := le.inits[v]
	if !ok {
		undecided("P-LIT: %s has no literal initializer", v.Name())
	}
	return le.eval(in.expr, in.info, v.Type())
}

func (le *litEval) HasInit(v *types.Var) bool { _, ok := le.inits[v]; return ok }

func (le *litEval) eval(e ast.Expr, info *types.Info, want types.Type) *LV {
	e = ast.Unparen(e)
	if tv, ok := info.Types[e]; ok && tv.Value != nil {
		return &LV{Kind: LConst, Const: tv.Value, Type: tv.Type, Pos: e.Pos()}
	}
	switch x := e.(type) {
	case *ast.Ident:
		if x.Name == "nil" {
			return &LV{Kind: LNil, Pos: e.Pos()}
		}
		if v, ok := info.Uses[x].(*types.Var); ok && v.Parent() == v.Pkg().Scope() {
			return &LV{Kind: LRef, Ref: v, Type: v.Type(), Pos: e.Pos()}
		}
	case *ast.SelectorExpr:
		if v, ok := info.Uses[x.Sel].(*types.Var); ok && v.Pkg() != nil && v.Parent() == v.Pkg().Scope() {
			return &LV{Kind: LRef, Ref: v, Type: v.Type(), Pos: e.Pos()}
		}
	case *ast.UnaryExpr:
		if x.Op == token.AND {
			in := le.eval(x.X, info, nil)
			return &LV{Kind: LPtr, Elem: in, Type: info.TypeOf(e), Pos: e.Pos()}
		}
	case *ast.CallExpr:
		// conversion T(x) of a non constant: evaluate operand
		if len(x.Args) == 1 {
			if tv, ok := info.Types[x.Fun]; ok && tv.IsType() {
				return le.eval(x.Args[0], info, tv.Type)
			}
		}
	case *ast.CompositeLit:
		t := info.TypeOf(e)
		if t == nil {
			t = want
		}
		return le.composite(x, info, t)
	}
	return &LV{Kind: LUnknown, Type: info.TypeOf(e), Pos: e.Pos()}
}

func (le *litEval) composite(cl *ast.CompositeLit, info *types.Info, t types.Type) *LV {
	if t == nil {
		return &LV{Kind: LUnknown, Pos: cl.Pos()}
	}
	isPtr := false
	if pt, ok := t.Underlying().(*types.Pointer); ok { // elided &T in a []*T literal
		t = pt.Elem()
		isPtr = true
	}
	var out *LV
	switch u := t.Underlying().(type) {
	case *types.Struct:
		out = &LV{Kind: LStruct, Type: t, Fields: map[string]*LV{}, Pos: cl.Pos()}
		for i, el := range cl.Elts {
			if kv, ok := el.(*ast.KeyValueExpr); ok {
				name := kv.Key.(*ast.Ident).Name
				var ft types.Type
				for j := 0; j < u.NumFields(); j++ {
					if u.Field(j).Name() == name {
						ft = u.Field(j).Type()
					}
				}
				out.Fields[name] = le.elem(kv.Value, info, ft)
			} else if i < u.NumFields() {
				out.Fields[u.Field(i).Name()] = le.elem(el, info, u.Field(i).Type())
			}
		}
	case *types.Array, *types.Slice:
		var et types.Type
		if a, ok := u.(*types.Array); ok {
			et = a.Elem()
		} else {
			et = u.(*types.Slice).Elem()
		}
		out = &LV{Kind: LList, Type: t, Pos: cl.Pos()}
		var idx int64
		var max int64
		for _, el := range cl.Elts {
			val := el
			if kv, ok := el.(*ast.KeyValueExpr); ok {
				tv := info.Types[kv.Key]
				if tv.Value == nil {
					return &LV{Kind: LUnknown, Type: t, Pos: cl.Pos()}
				}
				k, _ := constant.Int64Val(constant.ToInt(tv.Value))
				idx = k
				val = kv.Value
			}
			out.Index = append(out.Index, idx)
			out.Elems = append(out.Elems, le.elem(val, info, et))
			idx++
			if idx > max {
				max = idx
			}
		}
		out.Len = max
		if a, ok := u.(*types.Array); ok {
			out.Len = a.Len()
		}
	case *types.Map:
		out = &LV{Kind: LMap, Type: t, Pos: cl.Pos()}
		for _, el := range cl.Elts {
			kv, ok := el.(*ast.KeyValueExpr)
			if !ok {
				return &LV{Kind: LUnknown, Type: t, Pos: cl.Pos()}
			}
			out.Keys = append(out.Keys, le.elem(kv.Key, info, u.Key()))
			out.Elems = append(out.Elems, le.elem(kv.Value, info, u.Elem()))
		}
	default:
		return &LV{Kind: LUnknown, Type: t, Pos: cl.Pos()}
	}
	if isPtr {
		return &LV{Kind: LPtr, Elem: out, Type: types.NewPointer(t), Pos: cl.Pos()}
	}
	return out
}

// elem evaluates an element whose composite-literal type may be elided.
func (le *litEval) elem(e ast.Expr, info *types.Info, et types.Type) *LV {
	if cl, ok := e.(*ast.CompositeLit); ok && cl.Type == nil {
		return le.composite(cl, info, et)
	}
	return le.eval(e, info, et)
}

// ---- typed accessors ---------------------------------------------------------------------

// resolve follows references and pointers down to a value.
func (le *litEval) resolve(v *LV) *LV {
	for i := 0; i < 8 && v != nil; i++ {
		switch v.Kind {
		case LRef:
			if !le.HasInit(v.Ref) {
				return v
			}
			v = le.Var(v.Ref)
		case LPtr:
			v = v.Elem
		default:
			return v
		}
	}
	return v
}

func (v *LV) Int() (int64, bool) {
	if v == nil || v.Kind != LConst {
		return 0, false
	}
	c := constant.ToInt(v.Const)
	if c.Kind() != constant.Int {
		return 0, false
	}
	return constant.Int64Val(c)
}

func (v *LV) Str() (string, bool) {
	if v == nil || v.Kind != LConst || v.Const.Kind() != constant.String {
		return "", false
	}
	return constant.StringVal(v.Const), true
}

func (v *LV) field(name string) *LV {
	if v == nil || v.Kind != LStruct {
		return nil
	}
	return v.Fields[name]
}

type rng struct {
	lo, hi, stride int64
	pos            token.Pos
	is32           bool
}

type rangeTable struct {
	name        string
	pos         token.Pos
	r16, r32    []rng
	latinOffset int64
}

func (le *litEval) rangeTable(name string, v *LV) (*rangeTable, error) {
	v = le.resolve(v)
	if v == nil || v.Kind != LStruct {
		return nil, fmt.Errorf("%s: not a RangeTable literal", name)
	}
	rt := &rangeTable{name: name, pos: v.Pos}
	for _, part := range []struct {
		f    string
		is32 bool
	}{{"R16", false}, {"R32", true}} {
		l := v.field(part.f)
		if l == nil {
			continue
		}
		l = le.resolve(l)
		if l.Kind == LNil {
			continue
		}
		if l.Kind != LList {
			return nil, fmt.Errorf("%s.%s: not a literal list", name, part.f)
		}
		for _, e := range l.Elems {
			lo, ok1 := e.field("Lo").Int()
			hi, ok2 := e.field("Hi").Int()
			st, ok3 := e.field("Stride").Int()
			if !ok1 || !ok2 || !ok3 {
				return nil, fmt.Errorf("%s.%s: range with non-constant or missing Lo/Hi/Stride", name, part.f)
			}
			r := rng{lo, hi, st, e.Pos, part.is32}
			if part.is32 {
				rt.r32 = append(rt.r32, r)
			} else {
				rt.r16 = append(rt.r16, r)
			}
		}
	}
	if lo := v.field("LatinOffset"); lo != nil {
		n, ok := lo.Int()
		if !ok {
			return nil, fmt.Errorf("%s.LatinOffset: not constant", name)
		}
		rt.latinOffset = n
	}
	return rt, nil
}

func (rt *rangeTable) all() []rng { return append(append([]rng{}, rt.r16...), rt.r32...) }

// runes enumerates the members (after well-formedness has been checked).
func (rt *rangeTable) each(f func(r int64)) {
	for _, g := range rt.all() {
		if g.stride < 1 {
			continue
		}
		for r := g.lo; r <= g.hi; r += g.stride {
			f(r)
		}
	}
}
