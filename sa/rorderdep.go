package main

// rorderdep.go — R-ORDERDEP: the result of a function does not depend on the iteration order of a map.

import (
	"fmt"
	"go/types"
	"sort"

	"golang.org/x/tools/go/ssa"
)

// ruleOrderDep: a `range` over a map whose body leaves the loop on its first iteration unconditionally (no test between
// the fetch of the element and the return or break) and hands out the key or the value picks "the first element" of an
// unordered collection: with two elements or more, the answer differs from one call to the next. Loops that look for THE
// element satisfying a test are not concerned (their exit is conditional).
func ruleOrderDep(p *Prog, r *Report, pkgs []string, floor int) {
	const rule = "R-ORDERDEP"
	in := map[string]bool{}
	for _, k := range pkgs {
		in[p.pkgPath(k)] = true
	}
	n := 0
	var fns []*ssa.Function
	for _, f := range p.ModFns() {
		if fnPkg(f) != nil && in[fnPkg(f).Path()] {
			fns = append(fns, f)
		}
	}
	sort.Slice(fns, func(i, j int) bool { return fns[i].String() < fns[j].String() })
	for _, f := range fns {
		for _, b := range f.Blocks {
			for _, ins := range b.Instrs {
				nx, ok := ins.(*ssa.Next)
				if !ok || nx.IsString {
					continue
				}
				rg, ok := nx.Iter.(*ssa.Range)
				if !ok {
					continue
				}
				if _, isMap := rg.X.Type().Underlying().(*types.Map); !isMap {
					continue
				}
				n++
				// the block taken when an element was fetched
				iff := ifOf(b)
				if iff == nil {
					continue
				}
				body := b.Succs[0]
				key := fmt.Sprintf("%s/range %s", p.FnName(f), exprOf(rg.X))
				// follow unconditional jumps from the body: if a Return (or the loop exit) is reached without any
				// test and the element is used on the way, the first element decides
				uses := false
				cur := body
				bad := ""
				for steps := 0; steps < 8 && cur != nil; steps++ {
					for _, x := range cur.Instrs {
						for _, op := range x.Operands(nil) {
							if ex, ok := (*op).(*ssa.Extract); ok && ex.Tuple == ssa.Value(nx) && ex.Index > 0 {
								uses = true
							}
						}
						if ret, ok := x.(*ssa.Return); ok && uses {
							bad = p.IPos(ret)
						}
					}
					if bad != "" || len(cur.Succs) != 1 || cur.Succs[0] == b {
						break
					}
					cur = cur.Succs[0]
				}
				if bad == "" {
					continue
				}
				r.Instance(rule, key)
				r.Bad(rule, key, bad, fmt.Sprintf("%s returns an element of a map on the first iteration of a range over it, without any test: which one depends on the iteration order of the map", p.FnName(f)))
			}
		}
	}
	r.Count("map_ranges_examined", n)
	r.Floor(rule, n, floor)
	r.Instance(rule, "module")
	r.OK(rule, "module", "-", fmt.Sprintf("%d ranges over maps examined: none hands out its first element unconditionally", n))
}
