package main

// c01.go — C01 Shaping is total and accounts for every input rune (R-REC, R-SYNC, R-BUDGET).

import (
	"fmt"
	"go/token"
	"go/types"
	"strings"

	"golang.org/x/tools/go/ssa"
)

func init() {
	register(&propDef{id: "C01", run: runC01, controls: controlsC01})
}

func recExplain(r *Report) {
	r.Explain = append(r.Explain, "R-REC: every recursive SCC of the VTA call graph must be justified by a termination argument re-derived from the SSA on each run (depth guard whose exhausted edge cannot reach the recursive call; consume-marker; progress; well-founded table), and recursion inside a loop additionally needs a shared work budget.")
}

func runC01(p *Prog, r *Report) {
	recExplain(r)
	ruleRec(p, r, 6, recExtra(p))
	r.Explain = append(r.Explain, "R-SYNC: every function that stores Buffer.Info re-sizes Buffer.Pos on every path through that store (directly or through a callee that does so on all its paths) or is confined to output mode; swapBuffers/clearPositions take the new Pos length from len(Info); every clearOutput() is closed by swapBuffers() on all paths.")
	ruleSync(p, r, syncCfg{pkg: "harfbuzz", typ: "Buffer", info: "Info", pos: "Pos", haveOutput: "haveOutput",
		clearOutput: "clearOutput", swap: "swapBuffers", resync: []string{"swapBuffers", "clearPositions"}, floorWriters: 5, floorBrackets: 5})
	r.Explain = append(r.Explain, "R-BUDGET: in shaperOpentype.shape the stores of Buffer.maxOps and Buffer.maxLen, with values computed from len(Info), precede on every path each call that can reach a reader of these fields.")
	ruleBudget(p, r, budgetCfg{pkg: "harfbuzz", typ: "Buffer", info: "Info", budgets: []string{"maxOps", "maxLen"},
		entryPkg: "harfbuzz", entryRecv: "shaperOpentype", entry: "shape"})
	r.Explain = append(r.Explain, "R-BUDGET/grow: the sites that make the buffer longer by an amount the font chooses — a loop emitting one glyph per element of a slice it is given (outputGlyphIndex), a replaceGlyphs whose glyph list is not a literal, an append of a make() of computed length to Buffer.Info — are each bounded by Buffer.maxLen: a comparison depending on it precedes the site on every path (for the loop: the function compares the length of the ranged slice with it).")
	ruleBudgetGrow(p, r, "harfbuzz", "Buffer", "Info", "maxLen", "outputGlyphIndex", "replaceGlyphs", 3)
	r.Explain = append(r.Explain, "R-DIV: every integer division or remainder in the shaping engine whose divisor is not a non-zero constant has a provably non-zero divisor (dominating test, switch cases, non-zero field/result/argument everywhere, 1<<n) or a reviewed reason: a zero divisor is a run-time panic.")
	ruleDiv(p, r, []string{"harfbuzz", "shaping", "segmenter", "font"}, reviewedDivs(), 8)
	r.Explain = append(r.Explain, "R-IDX (regression rule over slice accesses in the hand-written code of package harfbuzz): each access key (function / indexed field) of the frozen set sa/ridx_tables.go — the accesses whose bounds P-LIN derived from the function's own dominating tests on the pinned tree, among them the tests added by the fixes for font-supplied lookup, mark-set and feature indices — is still derivable.")
	ruleIdx(p, r, "R-IDX", []string{"harfbuzz"}, ridxHarfbuzz, 80)
	r.Explain = append(r.Explain, "R-COVIDX: every array access whose index is a Coverage index (first result of Coverage.Index, followed through conversions, phis and arguments of module functions, one obligation per call site when the array is a parameter) is bounded by a test in its function (P-LIN) or by a sanitizer pair: a function called when the font is loaded compares len(<the indexed field>) with <the coverage field>.Len(), matched by the identity of the two struct fields; and the loader dispatches the sanitizers on each subtable as it is AFTER extensions have been resolved (R-COVIDX/resolved).")
	ruleCovIdx(p, r)
	ruleExtSan(p, r)
	r.Explain = append(r.Explain, "R-FONTIDX: in the shaper, an index read directly from a field of a font table (SequenceLookupRecord.SequenceIndex, LangSys.RequiredFeatureIndex) is compared with an upper bound and the array access is only reached through the in-range branch, or the field is one the loader replaces when out of range (the named sanitizer is checked to compare and store the field).")
	ruleFontIdx(p, r, "harfbuzz", []string{"font/opentype/tables", "font"}, map[string]fnRef{"LangSys.RequiredFeatureIndex": {"font", "", "sanitizeLangSys"}}, 6)
	nilExplain(r)
	ruleNil(p, r, "R-NIL", p.pkgPath("font/opentype/tables"), []string{p.pkgPath("harfbuzz")}, 20, 30)
	r.Assumptions = append(r.Assumptions,
		"termination of loops (as opposed to recursion) is not decided",
		"cluster monotonicity, rune/glyph count sums and output size proportional to input are NOT decided (runtime arithmetic)",
		"the call graph is VTA over CHA: dynamic calls are over-approximated, reflection and unsafe are not used by the module")
	r.NotDecided = append(r.NotDecided, "cluster accounting laws of the shaped output", "absence of index-out-of-range panics other than through the Info/Pos length mismatch", "termination of for-loops")
}

type budgetCfg struct {
	pkg, typ, info             string
	budgets                    []string
	entryPkg, entryRecv, entry string
	loopRecv, loopFn           string
	loopCallee, loopCalleeRecv string
	loopBudget                 string
}

func ruleBudget(p *Prog, r *Report, c budgetCfg) {
	const rule = "R-BUDGET"
	fInfo := p.Field(c.pkg, c.typ, c.info)
	entry := p.Func(c.entryPkg, c.entryRecv, c.entry)
	isLenInfo := func(v ssa.Value) bool {
		cl, ok := v.(*ssa.Call)
		if !ok {
			return false
		}
		b, ok := cl.Common().Value.(*ssa.Builtin)
		return ok && b.Name() == "len" && isLoadOfField(cl.Common().Args[0], fInfo)
	}
	for _, bn := range c.budgets {
		f := p.Field(c.pkg, c.typ, bn)
		// functions that read the budget, closed under callers
		readers := map[*ssa.Function]bool{}
		for _, fn := range p.ModFns() {
			for _, b := range fn.Blocks {
				for _, in := range b.Instrs {
					if u, ok := in.(*ssa.UnOp); ok && u.Op == token.MUL && fieldOf(u.X) == f {
						readers[fn] = true
					}
				}
			}
		}
		nReaders := len(readers)
		reach := map[*ssa.Function]bool{}
		var up func(fn *ssa.Function)
		up = func(fn *ssa.Function) {
			if reach[fn] {
				return
			}
			reach[fn] = true
			if n := p.CG().Nodes[fn]; n != nil {
				for _, e := range n.In {
					up(e.Caller.Func)
				}
			}
		}
		for fn := range readers {
			up(fn)
		}
		isInit := func(in ssa.Instruction) bool {
			st, ok := in.(*ssa.Store)
			return ok && fieldOf(st.Addr) == f && derivesFrom(st.Val, isLenInfo, 0)
		}
		n := 0
		for _, b := range entry.Blocks {
			for _, in := range b.Instrs {
				call, ok := in.(ssa.CallInstruction)
				if !ok {
					continue
				}
				hit := false
				for _, cal := range p.Callees(call) {
					if reach[cal] {
						hit = true
					}
				}
				if !hit {
					continue
				}
				n++
				callee := "dynamic"
				if cs := p.Callees(call); len(cs) > 0 {
					callee = p.FnName(cs[0])
				}
				key := fmt.Sprintf("%s.%s/init-before/%s", c.typ, bn, callee)
				r.Instance(rule, key)
				ok2, path := mustPrecede(p, entry, in, isInit, nil)
				r.Check(ok2, rule, key, p.IPos(in), fmt.Sprintf("%s is assigned from len(%s) on every path before this call, which can reach one of the %d functions reading it", bn, c.info, nReaders), path...)
			}
		}
		r.Floor(rule+"("+bn+")", n, 1)
	}
}

// ruleBudgetGrow — R-BUDGET/grow: the only things that make the buffer longer by an amount the font chooses are (a) a loop
// that emits one glyph per element of a slice it is given (outFn: outputGlyphIndex), (b) a call of replaceFn
// (replaceGlyphs) whose glyph list is not a literal, and (c) an append to the glyph array of a make() of non-constant
// length. Each of them is bounded by the limit on the buffer length: (b), (c): an If whose condition depends on a load of
// the limit precedes the site on every path; (a): the function contains a comparison that depends both on the limit and on
// the length of the slice that is ranged over (the cap may be a re-slice rather than a branch around the loop).
func ruleBudgetGrow(p *Prog, r *Report, pkg, typ, info, limit, outFn, replaceFn string, floor int) {
	const rule = "R-BUDGET/grow"
	fLimit := p.Field(pkg, typ, limit)
	fInfo := p.Field(pkg, typ, info)
	out := p.TryFunc(pkg, typ, outFn)
	repl := p.TryFunc(pkg, typ, replaceFn)
	onLimit := func(v ssa.Value) bool {
		return derivesFrom(v, func(x ssa.Value) bool { return isLoadOfField(x, fLimit) }, 0)
	}
	isLimitIf := func(in ssa.Instruction) bool {
		iff, ok := in.(*ssa.If)
		if !ok {
			return false
		}
		bo, ok := iff.Cond.(*ssa.BinOp)
		return ok && (onLimit(bo.X) || onLimit(bo.Y))
	}
	// the slice parameter a value is (a re-slice / phi of)
	var rootParam func(v ssa.Value, d int) *ssa.Parameter
	rootParam = func(v ssa.Value, d int) *ssa.Parameter {
		if d > 8 {
			return nil
		}
		switch x := v.(type) {
		case *ssa.Parameter:
			return x
		case *ssa.Slice:
			return rootParam(x.X, d+1)
		case *ssa.Phi:
			for _, e := range x.Edges {
				if q := rootParam(e, d+1); q != nil {
					return q
				}
			}
		}
		return nil
	}
	n := 0
	for _, f := range p.ModFns() {
		if fnPkg(f) == nil || fnPkg(f).Path() != p.pkgPath(pkg) || f == out || f == repl {
			continue
		}
		loops := naturalLoops(f)
		for _, b := range f.Blocks {
			for _, in := range b.Instrs {
				switch x := in.(type) {
				case *ssa.Call:
					sc := x.Common().StaticCallee()
					if sc != nil && sc == out && out != nil {
						// (a) inside a loop over a slice parameter
						var par *ssa.Parameter
						for _, l := range loops {
							if !l.blocks[b] {
								continue
							}
							for _, hin := range l.header.Instrs {
								// `for _, g := range seq`: the header compares the index with len(seq)
								if c, ok := hin.(*ssa.Call); ok {
									if bi, ok := c.Common().Value.(*ssa.Builtin); ok && bi.Name() == "len" {
										if q := rootParam(c.Common().Args[0], 0); q != nil {
											par = q
										}
									}
								}
							}
							for _, pre := range l.header.Preds {
								for _, hin := range pre.Instrs {
									if c, ok := hin.(*ssa.Call); ok {
										if bi, ok := c.Common().Value.(*ssa.Builtin); ok && bi.Name() == "len" {
											if q := rootParam(c.Common().Args[0], 0); q != nil {
												par = q
											}
										}
									}
								}
							}
						}
						if par == nil {
							continue
						}
						n++
						key := p.FnName(f) + "/loop over " + par.Name()
						r.Instance(rule, key)
						ok := false
						for _, gb := range f.Blocks {
							iff := ifOf(gb)
							if iff == nil || !isLimitIf(iff) {
								continue
							}
							bo := iff.Cond.(*ssa.BinOp)
							onLen := func(v ssa.Value) bool {
								return derivesFrom(v, func(y ssa.Value) bool {
									c, ok := y.(*ssa.Call)
									if !ok {
										return false
									}
									bi, ok := c.Common().Value.(*ssa.Builtin)
									return ok && bi.Name() == "len" && rootParam(c.Common().Args[0], 0) == par
								}, 0)
							}
							if onLen(bo.X) || onLen(bo.Y) {
								ok = true
							}
						}
						r.Check(ok, rule, key, p.IPos(in), fmt.Sprintf("one glyph is emitted per element of %s: the function compares len(%s) with %s.%s (a lookup cannot multiply the glyphs beyond the limit)", par.Name(), par.Name(), typ, limit))
					}
					if sc != nil && sc == repl && repl != nil {
						// (b) the glyph list (last argument) is not a literal of constant length
						args := x.Common().Args
						last := args[len(args)-1]
						lit := false
						// a slice of a local array has at most the (constant) length of the array
						ofLocalArray := func(v ssa.Value) bool {
							sl, ok := v.(*ssa.Slice)
							if !ok {
								return false
							}
							_, isAlloc := sl.X.(*ssa.Alloc)
							return isAlloc
						}
						if ofLocalArray(last) {
							lit = true
						}
						if c, ok := last.(*ssa.Const); ok && c.IsNil() {
							// the rune list is then the data
							lit = len(args) >= 2 && ofLocalArray(args[len(args)-2])
						}
						if lit {
							continue
						}
						n++
						key := p.FnName(f) + "/" + replaceFn
						r.Instance(rule, key)
						ok, path := mustPrecede(p, f, in, isLimitIf, nil)
						r.Check(ok, rule, key, p.IPos(in), fmt.Sprintf("the glyphs inserted come from the font: a comparison with %s.%s precedes the insertion on every path", typ, limit), path...)
					}
				case *ssa.Store:
					// (c) Info = append(Info, make(T, n)...)
					if fieldOf(x.Addr) != fInfo {
						continue
					}
					c, ok := x.Val.(*ssa.Call)
					if !ok {
						continue
					}
					bi, ok := c.Common().Value.(*ssa.Builtin)
					if !ok || bi.Name() != "append" || len(c.Common().Args) != 2 {
						continue
					}
					mk, ok := c.Common().Args[1].(*ssa.MakeSlice)
					if !ok {
						continue
					}
					if _, isC := mk.Len.(*ssa.Const); isC {
						continue
					}
					if why, ok := growExempt[p.FnName(f)]; ok {
						r.Instance(rule+"(not an instance)", p.FnName(f)+": "+why)
						continue
					}
					n++
					key := p.FnName(f) + "/append(make)"
					r.Instance(rule, key)
					ok2, path := mustPrecede(p, f, in, isLimitIf, nil)
					r.Check(ok2, rule, key, p.IPos(in), fmt.Sprintf("%s is enlarged by a computed number of glyphs: a comparison with %s.%s precedes it on every path", info, typ, limit), path...)
				}
			}
		}
	}
	r.Floor(rule, n, floor)
}

// growExempt: enlargements of the glyph array that do not add glyphs, confirmed by reading.
var growExempt = map[string]string{
	"(*harfbuzz.Buffer).shiftForward": "makes room in Info for glyphs that moveTo takes back from the output buffer: the total number of glyphs does not change",
}

// sameLengthCopy: the value stored into field fld is append(make(T, 0, n), <load of fld>...): the same elements in a new
// array, so the length of the slice does not change.
func sameLengthCopy(st *ssa.Store, fld *types.Var) bool {
	c, ok := st.Val.(*ssa.Call)
	if !ok {
		return false
	}
	bi, ok := c.Common().Value.(*ssa.Builtin)
	if !ok || bi.Name() != "append" || len(c.Common().Args) != 2 {
		return false
	}
	mk, ok := c.Common().Args[0].(*ssa.MakeSlice)
	if !ok {
		return false
	}
	if k, isK := intConst(mk.Len); !isK || k != 0 {
		return false
	}
	return isLoadOfField(c.Common().Args[1], fld)
}

func recExtra(p *Prog) map[string]recJust { return map[string]recJust{} }

func controlsRec(cp *Prog, r *Report) {
	expectControl(r, "R-REC", func(cr *Report) { ruleRecIn(cp, cr, 0, "rec") },
		"(*rec.ctx).recurseBad", "(*rec.ctx).recurseBad/fanout", "rec.depthBad", "rec.fanoutBad/fanout", "rec.markerBad", "rec.plainBad", "(rec.cm).lookupBad", "(rec.cm).offsetBad", "(*rec.wrapBad).next", "rec.walkBad/fanout")
}

// ---- R-SYNC ---------------------------------------------------------------------------------------------

type syncCfg struct {
	pkg, typ, info, pos string // Buffer, Info, Pos
	haveOutput          string
	clearOutput, swap   string   // bracket
	resync              []string // methods that must re-size pos to len(info)
	floorWriters        int
	floorBrackets       int
}

func ruleSync(p *Prog, r *Report, c syncCfg) {
	fInfo := p.Field(c.pkg, c.typ, c.info)
	fPos := p.Field(c.pkg, c.typ, c.pos)
	fOut := p.Field(c.pkg, c.typ, c.haveOutput)
	fns := p.ModFns()
	isPosStore := func(in ssa.Instruction) bool { return storesField(in, fPos) }
	mustPos := mustCallSummary(p, fns, isPosStore)
	posR := func(in ssa.Instruction) bool {
		if isPosStore(in) {
			return true
		}
		if cl, ok := in.(*ssa.Call); ok {
			if sc := cl.Common().StaticCallee(); sc != nil && mustPos[sc] {
				return true
			}
		}
		return false
	}
	// pairing
	writers := 0
	for _, f := range fns {
		for _, b := range f.Blocks {
			for _, in := range b.Instrs {
				if !storesField(in, fInfo) {
					continue
				}
				if sameLengthCopy(in.(*ssa.Store), fInfo) {
					// Info = append(make(T, 0, n), Info...): a re-allocation with more capacity, the length is unchanged
					continue
				}
				writers++
				key := "pair/" + p.FnName(f)
				r.Instance("R-SYNC", key)
				okF, _ := mustFollow(p, f, after(in), posR)
				okP, _ := mustPrecede(p, f, in, posR, nil)
				if okF || okP {
					r.OK("R-SYNC", key, p.IPos(in), "stores "+c.info+" and re-sizes "+c.pos+" on every path through the store")
					continue
				}
				// output-mode interior: every caller invokes it only while haveOutput is true
				if ok, why := onlyInOutputMode(p, f, fOut); ok {
					r.OK("R-SYNC", key, p.IPos(in), "stores "+c.info+" only inside an output-mode bracket ("+why+"); the closing "+c.swap+" re-sizes "+c.pos)
					continue
				}
				r.Bad("R-SYNC", key, p.IPos(in), fmt.Sprintf("%s stores %s.%s without re-sizing %s.%s (directly or through a callee) and is not confined to output mode: the two parallel slices can differ in length when they are next indexed together", p.FnName(f), c.typ, c.info, c.typ, c.pos))
			}
		}
	}
	r.Floor("R-SYNC(pair)", writers, c.floorWriters)
	// resync shape: the length stored into Pos derives from len(Info)
	for _, name := range c.resync {
		f := p.Func(c.pkg, c.typ, name)
		key := "resync/" + p.FnName(f)
		r.Instance("R-SYNC", key)
		if !mustPos[f] {
			r.Bad("R-SYNC", key, p.Pos(f.Pos()), name+" does not store "+c.pos+" on every path")
			continue
		}
		bad := resyncShape(p, f, fInfo, fPos, map[*ssa.Function]bool{})
		if bad != nil {
			r.Bad("R-SYNC", key, p.IPos(bad), "a value stored into "+c.pos+" here does not take its length from len("+c.info+")")
		} else {
			r.OK("R-SYNC", key, p.Pos(f.Pos()), "every store of "+c.pos+" on its paths takes its length from len("+c.info+")")
		}
	}
	// brackets
	clr := p.Func(c.pkg, c.typ, c.clearOutput)
	swp := p.Func(c.pkg, c.typ, c.swap)
	mustSwap := mustCallSummary(p, fns, func(in ssa.Instruction) bool { return staticCallTo(in, swp) })
	nb := 0
	for _, f := range fns {
		if f == clr {
			continue
		}
		for _, b := range f.Blocks {
			for _, in := range b.Instrs {
				if !staticCallTo(in, clr) {
					continue
				}
				if _, isDefer := in.(*ssa.Defer); isDefer {
					continue
				}
				nb++
				key := "bracket/" + p.FnName(f)
				r.Instance("R-SYNC", key)
				ok, path := mustFollowCut(p, f, after(in), func(x ssa.Instruction) bool {
					if staticCallTo(x, swp) {
						return true
					}
					if cl, ok := x.(*ssa.Call); ok {
						if sc := cl.Common().StaticCallee(); sc != nil && mustSwap[sc] {
							return true
						}
					}
					return false
				}, p.correlatedCut(f, in))
				r.Check(ok, "R-SYNC", key, p.IPos(in), c.clearOutput+"() is followed by "+c.swap+"() on every path to the function exit", path...)
			}
		}
	}
	r.Floor("R-SYNC(bracket)", nb, c.floorBrackets)
}

// onlyInOutputMode: every call site of f (VTA in-edges) is unreachable from the edge on which haveOutput is false.
func onlyInOutputMode(p *Prog, f *ssa.Function, fOut *types.Var) (bool, string) {
	n := p.CG().Nodes[f]
	if n == nil || len(n.In) == 0 {
		return false, ""
	}
	var callers []string
	for _, e := range n.In {
		caller := e.Caller.Func
		site := e.Site
		if site == nil {
			return false, ""
		}
		ok := false
		for _, b := range caller.Blocks {
			iff := ifOf(b)
			if iff == nil {
				continue
			}
			cond := iff.Cond
			neg := false
			if u, isU := cond.(*ssa.UnOp); isU && u.Op == token.NOT {
				cond = u.X
				neg = true
			}
			if !isLoadOfField(cond, fOut) {
				continue
			}
			// exhausted = haveOutput false: false edge normally, true edge when negated
			if guardedBy(p, caller, site, guard{iff, neg}) {
				ok = true
			}
		}
		if !ok {
			return false, ""
		}
		callers = append(callers, p.FnName(caller))
	}
	return true, "callers: " + strings.Join(callers, ", ")
}

// resyncShape returns a Pos store whose stored length does not derive from len(Info), or nil.
func resyncShape(p *Prog, f *ssa.Function, fInfo, fPos *types.Var, seen map[*ssa.Function]bool) ssa.Instruction {
	if seen[f] {
		return nil
	}
	seen[f] = true
	isLenInfo := func(v ssa.Value) bool {
		cl, ok := v.(*ssa.Call)
		if !ok {
			return false
		}
		b, ok := cl.Common().Value.(*ssa.Builtin)
		return ok && b.Name() == "len" && isLoadOfField(cl.Common().Args[0], fInfo)
	}
	var lenOK func(v ssa.Value, d int) bool
	lenOK = func(v ssa.Value, d int) bool {
		if d > 8 {
			return false
		}
		switch x := v.(type) {
		case *ssa.Slice:
			return x.High != nil && derivesFrom(x.High, isLenInfo, 0)
		case *ssa.MakeSlice:
			return derivesFrom(x.Len, isLenInfo, 0)
		case *ssa.Call:
			if b, ok := x.Common().Value.(*ssa.Builtin); ok && b.Name() == "append" {
				for _, a := range x.Common().Args[1:] {
					if lenOK(a, d+1) {
						return true
					}
				}
			}
		case *ssa.Phi:
			for _, e := range x.Edges {
				if !lenOK(e, d+1) {
					return false
				}
			}
			return true
		}
		return false
	}
	for _, b := range f.Blocks {
		for _, in := range b.Instrs {
			if st, ok := in.(*ssa.Store); ok && fieldOf(st.Addr) == fPos {
				if !lenOK(st.Val, 0) {
					return in
				}
			}
			if cl, ok := in.(*ssa.Call); ok {
				if sc := cl.Common().StaticCallee(); sc != nil && sc.Blocks != nil && len(sc.Params) > 0 && len(cl.Common().Args) > 0 && cl.Common().Args[0] == f.Params[0] {
					if bad := resyncShape(p, sc, fInfo, fPos, seen); bad != nil {
						return bad
					}
				}
			}
		}
	}
	return nil
}

func controlsNil(cp *Prog, r *Report) {
	expectControl(r, "R-NIL", func(cr *Report) { ruleNil(cp, cr, "R-NIL", cp.pkgPath("nl"), []string{cp.pkgPath("nl")}, 8, 4) },
		"nl.useBad/Index on nl.T.C", "nl.useElemBad/Index on nl.T.E", "nl.helper/Index on nl.T.D", "(nl.W).copyBad/Index on nl.W.c", "nl.closureBad$1/Index on nl.T.C",
		"nl.rawLook/parses nl.T")
}

func nilExplain(r *Report) {
	r.Explain = append(r.Explain, "R-NIL: the interface-typed fields (and elements of slices of interfaces) that the table parsers leave nil for a NULL offset are found in the program (every parser store to the field is control-dependent on an `offset != 0` test) and closed under field-to-field copies; every invoke-mode call on an interface of the tables package whose receiver may be a load of such a field — followed through parameters to all callers, captured variables, call results and local copies — is dominated by a nil test of that field (directly, through a boolean field that only ever caches such a test, or in every caller), or the field is replaced by an empty table in the fill functions, in which case every parser result implementing the lookup interface must be obtained in a function whose returns all go through the fill entry (R-NIL/fill).")
}

func controlsC01(cp *Prog, r *Report) {
	expectControl(r, "R-FONTIDX", func(cr *Report) {
		ruleFontIdx(cp, cr, "fidx", []string{"fidx"}, map[string]fnRef{"langSys.Required": {"fidx", "", "sanitize"}}, 3)
	}, "fidx.applyBad/record.SeqIndex")
	controlsRec(cp, r)
	controlsNil(cp, r)
	expectControl(r, "R-SYNC", func(cr *Report) {
		ruleSync(cp, cr, syncCfg{pkg: "syncbuf", typ: "Buf", info: "Info", pos: "Pos", haveOutput: "have",
			clearOutput: "clearOutput", swap: "swapGood", resync: []string{"swapGood", "resyncBad"}, floorWriters: 3, floorBrackets: 2})
	}, "pair/(*syncbuf.Buf).swapBad", "pair/(*syncbuf.Buf).deleteBad", "pair/(*syncbuf.Buf).shiftBad", "resync/(*syncbuf.Buf).resyncBad", "bracket/syncbuf.applyBad")
	expectControl(r, "R-BUDGET", func(cr *Report) {
		ruleBudget(cp, cr, budgetCfg{pkg: "syncbuf", typ: "Buf", info: "Info", budgets: []string{"maxOps", "maxLen"},
			entryPkg: "syncbuf", entryRecv: "shaper", entry: "shapeGood"})
		ruleBudget(cp, cr, budgetCfg{pkg: "syncbuf", typ: "Buf", info: "Info", budgets: []string{"maxOps", "maxLen"},
			entryPkg: "syncbuf", entryRecv: "shaper", entry: "shapeBad"})
	}, "Buf.maxOps/init-before/(*syncbuf.Buf).work", "Buf.maxLen/init-before/(*syncbuf.Buf).work")
	expectControl(r, "R-BUDGET/grow", func(cr *Report) {
		ruleBudgetGrow(cp, cr, "grow", "Buf", "Info", "maxLen", "outputGlyphIndex", "replaceGlyphs", 6)
	}, "(*grow.Buf).multiplyBad/loop over seq", "(*grow.Buf).insertBad/replaceGlyphs", "(*grow.Buf).enlargeBad/append(make)")
}

