package main

// cwrap.go — path and ownership rules of the shaping package: C02 (R-GLYPHS, R-ADV, R-CUT), C03 (R-VALID, R-NEVER, R-REQ),
// C08 (R-ORDER, R-OWN), C12 (R-ADV, R-SIDE).

import (
	"fmt"
	"go/constant"
	"go/token"
	"go/types"
	"sort"

	"golang.org/x/tools/go/ssa"
)

func init() {
	register(&propDef{id: "C02", run: runC02, controls: controlsWrap})
	register(&propDef{id: "C03", run: runC03, controls: controlsWrap})
	register(&propDef{id: "C08", run: runC08, controls: controlsWrap})
	register(&propDef{id: "C12", run: runC12, controls: controlsWrap})
}

// ---- who-may-write over reachability ---------------------------------------------------------------------------

type whoCfg struct {
	rule      string
	pkg, typ  string   // struct type whose fields are protected
	fields    []string // nil = every field
	entries   []fnRef  // functions from which the writers must NOT be reachable (forbidden region) ...
	allowed   []fnRef  // ... or, when entries is nil: the only functions of pkg allowed to write
	scopePkg  string   // package whose functions are examined when `allowed` is used
	why       string
	floorSeen int
}

// storesToType lists the stores of f into fields of struct type T reached through a pointer that is not a local
// variable of f (writes to a fresh local copy are not writes to shared storage).
func storesToType(f *ssa.Function, T *types.Named, fields map[*types.Var]bool) []*ssa.Store {
	return storesToTypeX(f, T, fields, true)
}

// storesToTypeX: with exemptFresh, stores into an element of a slice that the function has just copied are left out.
func storesToTypeX(f *ssa.Function, T *types.Named, fields map[*types.Var]bool, exemptFresh bool) []*ssa.Store {
	var out []*ssa.Store
	for _, b := range f.Blocks {
		for _, in := range b.Instrs {
			st, ok := in.(*ssa.Store)
			if !ok {
				continue
			}
			fa, ok := st.Addr.(*ssa.FieldAddr)
			if !ok || !types.Identical(deref(fa.X.Type()), T) {
				continue
			}
			if fields != nil && !fields[fieldOf(fa)] {
				continue
			}
			if al, ok := fa.X.(*ssa.Alloc); ok && !al.Heap {
				continue
			}
			if ia, ok := fa.X.(*ssa.IndexAddr); ok && exemptFresh && freshSlice(f, ia.X, st) {
				continue // an element of a slice that the function has just copied (copy-on-write): not shared storage
			}
			out = append(out, st)
		}
	}
	return out
}

// freshSlice: the slice value s, used at `use`, is backed by memory allocated by this function and not yet shared: it is
// the result of make or of append(nil, ...), or it is loaded from a location whose only store in the function stores such a
// value and dominates the load.
func freshSlice(f *ssa.Function, s ssa.Value, use ssa.Instruction) bool {
	isFresh := func(v ssa.Value) bool {
		switch x := v.(type) {
		case *ssa.MakeSlice:
			return true
		case *ssa.Call:
			if bi, ok := x.Common().Value.(*ssa.Builtin); ok && bi.Name() == "append" && len(x.Common().Args) > 0 {
				if c, ok := x.Common().Args[0].(*ssa.Const); ok && c.Value == nil {
					return true
				}
			}
		}
		return false
	}
	if isFresh(s) {
		return true
	}
	ld, ok := s.(*ssa.UnOp)
	if !ok || ld.Op != token.MUL {
		return false
	}
	// the stores to the location; the load is fresh when a fresh store dominates it and no other store to the location
	// lies on a path from that store to the load (several branches may each make their own copy)
	var stores []*ssa.Store
	for _, b := range f.Blocks {
		for _, in := range b.Instrs {
			if st, ok := in.(*ssa.Store); ok && sameAddr(st.Addr, ld.X) {
				stores = append(stores, st)
			}
		}
	}
	dominatesLoad := func(st *ssa.Store) bool {
		if st.Block() == ld.Block() {
			return instrIndex(st) < instrIndex(ld)
		}
		return st.Block().Dominates(ld.Block())
	}
	// blocks from which the load can be reached
	canReach := map[*ssa.BasicBlock]bool{ld.Block(): true}
	for work := []*ssa.BasicBlock{ld.Block()}; len(work) > 0; {
		b := work[len(work)-1]
		work = work[:len(work)-1]
		for _, p := range b.Preds {
			if !canReach[p] {
				canReach[p] = true
				work = append(work, p)
			}
		}
	}
	for _, st := range stores {
		if !isFresh(st.Val) || !dominatesLoad(st) {
			continue
		}
		clean := true
		w := &walker{fn: f, cutEdge: func(from, to *ssa.BasicBlock) bool { return !canReach[to] }}
		w.run([]point{after(st)}, func(in ssa.Instruction) bool {
			if in == ssa.Instruction(ld) {
				return false
			}
			if o, ok := in.(*ssa.Store); ok && o != st && sameAddr(o.Addr, ld.X) {
				clean = false
				return false
			}
			return true
		})
		if clean {
			return true
		}
	}
	return false
}

func ruleWho(p *Prog, r *Report, c whoCfg) {
	T := p.Named(c.pkg, c.typ)
	var fields map[*types.Var]bool
	if c.fields != nil {
		fields = map[*types.Var]bool{}
		for _, f := range c.fields {
			fields[p.Field(c.pkg, c.typ, f)] = true
		}
	}
	if c.entries != nil {
		var roots []*ssa.Function
		for _, e := range c.entries {
			roots = append(roots, p.Func(e.pkg, e.recv, e.name))
		}
		reach := reachableFns(p, roots)
		n := 0
		var fs []*ssa.Function
		for f := range reach {
			fs = append(fs, f)
		}
		sort.Slice(fs, func(i, j int) bool { return fs[i].String() < fs[j].String() })
		for _, f := range fs {
			n++
			sts := storesToType(f, T, fields)
			key := c.rule + "/" + p.FnName(f)
			if len(sts) > 0 {
				r.Bad(c.rule, p.FnName(f), p.IPos(sts[0]), fmt.Sprintf("%s, reachable from %s, stores to %s.%s: %s", p.FnName(f), p.FnName(roots[0]), c.typ, fieldOf(sts[0].Addr).Name(), c.why), callPath(p, roots, f)...)
			} else if len(f.Blocks) > 0 {
				_ = key
			}
		}
		r.Instance(c.rule, fmt.Sprintf("%d functions reachable from %s", n, p.FnName(roots[0])))
		r.Floor(c.rule, n, c.floorSeen)
		if len(r.Violations()) == 0 || true {
			r.OK(c.rule, c.rule+"/region", p.Pos(roots[0].Pos()), fmt.Sprintf("%d functions reachable from the entry points examined for stores to %s", n, c.typ))
		}
		return
	}
	allowed := map[*ssa.Function]bool{}
	for _, a := range c.allowed {
		allowed[p.Func(a.pkg, a.recv, a.name)] = true
	}
	n := 0
	for _, f := range p.ModFns() {
		if fnPkg(f) == nil || fnPkg(f).Path() != p.pkgPath(c.scopePkg) {
			continue
		}
		sts := storesToType(f, T, fields)
		if len(sts) == 0 {
			continue
		}
		n++
		r.Instance(c.rule, p.FnName(f))
		r.Check(allowed[f], c.rule, p.FnName(f), p.IPos(sts[0]), fmt.Sprintf("writes %s.%s; %s", c.typ, fieldOf(sts[0].Addr).Name(), c.why))
	}
	r.Floor(c.rule, n, c.floorSeen)
}

// callPath finds one call-graph path from a root to f (diagnostic).
func callPath(p *Prog, roots []*ssa.Function, target *ssa.Function) []string {
	prev := map[*ssa.Function]*ssa.Function{}
	seen := map[*ssa.Function]bool{}
	queue := append([]*ssa.Function{}, roots...)
	for _, r := range roots {
		seen[r] = true
	}
	for len(queue) > 0 {
		f := queue[0]
		queue = queue[1:]
		if f == target {
			var out []string
			for x := f; x != nil; x = prev[x] {
				out = append([]string{p.FnName(x)}, out...)
			}
			return out
		}
		if n := p.CG().Nodes[f]; n != nil {
			for _, e := range n.Out {
				g := e.Callee.Func
				if !seen[g] && p.inModule(fnPkg(g)) {
					seen[g] = true
					prev[g] = f
					queue = append(queue, g)
				}
			}
		}
	}
	return nil
}

// ---- must-accompany with propagation to callers -------------------------------------------------------------------

// ruleAccompany: every trigger instruction must be followed, on every path to the exit of its function, by a discharge
// instruction; if not, the obligation moves to every call site of that function, recursively; it fails at a function
// without callers in the module or at an exported function.
func ruleAccompany(p *Prog, r *Report, rule string, isTrigger, isDischarge func(ssa.Instruction) bool, scopePkg string, what string, floor int) {
	fns := p.ModFns()
	must := mustCallSummary(p, fns, isDischarge)
	dis := func(in ssa.Instruction) bool {
		if isDischarge(in) {
			return true
		}
		if cl, ok := in.(*ssa.Call); ok {
			if sc := cl.Common().StaticCallee(); sc != nil && must[sc] {
				return true
			}
		}
		return false
	}
	pendingFns := map[*ssa.Function]string{}
	n := 0
	for _, f := range fns {
		if fnPkg(f) == nil || fnPkg(f).Path() != p.pkgPath(scopePkg) {
			continue
		}
		open := false
		has := false
		var first ssa.Instruction
		for _, b := range f.Blocks {
			for _, in := range b.Instrs {
				if !isTrigger(in) {
					continue
				}
				has = true
				if ok, _ := mustFollow(p, f, after(in), dis); !ok {
					if !open {
						first = in
					}
					open = true
				}
			}
		}
		if !has {
			continue
		}
		n++
		r.Instance(rule, p.FnName(f))
		if open {
			pendingFns[f] = p.IPos(first)
		} else {
			r.OK(rule, p.FnName(f), p.Pos(f.Pos()), what+" on every path after each write")
		}
	}
	r.Floor(rule, n, floor)
	// propagate
	done := map[*ssa.Function]bool{}
	var up func(f *ssa.Function, via []string, depth int)
	up = func(f *ssa.Function, via []string, depth int) {
		if done[f] {
			return
		}
		done[f] = true
		node := p.CG().Nodes[f]
		var edges []ssa.CallInstruction
		callers := map[ssa.CallInstruction]*ssa.Function{}
		if node != nil {
			for _, e := range node.In {
				if e.Site != nil && p.inModule(fnPkg(e.Caller.Func)) {
					edges = append(edges, e.Site)
					callers[e.Site] = e.Caller.Func
				}
			}
		}
		exported := f.Object() != nil && f.Object().Exported()
		if len(edges) == 0 || exported || depth > 5 {
			r.Bad(rule, p.FnName(f), p.Pos(f.Pos()), fmt.Sprintf("%s is not guaranteed after the write made (transitively) by %s", what, p.FnName(f)), via...)
			return
		}
		sort.Slice(edges, func(i, j int) bool { return edges[i].Pos() < edges[j].Pos() })
		for _, site := range edges {
			cf := callers[site]
			if ok, _ := mustFollow(p, cf, after(site), dis); ok {
				r.OK(rule, p.FnName(cf)+"<-"+p.FnName(f), p.IPos(site), fmt.Sprintf("calls %s, which writes without recomputing, and performs %s on every path afterwards", p.FnName(f), what))
				continue
			}
			up(cf, append(append([]string{}, via...), fmt.Sprintf("called from %s at %s", p.FnName(cf), p.IPos(site))), depth+1)
		}
	}
	var pf []*ssa.Function
	for f := range pendingFns {
		pf = append(pf, f)
	}
	sort.Slice(pf, func(i, j int) bool { return pf[i].String() < pf[j].String() })
	for _, f := range pf {
		up(f, []string{"write at " + pendingFns[f]}, 0)
	}
}

// ---- C02 ---------------------------------------------------------------------------------------------------------

func advWrite(p *Prog) func(ssa.Instruction) bool {
	G := p.Named("shaping", "Glyph")
	xa, ya := p.Field("shaping", "Glyph", "XAdvance"), p.Field("shaping", "Glyph", "YAdvance")
	return func(in ssa.Instruction) bool {
		st, ok := in.(*ssa.Store)
		if !ok {
			return false
		}
		fa, ok := st.Addr.(*ssa.FieldAddr)
		if !ok || !types.Identical(deref(fa.X.Type()), G) {
			return false
		}
		if al, ok := fa.X.(*ssa.Alloc); ok && !al.Heap {
			return false // a local copy of a glyph
		}
		f := fieldOf(fa)
		return f == xa || f == ya
	}
}

func recompute(p *Prog) func(ssa.Instruction) bool {
	a, b := p.Func("shaping", "Output", "RecomputeAdvance"), p.Func("shaping", "Output", "RecalculateAll")
	return func(in ssa.Instruction) bool { return staticCallTo(in, a) || staticCallTo(in, b) }
}

func ruleAdv(p *Prog, r *Report) {
	r.Explain = append(r.Explain, "R-ADV: every store to Glyph.XAdvance/YAdvance in package shaping is followed on every path to the function exit by RecomputeAdvance or RecalculateAll, or else every caller does so after the call, up to the exported API (a run's cached Advance tracks its glyphs).")
	ruleAccompany(p, r, "R-ADV", advWrite(p), recompute(p), "shaping", "RecomputeAdvance/RecalculateAll", 5)
}

func runC02(p *Prog, r *Report) {
	r.Explain = append(r.Explain, "R-GLYPHS: no function reachable from LineWrapper.WrapParagraph/Prepare/WrapNextLine stores to a field of shaping.Glyph through shared storage: the glyph slices of candidate, committed and input runs share their backing arrays, so such a store changes the caller's shaped runs and every other candidate cut from them.")
	ruleWho(p, r, whoCfg{rule: "R-GLYPHS", pkg: "shaping", typ: "Glyph",
		entries: []fnRef{{"shaping", "LineWrapper", "WrapParagraph"}, {"shaping", "LineWrapper", "Prepare"}, {"shaping", "LineWrapper", "WrapNextLine"},
			// the methods of a wrapped Line work on glyph storage that the line shares with the input runs as well
			{"shaping", "Line", "AdjustBaselines"}},
		why: "line wrapping must not alter glyph storage that it shares with the input runs and with other candidates", floorSeen: 30})
	ruleAdv(p, r)
	ruleCut(p, r)
	r.Explain = append(r.Explain, "R-TRIM/start: every call of wrapBuffer.singleRunParagraph (the line constructor of the WrapParagraph shortcut) is preceded on every path by the trimming of the leading letter spacing of the run, as WrapNextLine does for the first run of a line: the same paragraph measures the same whichever path builds its line.")
	ruleTrimStart(p, r)
	wrapperState(p, r)
	r.Assumptions = append(r.Assumptions, "RunIterator implementations outside the module are not analysed")
	r.NotDecided = append(r.NotDecided, "exact-once coverage of the paragraph, order, cluster integrity, non-empty lines, termination of the wrapping loops (runtime arithmetic)")
}

// ruleCut: every Output appended to the candidate line (wrapBuffer.candidateAppend / markCandidateBest suffixes) is the
// result of cutRun or an unmodified iterator run.
func ruleCut(p *Prog, r *Report) {
	const rule = "R-CUT"
	r.Explain = append(r.Explain, "R-CUT: every run handed to wrapBuffer.candidateAppend or markCandidateBest originates from RunIterator.Peek/Next or from cutRun (possibly through processBreakOption's result), never from a run assembled elsewhere.")
	cut := p.Func("shaping", "", "cutRun")
	pbo := p.Func("shaping", "LineWrapper", "processBreakOption")
	sinks := []*ssa.Function{p.Func("shaping", "wrapBuffer", "candidateAppend"), p.Func("shaping", "wrapBuffer", "markCandidateBest")}
	visiting := map[*ssa.Function]bool{}
	bound := map[*ssa.Parameter]ssa.Value{} // parameters of the helpers being looked into -> arguments of the call
	var origin func(v ssa.Value, d int) string
	origin = func(v ssa.Value, d int) string {
		if d > 10 {
			return "too deep"
		}
		switch x := v.(type) {
		case *ssa.Call:
			if x.Common().StaticCallee() == cut {
				return ""
			}
			// a helper of the package wrapping cutRun: every Output it returns must have a good origin itself (a local
			// Output whose whole-value stores come from cutRun or the iterator; its fields may then be adjusted)
			if sc := x.Common().StaticCallee(); sc != nil && visiting[sc] {
				return "" // a cycle through the helper being examined (a loop variable fed back to it): nothing new
			}
			if sc := x.Common().StaticCallee(); sc != nil && sc.Blocks != nil && fnPkg(sc) == fnPkg(cut) && sc.Signature.Results().Len() == 1 {
				visiting[sc] = true
				defer delete(visiting, sc)
				for i, q := range sc.Params {
					if i < len(x.Common().Args) {
						bound[q] = x.Common().Args[i]
						defer delete(bound, q)
					}
				}
				res := ""
				found := false
				for _, b := range sc.Blocks {
					if ret, ok := b.Instrs[len(b.Instrs)-1].(*ssa.Return); ok {
						found = true
						if s := origin(ret.Results[0], d+1); s != "" && res == "" {
							res = s
						}
					}
				}
				if found {
					return res
				}
			}
			return "result of " + x.String()
		case *ssa.Extract:
			if c, ok := x.Tuple.(*ssa.Call); ok {
				if c.Common().IsInvoke() && (c.Common().Method.Name() == "Peek" || c.Common().Method.Name() == "Next") && x.Index == 1 {
					return ""
				}
				if c.Common().StaticCallee() == pbo && x.Index == 1 {
					return ""
				}
			}
			return "extract of " + x.Tuple.String()
		case *ssa.Phi:
			for _, e := range x.Edges {
				if s := origin(e, d+1); s != "" {
					return s
				}
			}
			return ""
		case *ssa.UnOp:
			if x.Op == token.MUL {
				// load of a spilled local: every store into it must have a good origin
				if al, ok := x.X.(*ssa.Alloc); ok {
					for _, in := range *al.Referrers() {
						if st, ok := in.(*ssa.Store); ok && st.Addr == ssa.Value(al) {
							if s := origin(st.Val, d+1); s != "" {
								return s
							}
						}
					}
					return ""
				}
			}
		case *ssa.Slice:
			// variadic suffixes: new [n]Output filled with values
			return origin(x.X, d+1)
		case *ssa.Alloc:
			for _, in := range *x.Referrers() {
				if ia, ok := in.(*ssa.IndexAddr); ok {
					for _, in2 := range *ia.Referrers() {
						if st, ok := in2.(*ssa.Store); ok && st.Addr == ssa.Value(ia) {
							if s := origin(st.Val, d+1); s != "" {
								return s
							}
						}
					}
				}
			}
			return ""
		case *ssa.Const:
			if x.IsNil() {
				return ""
			}
		case *ssa.Parameter:
			if a, ok := bound[x]; ok {
				return origin(a, d+1)
			}
		}
		return fmt.Sprintf("%T %s", v, v.String())
	}
	n := 0
	// results of processBreakOption itself must be cutRun results or zero values
	for _, b := range pbo.Blocks {
		for _, in := range b.Instrs {
			if ret, ok := in.(*ssa.Return); ok && len(ret.Results) == 2 {
				n++
				s := ""
				if _, isZero := ret.Results[1].(*ssa.Const); !isZero {
					s = origin(ret.Results[1], 0)
				}
				r.Check(s == "", rule, p.FnName(pbo)+"/return", p.IPos(in), "the run returned is produced by cutRun (or is the zero Output)"+pref(s))
			}
		}
	}
	for _, f := range p.ModFns() {
		if fnPkg(f) == nil || fnPkg(f).Path() != p.pkgPath("shaping") {
			continue
		}
		for _, b := range f.Blocks {
			for _, in := range b.Instrs {
				call, ok := in.(*ssa.Call)
				if !ok {
					continue
				}
				for _, sk := range sinks {
					if call.Common().StaticCallee() != sk {
						continue
					}
					n++
					key := p.FnName(f) + "->" + sk.Name()
					r.Instance(rule, key)
					s := origin(call.Common().Args[1], 0)
					r.Check(s == "", rule, key, p.IPos(in), "the run placed on the candidate line comes from the iterator, from cutRun or from processBreakOption"+pref(s))
				}
			}
		}
	}
	r.Floor(rule, n, 8)
}

func pref(s string) string {
	if s == "" {
		return ""
	}
	return " — found: " + s
}

// ---- C03 ---------------------------------------------------------------------------------------------------------

func runC03(p *Prog, r *Report) {
	r.Explain = append(r.Explain,
		"R-VALID: in processBreakOption the cutRun call whose end rune comes from the candidate is unreachable from the false edge of breakOption.isValid on the same candidate; in wrapNextLine no markCandidateBest with a candidate run is reachable from the `breakInvalid` edge of the result test.",
		"R-NEVER: assuming config.BreakPolicy == Never (the field is not written in the region, P-FX), and removing the default edge of the exhaustive switch over processBreakOption's constant results, the call of breaker.nextGraphemeBreak is unreachable in wrapNextLine.",
		"R-REQ: in wrapNextLine, from the true edge of a test of the candidate's `required` flag no further candidate is requested before the function returns, and every path from the `fits` edge of a UAX#14 candidate to the next nextWordBreak call passes that test.")
	ruleValid(p, r)
	ruleNever(p, r)
	ruleReq(p, r)
	ruleFastPath(p, r)
	wrapperState(p, r)
	r.Assumptions = append(r.Assumptions, "break candidates are those of the segmenter (C06); cluster boundaries those of the shaped input")
	r.NotDecided = append(r.NotDecided, "that candidates equal UAX #14/#29 opportunities", "the WhenNecessary 'cannot fit by itself' law", "mandatory breaks fused into one cluster by shaping")
}

// ruleFastPath: the single-run shortcut of WrapParagraph is taken only after the UAX#14 candidates were scanned to
// exhaustion, and never on a path that saw a mandatory candidate.
func ruleFastPath(p *Prog, r *Report) {
	const rule = "R-FAST"
	r.Explain = append(r.Explain, "R-FAST: in WrapParagraph the single-run shortcut (singleRunParagraph) is reachable only through the exhausted edge of the nextWordBreak scan, and not from the edge on which a candidate's `required` flag was seen (path-sensitive over the constant flag phi).")
	wp := p.Func("shaping", "LineWrapper", "WrapParagraph")
	single := p.Func("shaping", "wrapBuffer", "singleRunParagraph")
	nwb := p.Func("shaping", "breaker", "nextWordBreak")
	fReq := p.Field("shaping", "breakOption", "required")
	isSite := func(in ssa.Instruction) bool { return staticCallTo(in, single) }
	sites := callsOf(wp, single)
	r.Floor(rule, len(sites), 1)
	key := p.FnName(wp) + "/singleRunParagraph"
	r.Instance(rule, key)
	// (A) every path to the shortcut uses the `!ok` edge of a nextWordBreak scan
	var okIfs []*ssa.If
	for _, c := range callsOf(wp, nwb) {
		okIfs = append(okIfs, ifsOn(wp, func(v ssa.Value) bool {
			ex, ok := v.(*ssa.Extract)
			return ok && ex.Tuple == ssa.Value(c) && ex.Index == 1
		})...)
	}
	okA := len(okIfs) > 0 && !reachConstPhi(wp, wp.Blocks[0], nil, isSite, cutBranch(false, okIfs...))
	// or the scan lives in a helper: a function returning a bool whose `false` is returned only through the exhausted edge
	// of its own nextWordBreak scan and never from the edge on which a mandatory candidate was seen; the shortcut must then
	// be reachable only through the false edge of a test of that result
	mayReturnFalse := func(in ssa.Instruction) bool {
		ret, ok := in.(*ssa.Return)
		if !ok || len(ret.Results) != 1 {
			return false
		}
		c, isC := ret.Results[0].(*ssa.Const)
		return !(isC && c.Value != nil && c.Value.Kind() == constant.Bool && constant.BoolVal(c.Value))
	}
	isScanHelper := func(h *ssa.Function) bool {
		if h == wp || h.Signature.Results().Len() != 1 || !types.Identical(h.Signature.Results().At(0).Type(), types.Typ[types.Bool]) {
			return false
		}
		var hOk []*ssa.If
		for _, c := range callsOf(h, nwb) {
			hOk = append(hOk, ifsOn(h, func(v ssa.Value) bool {
				ex, ok := v.(*ssa.Extract)
				return ok && ex.Tuple == ssa.Value(c) && ex.Index == 1
			})...)
		}
		if len(hOk) == 0 || reachConstPhi(h, h.Blocks[0], nil, mayReturnFalse, cutBranch(false, hOk...)) {
			return false
		}
		nReq := 0
		for _, iff := range ifsOn(h, func(v ssa.Value) bool { return fieldOf(v) == fReq || isLoadOfField(v, fReq) }) {
			nReq++
			if reachConstPhi(h, iff.Block().Succs[0], iff.Block(), mayReturnFalse, nil) {
				return false
			}
		}
		return nReq > 0
	}
	viaHelper := false
	if !okA {
		var hIfs []*ssa.If
		for _, b := range wp.Blocks {
			for _, in := range b.Instrs {
				c, ok := in.(*ssa.Call)
				if !ok {
					continue
				}
				if h := c.Common().StaticCallee(); h != nil && h.Blocks != nil && fnPkg(h) == fnPkg(wp) && isScanHelper(h) {
					hIfs = append(hIfs, ifsOn(wp, func(v ssa.Value) bool { return v == ssa.Value(c) })...)
				}
			}
		}
		if len(hIfs) > 0 && !reachConstPhi(wp, wp.Blocks[0], nil, isSite, cutBranch(false, hIfs...)) {
			okA, viaHelper = true, true
		}
	}
	r.Check(okA, rule, key+"/scan", p.Pos(wp.Pos()), "the shortcut is reachable only after nextWordBreak reported that no candidate is left")
	// (B) not reachable from the edge on which a required candidate was seen
	okB := true
	n := 0
	for _, iff := range ifsOn(wp, func(v ssa.Value) bool { return fieldOf(v) == fReq || isLoadOfField(v, fReq) }) {
		n++
		if reachConstPhi(wp, iff.Block().Succs[0], iff.Block(), isSite, nil) {
			okB = false
		}
	}
	r.Check(okB && n > 0 || viaHelper, rule, key+"/required", p.Pos(wp.Pos()), "the shortcut is not reachable from the edge on which a mandatory candidate was seen")
}

func callsOf(f *ssa.Function, callee *ssa.Function) []*ssa.Call {
	var out []*ssa.Call
	for _, b := range f.Blocks {
		for _, in := range b.Instrs {
			if c, ok := in.(*ssa.Call); ok && c.Common().StaticCallee() == callee {
				out = append(out, c)
			}
		}
	}
	return out
}

// ifsOn returns the Ifs of f whose condition is exactly v (or !v).
func ifsOn(f *ssa.Function, pred func(ssa.Value) bool) []*ssa.If {
	var out []*ssa.If
	for _, b := range f.Blocks {
		if i := ifOf(b); i != nil && pred(i.Cond) {
			out = append(out, i)
		}
	}
	return out
}

func ruleValid(p *Prog, r *Report) {
	const rule = "R-VALID"
	pbo := p.Func("shaping", "LineWrapper", "processBreakOption")
	cut := p.Func("shaping", "", "cutRun")
	isValid := p.Func("shaping", "breakOption", "isValid")
	wnl := p.Func("shaping", "LineWrapper", "wrapNextLine")
	mark := p.Func("shaping", "wrapBuffer", "markCandidateBest")
	fBreak := p.Field("shaping", "breakOption", "breakAtRune")
	n := 0
	// the calls that cut a run at the candidate: cutRun itself, or a helper of the package that hands one of its parameters
	// to cutRun as the end rune
	type cutCall struct {
		call *ssa.Call
		end  ssa.Value
	}
	var cuts []cutCall
	for _, c := range callsOf(pbo, cut) {
		if len(c.Common().Args) >= 4 {
			cuts = append(cuts, cutCall{c, c.Common().Args[3]})
		}
	}
	for _, b := range pbo.Blocks {
		for _, in := range b.Instrs {
			c, ok := in.(*ssa.Call)
			if !ok {
				continue
			}
			h := c.Common().StaticCallee()
			if h == nil || h == cut || h.Blocks == nil || fnPkg(h) != fnPkg(cut) {
				continue
			}
			for _, hc := range callsOf(h, cut) {
				if len(hc.Common().Args) < 4 {
					continue
				}
				for j, q := range h.Params {
					if derivesFrom(hc.Common().Args[3], func(v ssa.Value) bool { return v == ssa.Value(q) }, 0) && j < len(c.Common().Args) {
						cuts = append(cuts, cutCall{c, c.Common().Args[j]})
					}
				}
			}
		}
	}
	for _, cc := range cuts {
		c := cc.call
		// end rune argument derives from option.breakAtRune
		if !derivesFrom(cc.end, func(v ssa.Value) bool { return fieldOf(v) == fBreak || isLoadOfField(v, fBreak) }, 0) {
			continue
		}
		n++
		key := p.FnName(pbo) + "/cutRun(candidate)"
		r.Instance(rule, key)
		ok := false
		for _, vc := range callsOf(pbo, isValid) {
			for _, iff := range ifsOn(pbo, func(v ssa.Value) bool { return v == ssa.Value(vc) }) {
				if guardedBy(p, pbo, c, guard{iff, false}) {
					ok = true
				}
			}
		}
		r.Check(ok, rule, key, p.IPos(c), "the candidate is cut only after isValid accepted it (cluster-interior candidates cannot reach a line)")
	}
	r.Floor(rule+"(cut)", n, 1)
	// wrapNextLine: markCandidateBest(candidateRun) unreachable from result == breakInvalid
	inv := constInt(p, "shaping", "breakInvalid")
	m := 0
	for _, pc := range callsOf(wnl, pbo) {
		var resIfs []*ssa.If
		var otherIfs []*ssa.If // result == <a constant other than breakInvalid>
		for _, b := range wnl.Blocks {
			iff := ifOf(b)
			if iff == nil {
				continue
			}
			bo, ok := iff.Cond.(*ssa.BinOp)
			if !ok || bo.Op != token.EQL {
				continue
			}
			ex, ok := stripConv(bo.X).(*ssa.Extract)
			if !ok || ex.Tuple != ssa.Value(pc) || ex.Index != 0 {
				continue
			}
			if c, ok := intConst(bo.Y); ok && c == inv {
				resIfs = append(resIfs, iff)
			} else if ok {
				otherIfs = append(otherIfs, iff)
			}
		}
		for _, mc := range callsOf(wnl, mark) {
			// only marks that carry this call's candidate run
			carries := false
			if len(mc.Common().Args) > 1 {
				carries = derivesFromAgg(mc.Common().Args[1], func(v ssa.Value) bool {
					ex, ok := v.(*ssa.Extract)
					return ok && ex.Tuple == ssa.Value(pc) && ex.Index == 1
				})
			}
			if !carries {
				continue
			}
			m++
			key := fmt.Sprintf("%s/markCandidateBest#%d", p.FnName(wnl), m)
			r.Instance(rule, key)
			ok := false
			for _, iff := range resIfs {
				if guardedBy(p, wnl, mc, guard{iff, true}) {
					ok = true
				}
			}
			// or only on the true edge of a test of the result against another constant
			for _, iff := range otherIfs {
				if guardedBy(p, wnl, mc, guard{iff, false}) {
					ok = true
				}
			}
			r.Check(ok, rule, key, p.IPos(mc), "a candidate run is committed only when processBreakOption did not report breakInvalid")
		}
	}
	r.Floor(rule+"(mark)", m, 6)
}

// derivesFromAgg: like derivesFrom but also looks into variadic slices built from a local array.
func derivesFromAgg(v ssa.Value, pred0 func(ssa.Value) bool) bool {
	// also through a local the value was spilled to (a struct whose fields are read elsewhere)
	var pred func(ssa.Value) bool
	busy := map[ssa.Value]bool{}
	pred = func(x ssa.Value) bool {
		if pred0(x) {
			return true
		}
		if u, ok := x.(*ssa.UnOp); ok && u.Op == token.MUL {
			if al, ok := u.X.(*ssa.Alloc); ok && !busy[al] && al.Referrers() != nil {
				busy[al] = true
				defer delete(busy, al)
				for _, in := range *al.Referrers() {
					if st, ok := in.(*ssa.Store); ok && st.Addr == ssa.Value(al) && derivesFrom(st.Val, pred, 0) {
						return true
					}
				}
			}
		}
		return false
	}
	if derivesFrom(v, pred, 0) {
		return true
	}
	if s, ok := v.(*ssa.Slice); ok {
		if al, ok := s.X.(*ssa.Alloc); ok {
			for _, in := range *al.Referrers() {
				if ia, ok := in.(*ssa.IndexAddr); ok {
					for _, in2 := range *ia.Referrers() {
						if st, ok := in2.(*ssa.Store); ok && derivesFrom(st.Val, pred, 0) {
							return true
						}
					}
				}
			}
		}
	}
	return false
}

// assumeFieldEq: cut function assuming a field load equals a constant: for `load == K` / `load != K` tests.
func assumeFieldEq(f *ssa.Function, fld *types.Var, val int64) []struct {
	iff     *ssa.If
	cutTrue bool
} {
	var out []struct {
		iff     *ssa.If
		cutTrue bool
	}
	for _, b := range f.Blocks {
		iff := ifOf(b)
		if iff == nil {
			continue
		}
		bo, ok := iff.Cond.(*ssa.BinOp)
		if !ok || (bo.Op != token.EQL && bo.Op != token.NEQ) {
			continue
		}
		var k int64
		var okc bool
		if isLoadOfField(bo.X, fld) {
			k, okc = intConst(bo.Y)
		} else if isLoadOfField(bo.Y, fld) {
			k, okc = intConst(bo.X)
		}
		if !okc {
			continue
		}
		holds := (k == val) == (bo.Op == token.EQL)
		// if the condition holds, the false edge is infeasible
		out = append(out, struct {
			iff     *ssa.If
			cutTrue bool
		}{iff, !holds})
	}
	return out
}

// returnConstSet: the set of constants a function returns as result idx; ok=false if some return is not constant.
func returnConstSet(f *ssa.Function, idx int) (map[int64]bool, bool) {
	out := map[int64]bool{}
	for _, b := range f.Blocks {
		for _, in := range b.Instrs {
			if ret, ok := in.(*ssa.Return); ok {
				c, ok := intConst(ret.Results[idx])
				if !ok {
					return nil, false
				}
				out[c] = true
			}
		}
	}
	return out, len(out) > 0
}

// exhaustiveSwitchCuts: for the chain of `x == K` tests on value x in f, if every value x can take is tested, the false
// edge of the last test of the chain is infeasible.
func exhaustiveSwitchCuts(f *ssa.Function, isX func(ssa.Value) bool, values map[int64]bool) []*ssa.If {
	tested := map[ssa.Value]map[int64]*ssa.If{}
	for _, b := range f.Blocks {
		iff := ifOf(b)
		if iff == nil {
			continue
		}
		bo, ok := iff.Cond.(*ssa.BinOp)
		if !ok || bo.Op != token.EQL || !isX(stripConv(bo.X)) {
			continue
		}
		k, ok := intConst(bo.Y)
		if !ok {
			continue
		}
		x := stripConv(bo.X)
		if tested[x] == nil {
			tested[x] = map[int64]*ssa.If{}
		}
		tested[x][k] = iff
	}
	var cuts []*ssa.If
	for _, m := range tested {
		all := true
		for v := range values {
			if m[v] == nil {
				all = false
			}
		}
		if !all {
			continue
		}
		// last test of the chain: its false successor does not test the same value again
		for _, iff := range m {
			next := iff.Block().Succs[1]
			again := false
			if ni := ifOf(next); ni != nil {
				for _, other := range m {
					if other == ni {
						again = true
					}
				}
			}
			if !again {
				cuts = append(cuts, iff)
			}
		}
	}
	return cuts
}

func ruleNever(p *Prog, r *Report) {
	const rule = "R-NEVER"
	wnl := p.Func("shaping", "LineWrapper", "wrapNextLine")
	pbo := p.Func("shaping", "LineWrapper", "processBreakOption")
	ngb := p.Func("shaping", "breaker", "nextGraphemeBreak")
	fPol := p.Field("shaping", "WrapConfig", "BreakPolicy")
	never := constInt(p, "shaping", "Never")
	key := p.FnName(wnl) + "/BreakPolicy==Never"
	r.Instance(rule, key)
	// the policy is not written in the region
	fx := NewFX(p)
	fx.Run()
	if idx, ok := fx.index[fPol]; ok && fx.mayW[wnl].has(idx) {
		r.Bad(rule, key, p.Pos(wnl.Pos()), "config.BreakPolicy may be written inside wrapNextLine's region: the policy assumption is not stable")
		return
	}
	var cutT, cutF []*ssa.If
	for _, a := range assumeFieldEq(wnl, fPol, never) {
		if a.cutTrue {
			cutT = append(cutT, a.iff)
		} else {
			cutF = append(cutF, a.iff)
		}
	}
	if len(cutT)+len(cutF) == 0 {
		undecided("R-NEVER: wrapNextLine no longer tests config.BreakPolicy")
	}
	vals, ok := returnConstSet(pbo, 0)
	var swCuts []*ssa.If
	if ok {
		swCuts = exhaustiveSwitchCuts(wnl, func(v ssa.Value) bool {
			ex, ok := v.(*ssa.Extract)
			if !ok || ex.Index != 0 {
				return false
			}
			c, ok := ex.Tuple.(*ssa.Call)
			return ok && c.Common().StaticCallee() == pbo
		}, vals)
	}
	cut := func(from, to *ssa.BasicBlock) bool {
		return cutBranch(true, cutT...)(from, to) || cutBranch(false, cutF...)(from, to) || cutBranch(false, swCuts...)(from, to)
	}
	hit, path := reachableFrom(p, wnl, entryPoint(wnl), func(in ssa.Instruction) bool { return staticCallTo(in, ngb) }, nil, cut)
	r.Check(hit == nil, rule, key, p.Pos(wnl.Pos()), fmt.Sprintf("with policy Never the grapheme fallback (nextGraphemeBreak) is unreachable (%d policy tests resolved, %d exhaustive result switches closed)", len(cutT)+len(cutF), len(swCuts)), path...)
}

func ruleReq(p *Prog, r *Report) {
	const rule = "R-REQ"
	wnl := p.Func("shaping", "LineWrapper", "wrapNextLine")
	nwb := p.Func("shaping", "breaker", "nextWordBreak")
	ngb := p.Func("shaping", "breaker", "nextGraphemeBreak")
	pbo := p.Func("shaping", "LineWrapper", "processBreakOption")
	fReq := p.Field("shaping", "breakOption", "required")
	fits := constInt(p, "shaping", "fits")
	isReq := func(v ssa.Value) bool { return fieldOf(v) == fReq || isLoadOfField(v, fReq) }
	nextCand := func(in ssa.Instruction) bool { return staticCallTo(in, nwb) || staticCallTo(in, ngb) }
	// the tests of the flag that decide the end of a line are the ones met after a candidate was found to fit, before the
	// next candidate is requested: a test of the flag in another case (a candidate that does not fit) is not one of them
	var fitsIfs []*ssa.If
	for _, b := range wnl.Blocks {
		iff := ifOf(b)
		if iff == nil {
			continue
		}
		bo, ok := iff.Cond.(*ssa.BinOp)
		if !ok || bo.Op != token.EQL {
			continue
		}
		ex, ok := stripConv(bo.X).(*ssa.Extract)
		if !ok || ex.Index != 0 {
			continue
		}
		pc, ok := ex.Tuple.(*ssa.Call)
		if !ok || pc.Common().StaticCallee() != pbo {
			continue
		}
		if c, ok := intConst(bo.Y); ok && c == fits {
			fitsIfs = append(fitsIfs, iff)
		}
	}
	var reqIfs []*ssa.If
	for _, q := range ifsOn(wnl, isReq) {
		for _, f := range fitsIfs {
			if hit, _ := reachableFrom(p, wnl, point{f.Block().Succs[0], 0}, func(in ssa.Instruction) bool { return in == ssa.Instruction(q) }, nextCand, nil); hit != nil {
				reqIfs = append(reqIfs, q)
				break
			}
		}
	}
	missing := false // a fitting UAX#14 candidate reaches the next request without any test of the flag: reported below
	defer func() {
		if !missing {
			r.Floor(rule, len(reqIfs), 1)
		}
	}()
	for i, iff := range reqIfs {
		key := fmt.Sprintf("%s/required#%d", p.FnName(wnl), i+1)
		r.Instance(rule, key)
		hit, path := reachableFrom(p, wnl, point{iff.Block().Succs[0], 0}, nextCand, nil, nil)
		r.Check(hit == nil, rule, key, p.IPos(iff), "after a mandatory break candidate fits, the line ends without requesting another candidate", path...)
	}
	// from the `fits` edge of a word candidate, the required test is passed before the next word candidate is requested
	nWordFits := 0
	defer func() { r.Floor(rule+"(fits edge of a UAX#14 candidate)", nWordFits, 1) }()
	for _, b := range wnl.Blocks {
		iff := ifOf(b)
		if iff == nil {
			continue
		}
		bo, ok := iff.Cond.(*ssa.BinOp)
		if !ok || bo.Op != token.EQL {
			continue
		}
		ex, ok := stripConv(bo.X).(*ssa.Extract)
		if !ok || ex.Index != 0 {
			continue
		}
		pc, ok := ex.Tuple.(*ssa.Call)
		if !ok || pc.Common().StaticCallee() != pbo {
			continue
		}
		if c, ok := intConst(bo.Y); !ok || c != fits {
			continue
		}
		// is the candidate of this processBreakOption call a word candidate (from nextWordBreak)?
		isWord := derivesFromAgg(pc.Common().Args[1], func(v ssa.Value) bool {
			e, ok := v.(*ssa.Extract)
			if !ok {
				return false
			}
			c, ok := e.Tuple.(*ssa.Call)
			return ok && c.Common().StaticCallee() == nwb
		})
		if !isWord {
			continue
		}
		key := p.FnName(wnl) + "/fits->required"
		r.Instance(rule, key)
		nWordFits++
		reqSet := map[*ssa.If]bool{}
		for _, q := range reqIfs {
			reqSet[q] = true
		}
		hit, path := reachableFrom(p, wnl, point{iff.Block().Succs[0], 0}, func(in ssa.Instruction) bool { return staticCallTo(in, nwb) },
			func(in ssa.Instruction) bool { q, ok := in.(*ssa.If); return ok && reqSet[q] }, nil)
		missing = missing || hit != nil
		r.Check(hit == nil, rule, key, p.IPos(iff), "every path from a fitting UAX#14 candidate to the next candidate request tests its `required` flag", path...)
	}
}

// ---- C08 ---------------------------------------------------------------------------------------------------------

func runC08(p *Prog, r *Report) {
	r.Explain = append(r.Explain,
		"R-OWN: the only functions of package shaping that store Output.VisualIndex are computeBidiOrdering and swapVisualOrder, and swapVisualOrder's two stores exchange the values of the same two locations (an ordering that is a permutation stays one).",
		"R-ORDER: in postProcessLine every append to the line is followed on all paths to the return by computeBidiOrdering, and every read of VisualIndex is preceded by it.")
	ruleWho(p, r, whoCfg{rule: "R-OWN", pkg: "shaping", typ: "Output", fields: []string{"VisualIndex"}, scopePkg: "shaping",
		allowed: []fnRef{{"shaping", "", "computeBidiOrdering"}, {"shaping", "", "swapVisualOrder"}},
		why:     "only the bidi ordering routines may assign visual positions", floorSeen: 2})
	ruleExchange(p, r, p.Func("shaping", "", "swapVisualOrder"), p.Field("shaping", "Output", "VisualIndex"))
	ruleOrder(p, r)
	r.Explain = append(r.Explain, "R-TRIM: the run whose end glyph is trimmed as trailing whitespace is selected by comparing VisualIndex values.")
	ruleTrim(p, r)
	r.Explain = append(r.Explain, "R-TRIM/fast: the line built by the single run shortcut of WrapParagraph (wrapBuffer.singleRunParagraph, the only line constructor outside WrapNextLine) is returned only after a call from which the trimming store is reachable, on every path that does not take the edge where WrapConfig.DisableTrailingWhitespaceTrim is set.")
	ruleTrimFast(p, r)
	r.Explain = append(r.Explain, "R-STATE (shared with C13) on shaping.LineWrapper: the paragraph direction and the trim flag that order and trim a line are fields of the reusable wrapper; every field an entry method may read before writing it is classified — a line ordered or trimmed with the configuration of the previous paragraph is a wrong visual order.")
	fx := NewFX(p)
	fx.Run()
	for _, c := range stateConfigs() {
		if c.name == "shaping.LineWrapper" {
			ruleState(p, r, fx, c)
		}
	}
	r.Assumptions = append(r.Assumptions, "Output carries only the parity of the embedding level (Direction); x/text's bidi.Run exposes no level")
	r.NotDecided = append(r.NotDecided, "that the order equals rule L2 of UAX #9 for the embedding levels (levels above 1 are not represented; the level-2 mis-ordering mentioned by the property is invisible to these rules)", "that the trimmed glyph is the visually last one")
}

// ruleExchange: f's stores to field fld are exactly two, each storing the value loaded from the other's location.
func ruleExchange(p *Prog, r *Report, f *ssa.Function, fld *types.Var) {
	const rule = "R-OWN"
	var sts []*ssa.Store
	for _, b := range f.Blocks {
		for _, in := range b.Instrs {
			if st, ok := in.(*ssa.Store); ok && fieldOf(st.Addr) == fld {
				sts = append(sts, st)
			}
		}
	}
	key := p.FnName(f) + "/exchange"
	r.Instance(rule, key)
	ok := false
	if len(sts) == 2 {
		l0, ok0 := sts[0].Val.(*ssa.UnOp)
		l1, ok1 := sts[1].Val.(*ssa.UnOp)
		if ok0 && ok1 && l0.Op == token.MUL && l1.Op == token.MUL {
			// store0: A <- load(B); store1: B <- load(A); both loads before both stores
			ok = exchAddr(l0.X, sts[1].Addr) && exchAddr(l1.X, sts[0].Addr) && !exchAddr(sts[0].Addr, sts[1].Addr) &&
				l0.Block() == sts[0].Block() && l1.Block() == sts[0].Block() && instrIndex(l0) < instrIndex(sts[0]) && instrIndex(l1) < instrIndex(sts[0])
		}
	}
	r.Check(ok, rule, key, p.Pos(f.Pos()), "the two stores write each location with the value read from the other one before either store (a transposition)")
}

func instrIndex(in ssa.Instruction) int {
	for i, x := range in.Block().Instrs {
		if x == in {
			return i
		}
	}
	return -1
}

// exchAddr: same element and field (FieldAddr of IndexAddr with the same base and index values).
func exchAddr(a, b ssa.Value) bool {
	fa, ok1 := a.(*ssa.FieldAddr)
	fb, ok2 := b.(*ssa.FieldAddr)
	if !ok1 || !ok2 || fa.Field != fb.Field {
		return false
	}
	ia, ok1 := fa.X.(*ssa.IndexAddr)
	ib, ok2 := fb.X.(*ssa.IndexAddr)
	return ok1 && ok2 && ia.X == ib.X && ia.Index == ib.Index
}

func ruleOrder(p *Prog, r *Report) {
	const rule = "R-ORDER"
	ppl := p.Func("shaping", "LineWrapper", "postProcessLine")
	cbo := p.Func("shaping", "", "computeBidiOrdering")
	fVis := p.Field("shaping", "Output", "VisualIndex")
	isCBO := func(in ssa.Instruction) bool { return staticCallTo(in, cbo) }
	n, nApp := 0, 0
	for _, b := range ppl.Blocks {
		for _, in := range b.Instrs {
			switch x := in.(type) {
			case *ssa.Call:
				if bi, ok := x.Common().Value.(*ssa.Builtin); ok && bi.Name() == "append" {
					if sl, ok := x.Type().Underlying().(*types.Slice); ok && types.Identical(sl.Elem(), p.Named("shaping", "Output")) {
						n++
						nApp++
						key := fmt.Sprintf("%s/append#%d", p.FnName(ppl), n)
						r.Instance(rule, key)
						ok, path := mustFollow(p, ppl, after(in), isCBO)
						r.Check(ok, rule, key, p.IPos(in), "the line is re-ordered after the run (truncator) is appended, on every path to the return", path...)
					}
				}
			case *ssa.UnOp:
				if x.Op == token.MUL && fieldOf(x.X) == fVis {
					n++
					key := fmt.Sprintf("%s/read VisualIndex", p.FnName(ppl))
					r.Instance(rule, key)
					ok, path := mustPrecede(p, ppl, in, isCBO, nil)
					r.Check(ok, rule, key, p.IPos(in), "VisualIndex is read only after computeBidiOrdering ran on this line", path...)
				}
			case *ssa.Field:
				if fieldOf(x) == fVis {
					n++
					key := fmt.Sprintf("%s/read VisualIndex", p.FnName(ppl))
					r.Instance(rule, key)
					ok, path := mustPrecede(p, ppl, in, isCBO, nil)
					r.Check(ok, rule, key, p.IPos(in), "VisualIndex is read only after computeBidiOrdering ran on this line", path...)
				}
			}
		}
	}
	r.Floor(rule, nApp, 1)
}

// ruleTrim: the run whose last glyph is trimmed is selected by consulting VisualIndex: the function that zeroes a glyph
// advance in the post-processing region (or the helper that computes the index of that run) compares a VisualIndex value.
func ruleTrim(p *Prog, r *Report) {
	const rule = "R-TRIM"
	ppl := p.Func("shaping", "LineWrapper", "postProcessLine")
	fVis := p.Field("shaping", "Output", "VisualIndex")
	G := p.Named("shaping", "Glyph")
	key := p.FnName(ppl) + "/trimmed-run"
	r.Instance(rule, key)
	readsVis := func(f *ssa.Function) bool {
		for fn := range reachableFns(p, []*ssa.Function{f}) {
			if fn == p.Func("shaping", "", "computeBidiOrdering") || fn == p.Func("shaping", "", "swapVisualOrder") {
				continue
			}
			for _, b := range fn.Blocks {
				for _, in := range b.Instrs {
					if bo, ok := in.(*ssa.BinOp); ok && (bo.Op == token.EQL || bo.Op == token.NEQ) {
						if derivesFrom(bo.X, func(v ssa.Value) bool { return fieldOf(v) == fVis || isLoadOfField(v, fVis) }, 0) ||
							derivesFrom(bo.Y, func(v ssa.Value) bool { return fieldOf(v) == fVis || isLoadOfField(v, fVis) }, 0) {
							return true
						}
					}
				}
			}
		}
		return false
	}
	// is there a trimming store at all (zero stored into an advance of a shared glyph)?
	trims := false
	for fn := range reachableFns(p, []*ssa.Function{ppl}) {
		for _, st := range storesToTypeX(fn, G, nil, false) {
			if c, ok := st.Val.(*ssa.Const); ok && isZeroConst(c) {
				trims = true
			}
		}
	}
	if !trims {
		r.OK(rule, key, p.Pos(ppl.Pos()), "post-processing no longer trims a glyph")
		return
	}
	r.Check(readsVis(ppl), rule, key, p.Pos(ppl.Pos()), "the run whose end glyph is trimmed is selected by comparing VisualIndex values (the visually last run), not by walking logical order or directions")
}

// ruleTrimStart — R-TRIM/start: the first run of a line has its leading letter spacing trimmed. WrapNextLine does it where
// a run enters an empty candidate; the shortcut of WrapParagraph builds its line with wrapBuffer.singleRunParagraph: every
// call of that constructor is preceded, on every path, by (*Output).trimStartLetterSpacing (directly or through a callee),
// so that the same paragraph measures the same whichever path builds its line.
func ruleTrimStart(p *Prog, r *Report) {
	const rule = "R-TRIM/start"
	ctor := p.Func("shaping", "wrapBuffer", "singleRunParagraph")
	trim := p.Func("shaping", "Output", "trimStartLetterSpacing")
	reach := map[*ssa.Function]bool{}
	for _, f := range p.ModFns() {
		if fnPkg(f) != nil && fnPkg(f).Path() == p.pkgPath("shaping") && f != ctor && reachableFns(p, []*ssa.Function{f})[trim] {
			reach[f] = true
		}
	}
	n := 0
	for _, f := range p.ModFns() {
		if fnPkg(f) == nil || fnPkg(f).Path() != p.pkgPath("shaping") {
			continue
		}
		for _, c := range callsOf(f, ctor) {
			n++
			key := p.FnName(f) + "/singleRunParagraph"
			r.Instance(rule, key)
			ok, path := mustPrecede(p, f, c, func(in ssa.Instruction) bool {
				ci, isCall := in.(ssa.CallInstruction)
				if !isCall {
					return false
				}
				sc := ci.Common().StaticCallee()
				return sc != nil && (sc == trim || reach[sc])
			}, nil)
			r.Check(ok, rule, key, p.IPos(c), "the run of a line built by the shortcut has its leading letter spacing trimmed on every path, as the first run of the lines built by WrapNextLine", path...)
		}
	}
	r.Floor(rule, n, 1)
}

// ruleTrimFast — R-TRIM/fast: a line built outside WrapNextLine (wrapBuffer.singleRunParagraph, the shortcut of
// WrapParagraph) is returned only after a call that reaches the trimming store, unless the path took the edge on which
// WrapConfig.DisableTrailingWhitespaceTrim is set.
func ruleTrimFast(p *Prog, r *Report) {
	const rule = "R-TRIM/fast"
	G := p.Named("shaping", "Glyph")
	fDis := p.Field("shaping", "WrapConfig", "DisableTrailingWhitespaceTrim")
	ctor := p.Func("shaping", "wrapBuffer", "singleRunParagraph")
	// the functions from which a zero store into an advance of a glyph is reachable
	trims := map[*ssa.Function]bool{}
	for _, f := range p.ModFns() {
		if fnPkg(f) == nil || fnPkg(f).Path() != p.pkgPath("shaping") || f == ctor {
			continue
		}
		for fn := range reachableFns(p, []*ssa.Function{f}) {
			found := false
			for _, st := range storesToTypeX(fn, G, nil, false) {
				if c, ok := st.Val.(*ssa.Const); ok && isZeroConst(c) {
					found = true
				}
			}
			if found {
				trims[f] = true
				break
			}
		}
	}
	n := 0
	for _, f := range p.ModFns() {
		if fnPkg(f) == nil || fnPkg(f).Path() != p.pkgPath("shaping") {
			continue
		}
		for _, c := range callsOf(f, ctor) {
			n++
			key := p.FnName(f) + "/singleRunParagraph"
			r.Instance(rule, key)
			isTrim := func(in ssa.Instruction) bool {
				call, ok := in.(ssa.CallInstruction)
				if !ok {
					return false
				}
				sc := call.Common().StaticCallee()
				if sc == nil || !trims[sc] {
					return false
				}
				// the trim is applied to the line this constructor call built (a call that merely precedes or
				// follows, on another value, does not count)
				for _, a := range call.Common().Args {
					if partOf(a, c) {
						return true
					}
				}
				return false
			}
			cut := func(from, to *ssa.BasicBlock) bool {
				iff := ifOf(from)
				if iff == nil || to != from.Succs[0] {
					return false
				}
				return derivesFrom(iff.Cond, func(v ssa.Value) bool { return fieldOf(v) == fDis || isLoadOfField(v, fDis) }, 0)
			}
			ok := true
			var where ssa.Instruction = c
			var path []string
			for _, b := range f.Blocks {
				ret, isRet := b.Instrs[len(b.Instrs)-1].(*ssa.Return)
				if !isRet || len(ret.Results) == 0 {
					continue
				}
				if !derivesFromAgg(ret.Results[0], func(v ssa.Value) bool { return v == ssa.Value(c) }) {
					continue
				}
				where = ret
				if good, pth := mustPrecede(p, f, ret, isTrim, cut); !good {
					ok, path = false, pth
				}
			}
			r.Check(ok, rule, key, p.IPos(where), "the line built by the single run shortcut is returned only after the trailing whitespace trim (or with the trim disabled)", path...)
		}
	}
	r.Floor(rule, n, 1)
}

// instrBlockAfter: b is not before a in the same block (b in another block, or later in a's block).
// partOf: v is root, a slice of it, or an element / field loaded from it (lines, lines[0], lines[i].f).
func partOf(v ssa.Value, root ssa.Value) bool {
	for i := 0; i < 8; i++ {
		if v == root {
			return true
		}
		switch x := v.(type) {
		case *ssa.UnOp:
			if x.Op != token.MUL {
				return false
			}
			v = x.X
		case *ssa.IndexAddr:
			v = x.X
		case *ssa.FieldAddr:
			v = x.X
		case *ssa.Slice:
			v = x.X
		case *ssa.Index:
			v = x.X
		case *ssa.Field:
			v = x.X
		default:
			return false
		}
	}
	return false
}

func instrBlockAfter(a, b ssa.Instruction) bool {
	if a.Block() != b.Block() {
		return true
	}
	return instrIndex(b) > instrIndex(a)
}

// ---- C12 ---------------------------------------------------------------------------------------------------------

func runC12(p *Prog, r *Report) {
	ruleAdv(p, r)
	r.Explain = append(r.Explain, "R-SIDE: in HarfbuzzShaper.Shape, when the input is sideways the direction given to HarfBuzz is the axis-switched one (SwitchAxis precedes the store of Props.Direction on the sideways edge), and with isSideways set the call of Output.sideways precedes the read of the font extents for out.Direction.")
	ruleSide(p, r)
	r.Explain = append(r.Explain, "R-STATE (shared with C13): every field of the reusable shaper, its buffer and its cached harfbuzz.Font that Shape may read before writing is classified — a metric memoised on the cached font at one size would put advances and line bounds of a later call at different scales.")
	fx := NewFX(p)
	fx.Run()
	for _, c := range stateConfigs() {
		if c.name == "shaping.HarfbuzzShaper" {
			ruleState(p, r, fx, c)
		}
	}
	r.Assumptions = append(r.Assumptions, "fixed-point arithmetic of advances, bounds and spacing amounts is NOT decided")
	r.NotDecided = append(r.NotDecided, "bounds enclose ink boxes", "rotation equality for sideways runs", "exact spacing amounts at exactly the eligible positions")
}

func ruleSide(p *Prog, r *Report) {
	const rule = "R-SIDE"
	shape := p.Func("shaping", "HarfbuzzShaper", "Shape")
	isSide := p.Func("di", "Direction", "IsSideways")
	swAxis := p.Func("di", "Direction", "SwitchAxis")
	sideways := p.Func("shaping", "Output", "sideways")
	ext := p.Func("harfbuzz", "Font", "ExtentsForDirection")
	fDir := p.Field("harfbuzz", "SegmentProperties", "Direction")
	// (1) on the true edge of IsSideways(): store Props.Direction preceded by SwitchAxis
	key := p.FnName(shape) + "/direction"
	r.Instance(rule, key)
	okAll, found := true, false
	for _, c := range callsOf(shape, isSide) {
		for _, iff := range ifsOn(shape, func(v ssa.Value) bool { return v == ssa.Value(c) }) {
			found = true
			hit, _ := reachableFrom(p, shape, point{iff.Block().Succs[0], 0},
				func(in ssa.Instruction) bool { return storesField(in, fDir) },
				func(in ssa.Instruction) bool { return staticCallTo(in, swAxis) }, cutBranch(true))
			if hit != nil {
				okAll = false
			}
		}
	}
	r.Check(found && okAll, rule, key, p.Pos(shape.Pos()), "for a sideways input the buffer direction is assigned only after SwitchAxis")
	// (2) the flag set on that edge: under flag==true, sideways() precedes ExtentsForDirection
	key = p.FnName(shape) + "/extents"
	r.Instance(rule, key)
	var flagIfs []*ssa.If
	for _, b := range shape.Blocks {
		iff := ifOf(b)
		if iff == nil {
			continue
		}
		if ph, ok := iff.Cond.(*ssa.Phi); ok {
			// a phi of boolean constants with one true edge: the isSideways flag
			hasT, allC := false, true
			for _, e := range ph.Edges {
				c, ok := e.(*ssa.Const)
				if !ok || c.Value == nil || c.Value.Kind() != constant.Bool {
					allC = false
				} else if constant.BoolVal(c.Value) {
					hasT = true
				}
			}
			if allC && hasT {
				flagIfs = append(flagIfs, iff)
			}
		}
	}
	ok2 := len(flagIfs) > 0
	for _, ec := range callsOf(shape, ext) {
		ok, _ := mustPrecede(p, shape, ec, func(in ssa.Instruction) bool { return staticCallTo(in, sideways) }, cutBranch(false, flagIfs...))
		if !ok {
			ok2 = false
		}
	}
	r.Check(ok2, rule, key, p.Pos(shape.Pos()), "with the sideways flag set, Output.sideways (which switches out.Direction to vertical) precedes the font-extents read")
}

func controlsWrap(cp *Prog, r *Report) {
	controlsState(cp, r)
	expectControl(r, "R-WHO(region)", func(cr *Report) {
		ruleWho(cp, cr, whoCfg{rule: "R-GLYPHS", pkg: "own", typ: "Glyph", entries: []fnRef{{"own", "", "WrapGood"}}, why: "x", floorSeen: 1})
		ruleWho(cp, cr, whoCfg{rule: "R-GLYPHS", pkg: "own", typ: "Glyph", entries: []fnRef{{"own", "", "WrapBad"}}, why: "x", floorSeen: 1})
	}, "own.trimBad")
	expectControl(r, "R-WHO(allowed)", func(cr *Report) {
		ruleWho(cp, cr, whoCfg{rule: "R-OWN", pkg: "own", typ: "Run", fields: []string{"Visual"}, scopePkg: "own", allowed: []fnRef{{"own", "", "order"}, {"own", "", "swapGood"}}, why: "x", floorSeen: 2})
		ruleExchange(cp, cr, cp.Func("own", "", "swapGood"), cp.Field("own", "Run", "Visual"))
		ruleExchange(cp, cr, cp.Func("own", "", "swapBad"), cp.Field("own", "Run", "Visual"))
	}, "own.swapBad", "own.swapBad/exchange", "own.sneakBad")
	expectControl(r, "R-ADV", func(cr *Report) {
		G := cp.Named("own", "Glyph")
		adv := cp.Field("own", "Glyph", "Adv")
		rec := cp.Func("own", "Run", "Recompute")
		ruleAccompany(cp, cr, "R-ADV", func(in ssa.Instruction) bool {
			st, ok := in.(*ssa.Store)
			if !ok {
				return false
			}
			fa, ok := st.Addr.(*ssa.FieldAddr)
			if !ok {
				return false
			}
			if al, isAl := fa.X.(*ssa.Alloc); isAl && !al.Heap {
				return false
			}
			return types.Identical(deref(fa.X.Type()), G) && fieldOf(fa) == adv
		}, func(in ssa.Instruction) bool { return staticCallTo(in, rec) }, "own", "Recompute", 3)
	}, "(*own.Run).SpaceBad", "own.CutBad", "own.WrapBad")
}

// wrapperState: the LineWrapper is a reusable object; the wrapping properties quantify over any paragraph handed to a
// wrapper that may have been used before, so reset completeness of its state (R-STATE, shared with C13) is a necessary
// condition: a rune->glyph mapping or a candidate that survives from an earlier paragraph breaks cluster integrity.
func wrapperState(p *Prog, r *Report) {
	r.Explain = append(r.Explain, "R-STATE (shared with C13): every field of the LineWrapper's state that WrapParagraph/Prepare may read before writing, or WrapNextLine may read without Prepare having written it, is classified with a reason — a mapping, candidate or break position surviving from an earlier paragraph would put glyphs of the wrong clusters on a line.")
	fx := NewFX(p)
	fx.Run()
	for _, c := range stateConfigs() {
		if c.name == "shaping.LineWrapper" {
			ruleState(p, r, fx, c)
		}
	}
}
