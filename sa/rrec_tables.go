package main

// rrec_tables.go — R-REC justification (4): recursion that follows a finite map whose well-foundedness is
// itself checked (P-LIT / constant evaluation of switch-coded maps).

import (
	"fmt"
	"go/ast"
	"go/constant"
	"go/token"
	"go/types"

	"golang.org/x/tools/go/ssa"
)

func (p *Prog) infoFor(fn *ssa.Function) *types.Info {
	pk := fnPkg(fn)
	if pk == nil {
		return nil
	}
	if pp := p.ByPath[pk.Path()]; pp != nil {
		return pp.TypesInfo
	}
	return nil
}

type interval struct{ lo, hi int64 }

// switchMap evaluates a function of the shape
//
//	func m(r rune) rune { switch { case lo <= r && r <= hi: return [...]rune{..}[r-lo]; case K == r: return C }; return 0 }
//
// into its domain intervals and its image. ok=false if the function has another shape.
func switchMap(p *Prog, fn *ssa.Function) (dom []interval, image []int64, ok bool) {
	fd := p.FuncDecl(fn)
	info := p.infoFor(fn)
	if fd == nil || info == nil || fd.Body == nil || fd.Type.Params.NumFields() != 1 || len(fd.Type.Params.List[0].Names) != 1 {
		return nil, nil, false
	}
	param := info.Defs[fd.Type.Params.List[0].Names[0]]
	isParam := func(e ast.Expr) bool {
		id, ok := ast.Unparen(e).(*ast.Ident)
		return ok && info.Uses[id] == param
	}
	cval := func(e ast.Expr) (int64, bool) {
		tv, ok := info.Types[e]
		if !ok || tv.Value == nil {
			return 0, false
		}
		return constant.Int64Val(constant.ToInt(tv.Value))
	}
	var cond func(e ast.Expr) (interval, bool)
	cond = func(e ast.Expr) (interval, bool) {
		be, ok := ast.Unparen(e).(*ast.BinaryExpr)
		if !ok {
			return interval{}, false
		}
		const inf = int64(1) << 40
		if be.Op == token.LAND {
			a, ok1 := cond(be.X)
			b, ok2 := cond(be.Y)
			if !ok1 || !ok2 {
				return interval{}, false
			}
			if b.lo > a.lo {
				a.lo = b.lo
			}
			if b.hi < a.hi {
				a.hi = b.hi
			}
			return a, true
		}
		op := be.Op
		var c int64
		var okc bool
		if isParam(be.X) {
			c, okc = cval(be.Y)
		} else if isParam(be.Y) {
			c, okc = cval(be.X)
			switch op { // flip
			case token.LSS:
				op = token.GTR
			case token.LEQ:
				op = token.GEQ
			case token.GTR:
				op = token.LSS
			case token.GEQ:
				op = token.LEQ
			}
		}
		if !okc {
			return interval{}, false
		}
		switch op {
		case token.EQL:
			return interval{c, c}, true
		case token.LEQ:
			return interval{-inf, c}, true
		case token.LSS:
			return interval{-inf, c - 1}, true
		case token.GEQ:
			return interval{c, inf}, true
		case token.GTR:
			return interval{c + 1, inf}, true
		}
		return interval{}, false
	}
	var img func(e ast.Expr) bool
	img = func(e ast.Expr) bool {
		e = ast.Unparen(e)
		if c, ok := cval(e); ok {
			image = append(image, c)
			return true
		}
		if ix, ok := e.(*ast.IndexExpr); ok {
			if cl, ok := ast.Unparen(ix.X).(*ast.CompositeLit); ok {
				for _, el := range cl.Elts {
					if kv, ok := el.(*ast.KeyValueExpr); ok {
						el = kv.Value
					}
					c, ok := cval(el)
					if !ok {
						return false
					}
					image = append(image, c)
				}
				return true
			}
		}
		return false
	}
	retOK := func(s ast.Stmt) bool {
		rs, ok := s.(*ast.ReturnStmt)
		return ok && len(rs.Results) == 1 && img(rs.Results[0])
	}
	for _, st := range fd.Body.List {
		switch s := st.(type) {
		case *ast.SwitchStmt:
			if s.Tag != nil || s.Init != nil {
				return nil, nil, false
			}
			for _, cc := range s.Body.List {
				cl := cc.(*ast.CaseClause)
				for _, e := range cl.List {
					iv, ok := cond(e)
					if !ok {
						return nil, nil, false
					}
					dom = append(dom, iv)
				}
				if len(cl.Body) != 1 || !retOK(cl.Body[0]) {
					return nil, nil, false
				}
			}
		case *ast.ReturnStmt:
			if !retOK(s) {
				return nil, nil, false
			}
		default:
			return nil, nil, false
		}
	}
	return dom, image, len(dom) > 0
}

// justMapImageOutsideDomain: `f(x) { ...; if m := M(x); m != 0 { return f(m) } }` terminates when no non-zero
// value of M lies in M's own domain (M(M(x)) == 0): the nested activation cannot recurse again.
func justMapImageOutsideDomain(p *Prog, s *scc) (string, bool) {
	if len(s.fns) != 1 {
		return "", false
	}
	fn := s.fns[0]
	sites := internalSites(s, fn)
	if len(sites) != 1 || inLoop(sites[0]) {
		return "", false
	}
	site := sites[0]
	for _, a := range site.Common().Args {
		call, ok := stripConv(a).(*ssa.Call)
		if !ok {
			continue
		}
		m := call.Common().StaticCallee()
		if m == nil || len(call.Common().Args) != 1 {
			continue
		}
		// the map is applied to this activation's own parameter
		isPrm := false
		for _, prm := range fn.Params {
			if stripConv(call.Common().Args[0]) == ssa.Value(prm) {
				isPrm = true
			}
		}
		if !isPrm {
			continue
		}
		// recursion only when the mapped value is non-zero
		iff := ifOf(call.Block())
		guarded := false
		for _, b := range fn.Blocks {
			if i := ifOf(b); i != nil {
				if bo, ok := i.Cond.(*ssa.BinOp); ok && (bo.Op == token.NEQ || bo.Op == token.EQL) {
					c, okc := intConst(bo.Y)
					if stripConv(bo.X) == ssa.Value(call) && okc && c == 0 {
						if guardedBy(p, fn, site, guard{i, bo.Op == token.EQL}) {
							guarded = true
						}
					}
				}
			}
		}
		_ = iff
		if !guarded {
			continue
		}
		dom, image, ok := switchMap(p, m)
		if !ok {
			continue
		}
		for _, v := range image {
			if v == 0 {
				continue
			}
			for _, iv := range dom {
				if v >= iv.lo && v <= iv.hi {
					return "", false
				}
			}
		}
		return fmt.Sprintf("well-founded map: recursion on %s(x) only when non-zero, and none of its %d image values lies in its own domain (%d case ranges), so the nested activation cannot recurse", p.FnName(m), len(image), len(dom)), true
	}
	return "", false
}

// ---- decomposition ------------------------------------------------------------------------------------------

// decompositionKeys evaluates the canonical decomposition maps (P-LIT) and reports whether the "first part" graph
// is acyclic.
func decompositionKeys(p *Prog) (keys map[int64]bool, acyclic bool, depth int) {
	le := newLitEval(p)
	d1, _, _ := runeMap(p, le, "unicodedata", "decompose1")
	lv2 := le.Var(p.Obj("unicodedata", "decompose2").(*types.Var))
	next := map[int64]int64{}
	keys = map[int64]bool{}
	for k, v := range d1 {
		next[k] = v
		keys[k] = true
	}
	for i, k := range lv2.Keys {
		kk, ok := k.Int()
		pr, ok2 := pair(lv2.Elems[i])
		if !ok || !ok2 {
			undecided("P-LIT: decompose2 has a non-constant entry")
		}
		next[kk] = pr[0]
		keys[kk] = true
	}
	acyclic = true
	for k := range next {
		d := 0
		for x, ok := next[k], true; ok; x, ok = next[x] {
			d++
			if d > len(next)+1 {
				acyclic = false
				break
			}
		}
		if d > depth {
			depth = d
		}
	}
	return
}

// decompFn classifies a function as a "decomposition function": every Return either returns constants, or
// forwards the result of another decomposition function applied to its own rune parameter; base: unicodedata.Decompose.
// It collects the constants returned as first part with ok=true, and the constants the rune parameter is compared with.
type decompInfo struct {
	firstParts []int64
	special    []int64
}

func classifyDecomp(p *Prog, fn *ssa.Function, base *ssa.Function, info *decompInfo, seen map[*ssa.Function]bool) bool {
	if fn == base {
		return true
	}
	if seen[fn] {
		return true
	}
	seen[fn] = true
	if fn.Blocks == nil {
		return false
	}
	// rune parameter: the last parameter of type rune (int32)
	var rp *ssa.Parameter
	for _, prm := range fn.Params {
		if bt, ok := prm.Type().Underlying().(*types.Basic); ok && bt.Kind() == types.Int32 {
			rp = prm
		}
	}
	if rp == nil {
		return false
	}
	for _, b := range fn.Blocks {
		for _, in := range b.Instrs {
			switch x := in.(type) {
			case *ssa.BinOp:
				if stripConv(x.X) == ssa.Value(rp) {
					if c, ok := intConst(x.Y); ok {
						info.special = append(info.special, c)
					}
				}
			case *ssa.Return:
				if len(x.Results) != 3 {
					return false
				}
				if a, ok := intConst(x.Results[0]); ok {
					if _, ok2 := intConst(x.Results[1]); !ok2 {
						return false
					}
					okc, isc := x.Results[2].(*ssa.Const)
					if !isc {
						return false
					}
					if constant.BoolVal(okc.Value) {
						info.firstParts = append(info.firstParts, a)
					}
					continue
				}
				// forwarded tuple
				var call *ssa.Call
				for i, rv := range x.Results {
					ex, ok := rv.(*ssa.Extract)
					if !ok || ex.Index != i {
						return false
					}
					c, ok := ex.Tuple.(*ssa.Call)
					if !ok || (call != nil && c != call) {
						return false
					}
					call = c
				}
				args := call.Common().Args
				if len(args) == 0 || stripConv(args[len(args)-1]) != ssa.Value(rp) {
					return false
				}
				for _, cal := range p.Callees(call) {
					if !classifyDecomp(p, cal, base, info, seen) {
						return false
					}
				}
			}
		}
	}
	return true
}

// justDecomposition: self recursion whose rune argument is the first result of a decomposition function.
func justDecomposition(p *Prog, s *scc) (string, bool) {
	if len(s.fns) != 1 {
		return "", false
	}
	fn := s.fns[0]
	sites := internalSites(s, fn)
	if len(sites) != 1 || inLoop(sites[0]) {
		return "", false
	}
	base := p.TryFunc("unicodedata", "", "Decompose")
	if base == nil {
		return "", false
	}
	for _, a := range sites[0].Common().Args {
		ex, ok := stripConv(a).(*ssa.Extract)
		if !ok || ex.Index != 0 {
			continue
		}
		call, ok := ex.Tuple.(*ssa.Call)
		if !ok {
			continue
		}
		callees := p.Callees(call)
		if len(callees) == 0 {
			continue
		}
		info := &decompInfo{}
		seen := map[*ssa.Function]bool{}
		all := true
		for _, c := range callees {
			if !classifyDecomp(p, c, base, info, seen) {
				all = false
			}
		}
		if !all {
			continue
		}
		keys, acyclic, depth := decompositionKeys(p)
		if !acyclic {
			return "", false
		}
		sbase, scount := constInt(p, "unicodedata", "HangulSBase"), constInt(p, "unicodedata", "HangulSCount")
		special := map[int64]bool{}
		for _, k := range info.special {
			special[k] = true
		}
		for _, a := range info.firstParts {
			if a == 0 {
				continue
			}
			if keys[a] || special[a] || (a >= sbase && a < sbase+scount) {
				return "", false
			}
		}
		return fmt.Sprintf("well-founded table: recursion follows the first part returned by %d decomposition function(s); the canonical decomposition graph is acyclic (depth %d, P-LIT) and none of the %d shaper-specific first parts is itself decomposable", len(seen)+0, depth, len(info.firstParts)), true
	}
	return "", false
}

var _ = ast.Inspect
