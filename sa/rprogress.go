package main

// rprogress.go — R-PROGRESS: a parse loop that advances by the length returned by a nested reader, and whose trip count is
// a 32-bit value of the file, makes progress: on every successful return the nested reader reports at least one byte.
// Otherwise a zero length re-reads the same record for the whole count (2^32 iterations, each appending a copy).
// The lower bound of the returned length is derived with P-LIN at each success return (facts of the dominating tests,
// loop invariants, and the same lower bound of nested readers on their own success branch), to a fixpoint.

import (
	"fmt"
	"go/token"
	"go/types"

	"golang.org/x/tools/go/ssa"
)

func errIndex(f *ssa.Function) int {
	res := f.Signature.Results()
	for i := 0; i < res.Len(); i++ {
		if types.Identical(res.At(i).Type(), types.Universe.Lookup("error").Type()) {
			return i
		}
	}
	return -1
}

// successBlock: the block entered when the error result of the call is nil (the false branch of `err != nil`).
func successBlock(call *ssa.Call, ei int) *ssa.BasicBlock {
	refs := call.Referrers()
	if refs == nil {
		return nil
	}
	for _, r := range *refs {
		ex, ok := r.(*ssa.Extract)
		if !ok || ex.Index != ei || ex.Referrers() == nil {
			continue
		}
		for _, u := range *ex.Referrers() {
			bo, ok := u.(*ssa.BinOp)
			if !ok || bo.Op != token.NEQ && bo.Op != token.EQL || bo.Referrers() == nil {
				continue
			}
			for _, uu := range *bo.Referrers() {
				ifi, ok := uu.(*ssa.If)
				if !ok {
					continue
				}
				s := ifi.Block().Succs[1]
				if bo.Op == token.EQL {
					s = ifi.Block().Succs[0]
				}
				if len(s.Preds) == 1 && len(s.Instrs) > 0 {
					return s
				}
			}
		}
	}
	return nil
}

// testedNonNil: the block is only entered through the non-nil branch of a nil test of the value (an error being returned).
func testedNonNil(v ssa.Value, b *ssa.BasicBlock) bool {
	for _, c := range b.Parent().Blocks {
		ifi := ifOf(c)
		if ifi == nil {
			continue
		}
		bo, ok := ifi.Cond.(*ssa.BinOp)
		if !ok || bo.Op != token.NEQ && bo.Op != token.EQL {
			continue
		}
		k, isK := bo.Y.(*ssa.Const)
		if !isK || k.Value != nil || bo.X != v {
			continue
		}
		s := c.Succs[0]
		if bo.Op == token.EQL {
			s = c.Succs[1]
		}
		if len(s.Preds) == 1 && s.Dominates(b) {
			return true
		}
	}
	return false
}

type progressProver struct {
	px     *linProver
	minOne map[*ssa.Function]map[int]bool
}

func (pp *progressProver) ctx(f *ssa.Function) *linFn {
	lf := pp.px.ctx(f)
	lf.extra, lf.extraAt = nil, nil
	lf.addCallFacts()
	lf.addLoopInvariants()
	// lower bounds of nested readers, on their success branch
	for _, b := range f.Blocks {
		for _, in := range b.Instrs {
			call, ok := in.(*ssa.Call)
			if !ok {
				continue
			}
			sc := call.Common().StaticCallee()
			if sc == nil || pp.minOne[sc] == nil {
				continue
			}
			ei := errIndex(sc)
			if ei < 0 {
				continue
			}
			sb := successBlock(call, ei)
			if sb == nil || call.Referrers() == nil {
				continue
			}
			for _, r := range *call.Referrers() {
				if ex, ok := r.(*ssa.Extract); ok && pp.minOne[sc][ex.Index] {
					lf.extra = append(lf.extra, linAtom(atom{ex, false}).add(linConst(-1)))
					lf.extraAt = append(lf.extraAt, sb.Instrs[0])
				}
			}
		}
	}
	return lf
}

func (pp *progressProver) derive(fns []*ssa.Function) {
	for round := 0; round < 5; round++ {
		changed := false
		for _, f := range fns {
			ei := errIndex(f)
			if ei < 0 {
				continue
			}
			res := f.Signature.Results()
			for ri := 0; ri < res.Len(); ri++ {
				bt, ok := res.At(ri).Type().Underlying().(*types.Basic)
				if !ok || bt.Kind() != types.Int || pp.minOne[f][ri] {
					continue
				}
				lf := pp.ctx(f)
				okAll, n := true, 0
				for _, b := range f.Blocks {
					for _, in := range b.Instrs {
						ret, ok := in.(*ssa.Return)
						if !ok || len(ret.Results) <= ei || definitelyError(ret.Results[ei], 0) || testedNonNil(ret.Results[ei], b) {
							continue
						}
						n++
						if !lf.proveAt(lf.form(ret.Results[ri], 0).add(linConst(-1)), in, 0) {
							okAll = false
						}
					}
				}
				if okAll && n > 0 {
					if pp.minOne[f] == nil {
						pp.minOne[f] = map[int]bool{}
					}
					pp.minOne[f][ri] = true
					changed = true
				}
			}
		}
		if !changed {
			break
		}
	}
}

// wideCount: the value derives (through conversions and arithmetic) from a 32- or 64-bit read of the file, or is not a
// count at all (nil: the loop runs while data remains).
func wideCount(v ssa.Value, d int, seen map[ssa.Value]bool) bool {
	if d > 8 || seen[v] {
		return false
	}
	seen[v] = true
	switch x := v.(type) {
	case *ssa.Convert:
		return wideCount(x.X, d+1, seen)
	case *ssa.ChangeType:
		return wideCount(x.X, d+1, seen)
	case *ssa.BinOp:
		return wideCount(x.X, d+1, seen) || wideCount(x.Y, d+1, seen)
	case *ssa.Phi:
		for _, e := range x.Edges {
			if wideCount(e, d+1, seen) {
				return true
			}
		}
	case *ssa.Call:
		if sc := x.Common().StaticCallee(); sc != nil && fnPkg(sc) != nil && fnPkg(sc).Path() == "encoding/binary" {
			return sc.Name() == "Uint32" || sc.Name() == "Uint64"
		}
	case *ssa.UnOp:
		if x.Op == token.MUL {
			if f := fieldOf(x.X); f != nil {
				bits, _, ok := intKind(f.Type())
				return ok && bits >= 32
			}
		}
	case *ssa.Field:
		if f := fieldOf(x); f != nil {
			bits, _, ok := intKind(f.Type())
			return ok && bits >= 32
		}
	}
	return false
}

func ruleProgress(p *Prog, r *Report, pkgs []string, floor int) {
	const rule = "R-PROGRESS"
	inPkg := map[string]bool{}
	for _, k := range pkgs {
		inPkg[p.pkgPath(k)] = true
	}
	var fns []*ssa.Function
	for _, f := range p.ModFns() {
		if fnPkg(f) != nil && inPkg[fnPkg(f).Path()] {
			fns = append(fns, f)
		}
	}
	px := newLinProver(p)
	px.derivePre(fns)
	px.derivePost(fns)
	pp := &progressProver{px: px, minOne: map[*ssa.Function]map[int]bool{}}
	pp.derive(fns)
	n, nLoops := 0, 0
	for _, f := range fns {
		for _, l := range naturalLoops(f) {
			for _, in := range l.header.Instrs {
				ph, ok := in.(*ssa.Phi)
				if !ok {
					break
				}
				for i, e := range ph.Edges {
					if !l.blocks[l.header.Preds[i]] {
						continue
					}
					bo, ok := e.(*ssa.BinOp)
					if !ok || bo.Op != token.ADD || bo.X != ssa.Value(ph) {
						continue
					}
					ex, ok := bo.Y.(*ssa.Extract)
					if !ok {
						continue
					}
					call, ok := ex.Tuple.(*ssa.Call)
					if !ok || !l.blocks[call.Block()] {
						continue
					}
					sc := call.Common().StaticCallee()
					if sc == nil || !p.inModule(fnPkg(sc)) {
						continue
					}
					nLoops++
					// the trip count: the bound of the exit comparison of the loop
					wide := false
					for b := range l.blocks {
						iff := ifOf(b)
						if iff == nil || l.blocks[b.Succs[0]] && l.blocks[b.Succs[1]] {
							continue
						}
						if cmp, ok := iff.Cond.(*ssa.BinOp); ok {
							if wideCount(cmp.X, 0, map[ssa.Value]bool{}) || wideCount(cmp.Y, 0, map[ssa.Value]bool{}) {
								wide = true
							}
						}
					}
					if !wide {
						continue
					}
					n++
					key := fmt.Sprintf("%s/advance by the length of %s", p.FnName(f), sc.Name())
					r.Instance(rule, key)
					lf := pp.ctx(f)
					ok = pp.minOne[sc][ex.Index] || lf.proveAt(lf.form(ex, 0).add(linConst(-1)), bo, 0)
					r.Check(ok, rule, key, p.IPos(bo), fmt.Sprintf("the loop runs for a 32-bit count of the file and advances by the length %s returns: on every successful return that length is at least 1 (derived from the tests dominating the return), so a record cannot be re-read for the whole count", p.FnName(sc)))
				}
			}
		}
	}
	r.Count("offset_advancing_loops", nLoops)
	r.Floor(rule, n, floor)
}

// ruleOpBudget — R-OPBUDGET: an interpreter loop whose next instructions are chosen by the program it runs (subroutine
// calls re-assign the instruction stream) bounds the number of operators it executes: on every path from the loop head to
// the dispatch of an operator (the invoke of handler.<apply>) the loop counter is incremented and compared with a constant,
// the exceeding branch returns an error, and the incremented value is what every back edge that follows a dispatch
// carries to the next iteration. (Nesting of subroutines is bounded by the call stack; the number of calls is not.)
func ruleOpBudget(p *Prog, r *Report, pkg, recv, fn, apply string) {
	const rule = "R-OPBUDGET"
	f := p.Func(pkg, recv, fn)
	key := p.FnName(f) + "/" + apply
	r.Instance(rule, key)
	var disp *ssa.Call
	for _, b := range f.Blocks {
		for _, in := range b.Instrs {
			if c, ok := in.(*ssa.Call); ok && c.Call.IsInvoke() && c.Call.Method.Name() == apply {
				disp = c
			}
		}
	}
	if disp == nil {
		undecided("R-OPBUDGET: %s no longer dispatches through an invoke of %s", p.FnName(f), apply)
	}
	var loop *natLoop
	for _, l := range naturalLoops(f) {
		if l.blocks[disp.Block()] && (loop == nil || len(l.blocks) < len(loop.blocks)) {
			loop = l
		}
	}
	if loop == nil {
		undecided("R-OPBUDGET: the dispatch of %s is not in a loop", p.FnName(f))
	}
	ok, why := false, "no counter of the loop is incremented, compared with a constant and failing before the dispatch"
	for _, in := range loop.header.Instrs {
		ph, isPhi := in.(*ssa.Phi)
		if !isPhi {
			break
		}
		if bt, isB := ph.Type().Underlying().(*types.Basic); !isB || bt.Info()&types.IsInteger == 0 {
			continue
		}
		// the increments of the counter
		for _, u := range *ph.Referrers() {
			inc, isInc := u.(*ssa.BinOp)
			if !isInc || inc.Op != token.ADD || inc.X != ssa.Value(ph) {
				continue
			}
			if k, isK := intConst(inc.Y); !isK || k <= 0 {
				continue
			}
			// a comparison of the incremented value with a constant whose exceeding branch fails, dominating the dispatch
			guarded := false
			for _, cu := range *inc.Referrers() {
				cmp, isCmp := cu.(*ssa.BinOp)
				if !isCmp || cmp.X != ssa.Value(inc) || (cmp.Op != token.GTR && cmp.Op != token.GEQ) {
					continue
				}
				if _, isK := intConst(cmp.Y); !isK {
					continue
				}
				for _, iu := range *cmp.Referrers() {
					iff, isIf := iu.(*ssa.If)
					if !isIf {
						continue
					}
					if failingEdge(f, iff.Block().Succs[0], nil) && iff.Block().Succs[1].Dominates(disp.Block()) {
						guarded = true
					}
				}
			}
			if !guarded {
				why = "the counter " + ph.Comment + " is incremented, but no comparison of the incremented value with a constant, failing when exceeded, dominates the dispatch"
				continue
			}
			// every back edge coming from a block that the dispatch dominates carries the incremented value
			carried := true
			for i, e := range ph.Edges {
				pred := loop.header.Preds[i]
				if !loop.blocks[pred] {
					continue
				}
				if disp.Block().Dominates(pred) && e != ssa.Value(inc) {
					carried = false
				}
			}
			if !carried {
				why = "the counter " + ph.Comment + " is tested before the dispatch, but an iteration that dispatched an operator does not carry the incremented value to the next one"
				continue
			}
			ok = true
			why = "the counter " + ph.Comment + " is incremented and compared with a constant on every path to the dispatch (the exceeding branch returns an error), and every iteration that dispatched an operator carries the incremented value"
		}
	}
	r.Check(ok, rule, key, p.IPos(disp), why)
}
