package main

// rcovidx.go — R-COVIDX: every array access indexed by a Coverage index is protected. A Coverage index is the first
// result of a call of the method Index of a type implementing tables.Coverage. The rule follows it through conversions,
// phis and arguments of module functions (one obligation per call site when the indexed array is a parameter of the callee),
// and at every index expression whose index is such a value requires either
//   (a) a local proof: the bound follows from the tests that dominate the access in its function (P-LIN), or
//   (b) a sanitizer pair: some function of the loading packages compares len(<the indexed field>) with <the coverage
//       field>.Len() — the identity of the two struct fields is what is matched, not the access path — and that function is
//       called when the font is loaded.
// An access whose array or coverage cannot be named as a struct field decides nothing ("not claimed").

import (
	"fmt"
	"go/token"
	"go/types"
	"sort"

	"golang.org/x/tools/go/ssa"
)

// fieldChain: the struct fields selected on the way from a root value to v (outermost first), and the root.
func fieldChain(v ssa.Value, depth int) ([]*types.Var, ssa.Value) {
	if depth > 14 {
		return nil, v
	}
	switch x := v.(type) {
	case *ssa.UnOp:
		if x.Op == token.MUL {
			return fieldChain(x.X, depth+1)
		}
	case *ssa.FieldAddr:
		ch, root := fieldChain(x.X, depth+1)
		return append(ch, fieldOf(x)), root
	case *ssa.Field:
		ch, root := fieldChain(x.X, depth+1)
		return append(ch, fieldOf(x)), root
	case *ssa.IndexAddr:
		return fieldChain(x.X, depth+1)
	case *ssa.Index:
		return fieldChain(x.X, depth+1)
	case *ssa.Slice:
		return fieldChain(x.X, depth+1)
	case *ssa.ChangeType:
		return fieldChain(x.X, depth+1)
	case *ssa.Alloc:
		if refs := x.Referrers(); refs != nil {
			var val ssa.Value
			n := 0
			for _, in := range *refs {
				if st, ok := in.(*ssa.Store); ok && st.Addr == ssa.Value(x) {
					n++
					val = st.Val
				}
			}
			if n == 1 {
				return fieldChain(val, depth+1)
			}
		}
	}
	return nil, v
}

type covObl struct {
	fn    *ssa.Function
	site  ssa.Instruction // the index expression
	slice ssa.Value
	idx   ssa.Value
	arr   *types.Var // first field of the chain of the indexed slice (nil: unnamed)
	cov   *types.Var // coverage field the index comes from (nil: to be resolved from the type owning arr)
	via   string
}

func isCoverageIndexCall(p *Prog, c ssa.CallInstruction, covT *types.Interface) bool {
	cc := c.Common()
	var recv types.Type
	name := ""
	if cc.IsInvoke() {
		recv, name = cc.Value.Type(), cc.Method.Name()
	} else if sc := cc.StaticCallee(); sc != nil && sc.Signature.Recv() != nil {
		recv, name = sc.Signature.Recv().Type(), sc.Name()
	}
	if name != "Index" || recv == nil {
		return false
	}
	return types.Implements(recv, covT) || types.Implements(types.NewPointer(recv), covT)
}

func ruleCovIdx(p *Prog, r *Report) {
	const rule = "R-COVIDX"
	covNamed := p.Named("font/opentype/tables", "Coverage")
	covT, ok := covNamed.Underlying().(*types.Interface)
	if !ok {
		undecided("R-COVIDX: tables.Coverage is not an interface")
	}
	hbPath := p.pkgPath("harfbuzz")
	// ---- taint ------------------------------------------------------------------------------------------------------
	type tv struct {
		v   ssa.Value
		cov *types.Var
	}
	tainted := map[ssa.Value]*types.Var{} // value -> coverage field (nil when the coverage is the subtable's Cov())
	hasT := map[ssa.Value]bool{}
	var work []ssa.Value
	add := func(v ssa.Value, cov *types.Var) {
		if hasT[v] {
			return
		}
		hasT[v] = true
		tainted[v] = cov
		work = append(work, v)
	}
	nSrc := 0
	for _, f := range p.ModFns() {
		if fnPkg(f) == nil || fnPkg(f).Path() != hbPath {
			continue
		}
		for _, b := range f.Blocks {
			for _, in := range b.Instrs {
				c, ok := in.(*ssa.Call)
				if !ok || !isCoverageIndexCall(p, c, covT) {
					continue
				}
				// receiver expression: a field (explicit coverage) or a Cov() call
				var recv ssa.Value
				if c.Common().IsInvoke() {
					recv = c.Common().Value
				} else {
					recv = c.Common().Args[0]
				}
				var cov *types.Var
				if ch, _ := fieldChain(recv, 0); len(ch) > 0 {
					cov = ch[len(ch)-1]
				}
				for _, ref := range *c.Referrers() {
					if ex, ok := ref.(*ssa.Extract); ok && ex.Index == 0 {
						nSrc++
						add(ex, cov)
					}
				}
			}
		}
	}
	var obls []covObl
	// per call-site parameter bindings for sinks whose array is a parameter of the callee
	type binding struct {
		site ssa.CallInstruction
		args []ssa.Value
	}
	callersOf := func(f *ssa.Function) []binding {
		var out []binding
		if n := p.CG().Nodes[f]; n != nil {
			for _, e := range n.In {
				if e.Site != nil && e.Site.Common().StaticCallee() == f {
					out = append(out, binding{e.Site, e.Site.Common().Args})
				}
			}
		}
		return out
	}
	for len(work) > 0 {
		v := work[len(work)-1]
		work = work[:len(work)-1]
		cov := tainted[v]
		refs := v.Referrers()
		if refs == nil {
			continue
		}
		for _, in := range *refs {
			switch x := in.(type) {
			case *ssa.Convert:
				add(x, cov)
			case *ssa.ChangeType:
				add(x, cov)
			case *ssa.Phi:
				add(x, cov)
			case *ssa.IndexAddr:
				if x.Index == v {
					obls = append(obls, covObl{fn: x.Parent(), site: x, slice: x.X, idx: v, cov: cov})
				}
			case *ssa.Index:
				if x.Index == v {
					obls = append(obls, covObl{fn: x.Parent(), site: x, slice: x.X, idx: v, cov: cov})
				}
			case ssa.CallInstruction:
				sc := x.Common().StaticCallee()
				if sc == nil || sc.Blocks == nil || !p.inModule(fnPkg(sc)) {
					continue
				}
				for k, a := range x.Common().Args {
					if a == v && k < len(sc.Params) {
						add(sc.Params[k], cov)
					}
				}
			}
		}
	}
	// ---- sanitizer pairs ----------------------------------------------------------------------------------------------
	type pair struct{ arr, cov *types.Var }
	pairs := map[pair]string{}
	for _, f := range p.ModFns() {
		pk := fnPkg(f)
		if pk == nil || pk.Path() != p.pkgPath("font") && pk.Path() != p.pkgPath("font/opentype/tables") {
			continue
		}
		if n := p.CG().Nodes[f]; n == nil || len(n.In) == 0 {
			continue // never called: not a sanitizer
		}
		for _, b := range f.Blocks {
			for _, in := range b.Instrs {
				bo, ok := in.(*ssa.BinOp)
				if !ok {
					continue
				}
				switch bo.Op {
				case token.NEQ, token.GTR, token.LSS, token.GEQ, token.LEQ, token.EQL:
				default:
					continue
				}
				lenField := func(v ssa.Value) []*types.Var {
					c, ok := stripConv(v).(*ssa.Call)
					if !ok {
						return nil
					}
					if bi, ok := c.Common().Value.(*ssa.Builtin); ok && bi.Name() == "len" {
						ch, _ := fieldChain(c.Common().Args[0], 0)
						return ch
					}
					return nil
				}
				covField := func(v ssa.Value) []*types.Var {
					c, ok := stripConv(v).(*ssa.Call)
					if !ok {
						return nil
					}
					cc := c.Common()
					name := ""
					var recv ssa.Value
					if cc.IsInvoke() {
						name, recv = cc.Method.Name(), cc.Value
					} else if sc := cc.StaticCallee(); sc != nil && sc.Signature.Recv() != nil {
						name, recv = sc.Name(), cc.Args[0]
					}
					if name != "Len" || recv == nil {
						return nil
					}
					ch, _ := fieldChain(recv, 0)
					return ch
				}
				for _, o := range [][2]ssa.Value{{bo.X, bo.Y}, {bo.Y, bo.X}} {
					la, cf := lenField(o[0]), covField(o[1])
					if len(la) == 0 || len(cf) == 0 {
						continue
					}
					for _, a := range la {
						pairs[pair{a, cf[len(cf)-1]}] = p.FnName(f)
					}
				}
			}
		}
	}
	// ---- Cov() of a subtable type ----------------------------------------------------------------------------------------
	covOf := func(t types.Type) *types.Var {
		for _, tt := range []types.Type{t, types.NewPointer(t)} {
			ms := p.SSA.MethodSets.MethodSet(tt)
			if sel := ms.Lookup(nil, "Cov"); sel != nil {
				if m := p.SSA.MethodValue(sel); m != nil && m.Blocks != nil {
					for _, b := range m.Blocks {
						for _, in := range b.Instrs {
							if ret, ok := in.(*ssa.Return); ok && len(ret.Results) == 1 {
								v := ret.Results[0]
								if mi, ok := v.(*ssa.MakeInterface); ok {
									v = mi.X
								}
								if ch, _ := fieldChain(v, 0); len(ch) > 0 {
									return ch[len(ch)-1]
								}
							}
						}
					}
				}
			}
		}
		return nil
	}
	// ---- discharge ----------------------------------------------------------------------------------------------------
	allSlices = true
	defer func() { allSlices = false }()
	px := newLinProver(p)
	localOK := func(o covObl) bool {
		lf := px.ctx(o.fn)
		lf.extra, lf.extraAt = nil, nil
		lf.addLoopInvariants()
		goal := lf.lenForm(o.slice, 0).sub(lf.form(o.idx, 0)).add(linConst(-1))
		return lf.proveAt(goal, o.site, 0)
	}
	seen := map[string]bool{}
	n := 0
	var keys []string
	results := map[string][2]string{} // key -> status, detail
	pos := map[string]ssa.Instruction{}
	decide := func(key string, o covObl, chain []*types.Var, root ssa.Value) {
		if seen[key] {
			return
		}
		seen[key] = true
		keys = append(keys, key)
		pos[key] = o.site
		if localOK(o) {
			results[key] = [2]string{"ok", "the bound follows from the tests that dominate the access in its function"}
			return
		}
		if len(chain) == 0 {
			results[key] = [2]string{"skip", "the indexed array is not a field of a table structure"}
			return
		}
		cov := o.cov
		if cov == nil {
			// the index comes from the subtable's own Cov(): resolve it from the type that owns the array
			owner := root.Type()
			if c := covOf(deref(owner)); c != nil {
				cov = c
			}
		}
		if cov == nil {
			results[key] = [2]string{"skip", "the coverage the index comes from cannot be named as a field"}
			return
		}
		for _, a := range chain {
			if s, ok := pairs[pair{a, cov}]; ok {
				results[key] = [2]string{"ok", fmt.Sprintf("%s compares len(%s) with %s.Len() when the font is loaded", s, a.Name(), cov.Name())}
				return
			}
		}
		results[key] = [2]string{"bad", fmt.Sprintf("the array field %s is indexed by an index of the coverage %s, and neither a test in the function nor a loader comparison of len(%s) with %s.Len() bounds it: a coverage with more glyphs than records panics while shaping", chain[0].Name(), cov.Name(), chain[0].Name(), cov.Name())}
	}
	for _, o := range obls {
		ch, root := fieldChain(o.slice, 0)
		if prm, isParam := root.(*ssa.Parameter); isParam && len(callersOf(o.fn)) > 0 {
			// the array comes from a parameter: one obligation per call site, with the argument's chain prepended
			idxOf := -1
			for i, q := range o.fn.Params {
				if q == prm {
					idxOf = i
				}
			}
			for _, bd := range callersOf(o.fn) {
				if idxOf < 0 || idxOf >= len(bd.args) {
					continue
				}
				ach, aroot := fieldChain(bd.args[idxOf], 0)
				full := append(append([]*types.Var{}, ach...), ch...)
				name := "?"
				if len(full) > 0 {
					name = full[0].Name()
				}
				key := fmt.Sprintf("%s/%s<-%s", p.FnName(o.fn), name, p.FnName(bd.site.Parent()))
				o2 := o
				decide(key, o2, full, aroot)
			}
			continue
		}
		name := "?"
		if len(ch) > 0 {
			name = ch[0].Name()
			if n, ok := deref(root.Type()).(*types.Named); ok {
				name = n.Obj().Name() + "." + name
			}
		}
		decide(fmt.Sprintf("%s/%s", p.FnName(o.fn), name), o, ch, root)
	}
	sort.Strings(keys)
	for _, k := range keys {
		res := results[k]
		if res[0] == "skip" {
			r.Instance(rule+"(not claimed)", k+": "+res[1])
			continue
		}
		n++
		r.Instance(rule, k)
		if res[0] == "ok" {
			r.OK(rule, k, p.IPos(pos[k]), res[1])
		} else {
			r.Bad(rule, k, p.IPos(pos[k]), res[1])
		}
	}
	r.Count("coverage_index_sources", nSrc)
	r.Floor(rule, n, 10)
}

// ruleExtSan (part of R-COVIDX): the sanitizer pairs protect a subtable only if the loader applies them to the subtable
// that the shaper will use. Extension subtables are replaced by the subtable they wrap (Resolve) before being stored; the
// sanitizer dispatch must therefore look at the element AFTER that replacement: the value whose dynamic type selects the
// Sanitize call must not be loaded before the call of Resolve in the same iteration.
func ruleExtSan(p *Prog, r *Report) {
	const rule = "R-COVIDX/resolved"
	nFn, nCalls := 0, 0
	// the interface value whose dynamic type was tested: receiver <- (extract of) typeassert <- load
	origin := func(v ssa.Value) ssa.Value {
		for i := 0; i < 6; i++ {
			switch x := v.(type) {
			case *ssa.Extract:
				v = x.Tuple
				continue
			case *ssa.TypeAssert:
				v = x.X
				continue
			case *ssa.UnOp:
				if x.Op == token.MUL {
					if al, ok := x.X.(*ssa.Alloc); ok {
						// a spilled copy: follow the single store
						if st := singleStore(al); st != nil {
							v = st.Val
							continue
						}
					}
				}
			case *ssa.MakeInterface:
				v = x.X
				continue
			case *ssa.Alloc:
				// the address of a spilled copy (pointer receiver)
				if st := singleStore(x); st != nil {
					v = st.Val
					continue
				}
			}
			break
		}
		return v
	}
	type fnCalls struct {
		f                   *ssa.Function
		resolves, sanitizes []*ssa.Call
	}
	var fns []fnCalls
	// helpers of the loader which dispatch the sanitizers on one of their parameters: function -> parameter index
	dispatchers := map[*ssa.Function]int{}
	for _, f := range p.ModFns() {
		if fnPkg(f) == nil || fnPkg(f).Path() != p.pkgPath("font") {
			continue
		}
		fc := fnCalls{f: f}
		for _, b := range f.Blocks {
			for _, in := range b.Instrs {
				c, ok := in.(*ssa.Call)
				if !ok {
					continue
				}
				sc := c.Common().StaticCallee()
				if sc == nil || sc.Signature.Recv() == nil || fnPkg(sc) == nil || fnPkg(sc).Path() != p.pkgPath("font/opentype/tables") {
					continue
				}
				switch sc.Name() {
				case "Resolve":
					fc.resolves = append(fc.resolves, c)
				case "Sanitize":
					fc.sanitizes = append(fc.sanitizes, c)
				}
			}
		}
		if len(fc.resolves) == 0 && len(fc.sanitizes) != 0 {
			for _, sc := range fc.sanitizes {
				if par, ok := origin(sc.Common().Args[0]).(*ssa.Parameter); ok {
					for i, q := range f.Params {
						if q == par {
							dispatchers[f] = i
						}
					}
				}
			}
		}
		fns = append(fns, fc)
	}
	for _, fc := range fns {
		f := fc.f
		if len(fc.resolves) == 0 {
			continue
		}
		type site struct {
			call *ssa.Call
			v    ssa.Value
			name string
		}
		var sites []site
		for _, sc := range fc.sanitizes {
			sites = append(sites, site{sc, sc.Common().Args[0], p.FnName(sc.Common().StaticCallee())})
		}
		for _, b := range f.Blocks {
			for _, in := range b.Instrs {
				if c, ok := in.(*ssa.Call); ok {
					if d := c.Common().StaticCallee(); d != nil {
						if i, ok := dispatchers[d]; ok && i < len(c.Common().Args) {
							sites = append(sites, site{c, c.Common().Args[i], p.FnName(d)})
						}
					}
				}
			}
		}
		if len(sites) == 0 {
			continue
		}
		nFn++
		for _, st := range sites {
			nCalls++
			key := fmt.Sprintf("%s/%s", p.FnName(f), st.name)
			r.Instance(rule, key)
			v := origin(st.v)
			ld, isInstr := v.(ssa.Instruction)
			ok := true
			why := ""
			if !isInstr {
				ok, why = false, "the sanitized value is not read from the list of subtables"
			} else {
				for _, rc := range fc.resolves {
					before := ld.Block() == rc.Block() && instrIndex(ld) < instrIndex(rc) || ld.Block() != rc.Block() && ld.Block().Dominates(rc.Block())
					if before {
						ok = false
						why = fmt.Sprintf("the subtable is read at %s, before the extension is resolved at %s: an extension-wrapped subtable is never sanitized", p.IPos(ld), p.IPos(rc))
					}
				}
			}
			r.Check(ok, rule, key, p.IPos(st.call), "the sanitizer is dispatched on the subtable as it is after the resolution of extensions"+pref(why))
		}
	}
	r.Floor(rule+"(functions)", nFn, 2)
	r.Floor(rule, nCalls, 2)
}

func singleStore(al *ssa.Alloc) *ssa.Store {
	var st *ssa.Store
	if refs := al.Referrers(); refs != nil {
		for _, in := range *refs {
			if s, ok := in.(*ssa.Store); ok && s.Addr == ssa.Value(al) {
				if st != nil {
					return nil
				}
				st = s
			}
		}
	}
	return st
}
