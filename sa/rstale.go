package main

import (
	"fmt"
	"go/constant"
	"go/token"
	"go/types"
	"os"
	"sort"

	"golang.org/x/tools/go/ssa"
)

// rstale.go — R-STALE: a re-slice of storage kept by a reusable object that may extend past the current length exposes the
// elements left there by the previous use.

type growSite struct {
	fn    *ssa.Function
	in    *ssa.Slice
	field *types.Var // the field the re-sliced value is loaded from
	owner string     // name of the struct type declaring the field
}

func (g growSite) key(p *Prog) string {
	return p.FnName(g.fn) + "/" + g.owner + "." + g.field.Name()
}

// fieldOfLoad returns the struct field v is loaded from (v = *(&x.f)), if any.
func fieldOfLoad(v ssa.Value) (*types.Var, string, *ssa.FieldAddr) {
	u, ok := v.(*ssa.UnOp)
	if !ok || u.Op != token.MUL {
		return nil, "", nil
	}
	fa, ok := u.X.(*ssa.FieldAddr)
	if !ok {
		return nil, "", nil
	}
	pt, ok := fa.X.Type().Underlying().(*types.Pointer)
	if !ok {
		return nil, "", nil
	}
	st, ok := pt.Elem().Underlying().(*types.Struct)
	if !ok {
		return nil, "", nil
	}
	name := ""
	if n, ok := pt.Elem().(*types.Named); ok {
		name = n.Obj().Name()
	}
	return st.Field(fa.Field), name, fa
}

// growingReslices lists the slice expressions x.f[lo:hi] on a slice-typed field of a named struct of the module whose upper
// bound is not evidently within the current length: hi is absent, the constant 0, or len() of a load of the same field of
// the same object.
func growingReslices(p *Prog, fns []*ssa.Function) []growSite {
	var out []growSite
	for _, f := range fns {
		for _, b := range f.Blocks {
			for _, in := range b.Instrs {
				sl, ok := in.(*ssa.Slice)
				if !ok || sl.High == nil {
					continue
				}
				if _, isSlice := sl.X.Type().Underlying().(*types.Slice); !isSlice {
					continue
				}
				fld, owner, fa := fieldOfLoad(sl.X)
				if fld == nil || owner == "" || !p.inModule(fld.Pkg()) {
					continue
				}
				if withinLen(sl.High, fa) {
					continue
				}
				if !storedBackTo(sl, fld, map[ssa.Value]bool{}) {
					continue
				}
				out = append(out, growSite{f, sl, fld, owner})
			}
		}
	}
	return out
}

// storedBackTo: v is stored (possibly through phis) into the field fld of some object: the re-slice becomes the new extent
// of the kept storage.
func storedBackTo(v ssa.Value, fld *types.Var, seen map[ssa.Value]bool) bool {
	if seen[v] {
		return false
	}
	seen[v] = true
	refs := v.Referrers()
	if refs == nil {
		return false
	}
	for _, u := range *refs {
		switch u := u.(type) {
		case *ssa.Store:
			if u.Val != v {
				continue
			}
			if fa, ok := u.Addr.(*ssa.FieldAddr); ok {
				if pt, ok := fa.X.Type().Underlying().(*types.Pointer); ok {
					if st, ok := pt.Elem().Underlying().(*types.Struct); ok && st.Field(fa.Field) == fld {
						return true
					}
				}
			}
		case *ssa.Phi:
			if storedBackTo(u, fld, seen) {
				return true
			}
		}
	}
	return false
}

// withinLen: hi is evidently at most the length of the slice stored at fa.
func withinLen(hi ssa.Value, fa *ssa.FieldAddr) bool {
	switch h := hi.(type) {
	case *ssa.Const:
		if h.Value != nil && h.Value.Kind() == constant.Int {
			if k, ok := constant.Int64Val(h.Value); ok && k == 0 {
				return true
			}
		}
	case *ssa.Call:
		if bi, ok := h.Call.Value.(*ssa.Builtin); ok && bi.Name() == "len" && len(h.Call.Args) == 1 {
			_, _, fa2 := fieldOfLoad(h.Call.Args[0])
			if fa2 != nil && fa2.Field == fa.Field && fa2.X == fa.X {
				return true
			}
		}
	case *ssa.BinOp:
		// len(x.f) - k, k >= 0
		if h.Op == token.SUB {
			if k, ok := intConst(h.Y); ok && k >= 0 {
				return withinLen(h.X, fa)
			}
		}
	}
	return false
}

func init() {
	// vsa grow: slice expressions on fields that may extend past the current length
	if len(os.Args) > 1 && os.Args[1] == "grow" {
		p := Load(LoadOpts{Dir: repoDir(), Patterns: []string{"./..."}, ModPath: modPath, MinPkgs: 13})
		var lines []string
		for _, g := range growingReslices(p, p.ModFns()) {
			lines = append(lines, fmt.Sprintf("%s\t%s\thi=%s", p.IPos(g.in), g.key(p), g.in.High))
		}
		sort.Strings(lines)
		for _, l := range lines {
			fmt.Println(l)
		}
		os.Exit(0)
	}
}

// consultsCap: the re-slice is taken after consulting the capacity of the kept storage (its bound is cap() of the field, or
// a dominating branch compares cap() of the field): the idiom of a re-extension, as opposed to a compaction, which never
// looks at the capacity.
func consultsCap(sl *ssa.Slice, fld *types.Var) bool {
	isCapOf := func(v ssa.Value) bool {
		c, ok := v.(*ssa.Call)
		if !ok {
			return false
		}
		bi, ok := c.Call.Value.(*ssa.Builtin)
		if !ok || bi.Name() != "cap" || len(c.Call.Args) != 1 {
			return false
		}
		f2, _, _ := fieldOfLoad(c.Call.Args[0])
		return f2 == fld
	}
	if isCapOf(sl.High) {
		return true
	}
	for _, b := range sl.Parent().Blocks {
		if b == sl.Block() || !b.Dominates(sl.Block()) || len(b.Instrs) == 0 {
			continue
		}
		iff, ok := b.Instrs[len(b.Instrs)-1].(*ssa.If)
		if !ok {
			continue
		}
		if cmp, ok := iff.Cond.(*ssa.BinOp); ok && (isCapOf(cmp.X) || isCapOf(cmp.Y)) {
			return true
		}
	}
	return false
}

// overwrittenWhole: the re-extended slice is the destination of a copy() whose source has exactly the new length, or is
// passed to clear().
func overwrittenWhole(sl *ssa.Slice) bool {
	seen := map[ssa.Value]bool{}
	var walk func(v ssa.Value) bool
	walk = func(v ssa.Value) bool {
		if seen[v] || v.Referrers() == nil {
			return false
		}
		seen[v] = true
		for _, u := range *v.Referrers() {
			switch u := u.(type) {
			case *ssa.Phi:
				if walk(u) {
					return true
				}
			case *ssa.Call:
				bi, ok := u.Call.Value.(*ssa.Builtin)
				if !ok {
					continue
				}
				if bi.Name() == "clear" {
					return true
				}
				if bi.Name() == "copy" && u.Call.Args[0] == v {
					if lc, ok := sl.High.(*ssa.Call); ok {
						if lb, ok := lc.Call.Value.(*ssa.Builtin); ok && lb.Name() == "len" && lc.Call.Args[0] == u.Call.Args[1] {
							return true
						}
					}
				}
			}
		}
		return false
	}
	return walk(sl)
}

// filledByLoop: the function stores whole elements into the re-extended slice (or into the field it is stored back to) at a
// non-constant index inside a loop: the fill idiom `s = s[:n]; for i := range src { s[i] = f(src[i]) }`. Stores into a
// FIELD of an element (s[i].x = ...) do not count: the other fields keep their old values. The loop is not proved to cover
// the whole new length.
func filledByLoop(sl *ssa.Slice, fld *types.Var) bool {
	f := sl.Parent()
	inLoop := map[*ssa.BasicBlock]bool{}
	for _, l := range naturalLoops(f) {
		for b := range l.blocks {
			inLoop[b] = true
		}
	}
	// values denoting the slice: the re-slice itself, phis of it, loads of the field
	denotes := map[ssa.Value]bool{sl: true}
	for changed := true; changed; {
		changed = false
		for _, b := range f.Blocks {
			for _, in := range b.Instrs {
				if ph, ok := in.(*ssa.Phi); ok && !denotes[ph] {
					for _, e := range ph.Edges {
						if denotes[e] {
							denotes[ph] = true
							changed = true
						}
					}
				}
				if u, ok := in.(*ssa.UnOp); ok && u.Op == token.MUL && !denotes[u] {
					if f2, _, _ := fieldOfLoad(u); f2 == fld {
						denotes[u] = true
						changed = true
					}
				}
			}
		}
	}
	for _, b := range f.Blocks {
		if !inLoop[b] {
			continue
		}
		for _, in := range b.Instrs {
			st, ok := in.(*ssa.Store)
			if !ok {
				continue
			}
			ia, ok := st.Addr.(*ssa.IndexAddr)
			if !ok || !denotes[ia.X] {
				continue
			}
			if _, isK := ia.Index.(*ssa.Const); isK {
				continue
			}
			return true
		}
	}
	return false
}

// ruleStale — R-STALE: storage kept by an object (a slice-typed field) is re-extended past its current length (x.f =
// x.f[:n] after consulting cap(x.f)) only for the fields listed here, each confirmed by reading: the exposed elements are
// entirely rewritten before they are read, or the object is not reused. Everywhere else growth goes through append or make,
// which hand out zeroed elements.
func ruleStale(p *Prog, r *Report, allowed map[string]string, floor int) {
	const rule = "R-STALE"
	n := 0
	seen := map[string]bool{}
	for _, g := range growingReslices(p, p.ModFns()) {
		if !consultsCap(g.in, g.field) {
			continue
		}
		key := g.owner + "." + g.field.Name()
		n++
		if !seen[key] {
			r.Instance(rule, key)
			seen[key] = true
		}
		okey := key + "/" + p.FnName(g.fn)
		if overwrittenWhole(g.in) {
			r.Check(true, rule, okey, p.IPos(g.in), "the re-extended storage is entirely overwritten by copy() from a source of the new length, or cleared")
			continue
		}
		if filledByLoop(g.in, g.field) {
			r.Check(true, rule, okey, p.IPos(g.in), "the elements of the re-extended storage are assigned whole (x.f[i] = v, not a field of x.f[i]) by a loop of the function")
			continue
		}
		why, ok := allowed[key]
		if !ok {
			why = "kept storage " + key + " is re-extended past its current length in place (re-slice after consulting its capacity): the exposed elements keep the values left by the previous use, and nothing here overwrites them whole (append and make hand out zeroed elements)"
		}
		r.Check(ok, rule, okey, p.IPos(g.in), why)
	}
	r.Floor(rule, n, floor)
}

// fontField: v is (a conversion of) a field read from a struct declared in one of the packages pkgs.
func fontField(p *Prog, v ssa.Value, pkgs map[string]bool) (*types.Var, []ssa.Value) {
	chain := []ssa.Value{v}
	for {
		switch x := v.(type) {
		case *ssa.Convert:
			v = x.X
		case *ssa.ChangeType:
			v = x.X
		default:
			goto done
		}
		chain = append(chain, v)
	}
done:
	switch x := v.(type) {
	case *ssa.UnOp:
		if x.Op != token.MUL {
			return nil, nil
		}
		if fa, ok := x.X.(*ssa.FieldAddr); ok {
			st := fa.X.Type().Underlying().(*types.Pointer).Elem().Underlying().(*types.Struct)
			f := st.Field(fa.Field)
			if f.Pkg() != nil && pkgs[f.Pkg().Path()] {
				return f, chain
			}
		}
	case *ssa.Field:
		st := x.X.Type().Underlying().(*types.Struct)
		f := st.Field(x.Field)
		if f.Pkg() != nil && pkgs[f.Pkg().Path()] {
			return f, chain
		}
	}
	return nil, nil
}

// fontIdxSite: an index expression whose index is (a conversion of) a field of a font table.
type fontIdxSite struct {
	fn    *ssa.Function
	in    ssa.Instruction
	x     ssa.Value
	fld   *types.Var
	owner string
	chain []ssa.Value
}

func fontIdxSites(p *Prog, pkg string, tablePkgs []string) []fontIdxSite {
	pk := map[string]bool{}
	for _, t := range tablePkgs {
		pk[p.pkgPath(t)] = true
	}
	var out []fontIdxSite
	for _, f := range p.ModFns() {
		if fnPkg(f) == nil || fnPkg(f).Path() != p.pkgPath(pkg) {
			continue
		}
		for _, b := range f.Blocks {
			for _, in := range b.Instrs {
				var idx, x ssa.Value
				switch i := in.(type) {
				case *ssa.IndexAddr:
					idx, x = i.Index, i.X
				case *ssa.Index:
					idx, x = i.Index, i.X
				default:
					continue
				}
				fld, chain := fontField(p, idx, pk)
				if fld == nil {
					continue
				}
				out = append(out, fontIdxSite{f, in, x, fld, fieldOwnerType(p, fld), chain})
			}
		}
	}
	return out
}

// fieldOwnerType: the name of the named struct type of the module declaring fld.
func fieldOwnerType(p *Prog, fld *types.Var) string {
	if fld.Pkg() == nil {
		return ""
	}
	sc := fld.Pkg().Scope()
	for _, n := range sc.Names() {
		tn, ok := sc.Lookup(n).(*types.TypeName)
		if !ok {
			continue
		}
		if st, ok := tn.Type().Underlying().(*types.Struct); ok {
			for i := 0; i < st.NumFields(); i++ {
				if st.Field(i) == fld {
					return tn.Name()
				}
			}
		}
	}
	return ""
}

// upperGuarded: the block of site is only entered through the in-range branch of a comparison of one of the values of
// chain with an upper bound.
func upperGuarded(site ssa.Instruction, chain []ssa.Value) bool {
	for _, c := range chain {
		if c.Referrers() == nil {
			continue
		}
		for _, u := range *c.Referrers() {
			bo, ok := u.(*ssa.BinOp)
			if !ok || bo.Referrers() == nil {
				continue
			}
			small := -1 // the successor on which c is the smaller side
			switch {
			case (bo.Op == token.LSS || bo.Op == token.LEQ) && bo.X == c, (bo.Op == token.GTR || bo.Op == token.GEQ) && bo.Y == c:
				small = 0
			case (bo.Op == token.GTR || bo.Op == token.GEQ) && bo.X == c, (bo.Op == token.LSS || bo.Op == token.LEQ) && bo.Y == c:
				small = 1
			default:
				continue
			}
			for _, iu := range *bo.Referrers() {
				iff, ok := iu.(*ssa.If)
				if !ok {
					continue
				}
				in := iff.Block().Succs[small]
				if len(in.Preds) == 1 && in.Dominates(site.Block()) {
					return true
				}
			}
		}
	}
	return false
}

// ruleFontIdx — R-FONTIDX: in the shaper, an index read directly from a field of a font table is compared with an upper
// bound on the way to every array access it is used for, or the field is one of those that the loader replaces when out of
// range (checked: the named sanitizer compares the field and stores it).
func ruleFontIdx(p *Prog, r *Report, pkg string, tablePkgs []string, sanitized map[string]fnRef, floor int) {
	const rule = "R-FONTIDX"
	n := 0
	sanOK := map[string]string{}
	for k, fr := range sanitized {
		f := p.TryFunc(fr.pkg, fr.recv, fr.name)
		if f == nil {
			sanOK[k] = "the sanitizer " + fr.name + " no longer exists"
			continue
		}
		cmp, st := false, false
		for _, b := range f.Blocks {
			for _, in := range b.Instrs {
				switch x := in.(type) {
				case *ssa.BinOp:
					for _, o := range []ssa.Value{x.X, x.Y} {
						for {
							if c, ok := o.(*ssa.Convert); ok {
								o = c.X
								continue
							}
							break
						}
						if fld, owner, _ := fieldOfLoad(o); fld != nil && owner+"."+fld.Name() == k {
							switch x.Op {
							case token.LSS, token.LEQ, token.GTR, token.GEQ:
								cmp = true
							}
						}
					}
				case *ssa.Store:
					if fa, ok := x.Addr.(*ssa.FieldAddr); ok {
						if pt, ok := fa.X.Type().Underlying().(*types.Pointer); ok {
							if nt, ok := pt.Elem().(*types.Named); ok {
								if stt, ok := nt.Underlying().(*types.Struct); ok && nt.Obj().Name()+"."+stt.Field(fa.Field).Name() == k {
									st = true
								}
							}
						}
					}
				}
			}
		}
		if !cmp || !st {
			sanOK[k] = "the sanitizer " + fr.name + " no longer compares the field with a bound and replaces it"
		}
	}
	for _, s := range fontIdxSites(p, pkg, tablePkgs) {
		n++
		fk := s.owner + "." + s.fld.Name()
		key := p.FnName(s.fn) + "/" + fk
		r.Instance(rule, key)
		if upperGuarded(s.in, s.chain) {
			r.Check(true, rule, key, p.IPos(s.in), "the index is compared with an upper bound and the access is only reached through the in-range branch")
			continue
		}
		if _, ok := sanitized[fk]; ok {
			bad := sanOK[fk]
			r.Check(bad == "", rule, key, p.IPos(s.in), "the loader replaces an out-of-range "+fk+" ("+sanitized[fk].name+")"+pref(bad))
			continue
		}
		r.Check(false, rule, key, p.IPos(s.in), "the index "+fk+" comes straight from the font and reaches the array access without having been compared with an upper bound on this path; no loader sanitizer is recorded for it")
	}
	r.Floor(rule, n, floor)
}

func init() {
	// vsa fontidx <pkg>: index expressions whose index is a field of a font table
	if len(os.Args) > 2 && os.Args[1] == "fontidx" {
		p := Load(LoadOpts{Dir: repoDir(), Patterns: []string{"./..."}, ModPath: modPath, MinPkgs: 13})
		var lines []string
		for _, s := range fontIdxSites(p, os.Args[2], []string{"font/opentype/tables", "font"}) {
			lines = append(lines, fmt.Sprintf("%s\t%s\t%s[%s.%s]\t%s\tguarded=%v", p.IPos(s.in), p.FnName(s.fn), s.x.Name(), s.owner, s.fld.Name(), s.x.Type(), upperGuarded(s.in, s.chain)))
		}
		sort.Strings(lines)
		for _, l := range lines {
			fmt.Println(l)
		}
		os.Exit(0)
	}
}
