package main

// c17.go — C17 A parsed font can be shared by concurrent goroutines (R-GLOBAL, R-FONT, R-ESC): a static effect
// argument — nothing reachable after construction writes memory that two goroutines can both reach.

import (
	"fmt"
	"go/types"
	"sort"
	"strings"

	"golang.org/x/tools/go/ssa"
)

func init() {
	register(&propDef{id: "C17", run: runC17, controls: controlsC17})
}

// initOnly: functions that can only run during package initialisation.
func initOnly(p *Prog) map[*ssa.Function]bool {
	cg := p.CG()
	isInit := func(f *ssa.Function) bool {
		return f.Name() == "init" || strings.HasPrefix(f.Name(), "init#")
	}
	cand := map[*ssa.Function]bool{}
	var down func(f *ssa.Function)
	down = func(f *ssa.Function) {
		if cand[f] || !p.inModule(fnPkg(f)) {
			return
		}
		cand[f] = true
		if n := cg.Nodes[f]; n != nil {
			for _, e := range n.Out {
				down(e.Callee.Func)
			}
		}
		for _, af := range f.AnonFuncs {
			down(af)
		}
	}
	for _, f := range p.ModFns() {
		if isInit(f) && f.Parent() == nil {
			down(f)
		}
	}
	for changed := true; changed; {
		changed = false
		for f := range cand {
			if isInit(f) && f.Parent() == nil {
				continue
			}
			n := cg.Nodes[f]
			ok := n != nil && len(n.In) > 0
			if n != nil {
				for _, e := range n.In {
					if !cand[e.Caller.Func] {
						ok = false
					}
				}
			}
			// anonymous functions defined in an init-only function and never called through the graph: keep if parent is init-only
			if (n == nil || len(n.In) == 0) && f.Parent() != nil && cand[f.Parent()] {
				ok = true
			}
			if !ok {
				delete(cand, f)
				changed = true
			}
		}
	}
	return cand
}

func runC17(p *Prog, r *Report) {
	r.Explain = append(r.Explain, "R-GLOBAL: no store, map update, copy/append destination, delete or known stdlib mutator targets a package-level variable or memory derived from one (P-ORG origin tracking, field-based heap) in any function that can run after package initialisation.")
	ruleGlobal(p, r)
	r.Explain = append(r.Explain, "R-POOL: a function that takes an object out of a sync.Pool and puts it back returns nothing derived from it (P-ORG with the Get results as roots); there is no pool in the tree today, the rule has a positive control.")
	rulePool(p, r, 0)
	r.Explain = append(r.Explain, "R-FONT: with every value of type *font.Font as root, no such mutation targets font-derived memory in any function reachable from the exported API without entering a constructor (a function returning *font.Font); this subsumes storing a per-goroutine object into a shared font (R-ESC).")
	ruleFont(p, r, fontCfg{pkg: "font", typ: "Font"})
	ruleNoUnsafe(p, r, nil)
	r.Assumptions = append(r.Assumptions,
		"external packages (standard library, golang.org/x/text, golang.org/x/image) keep no mutable state reachable from the arguments they are given, except the listed mutators (sort.*, binary.*.Put*, io.Read*) whose written argument is checked",
		"origin tracking follows pointers into root-owned memory (fields, elements, slices, loads, calls, returns, closures, field-based heap for direct field stores); a root-derived reference stored as an ELEMENT of a slice or map that is not itself root-derived is not followed when loaded back unless its type is *font.Font (roots are re-discovered by type)",
		"no unsafe, reflection-based writes or cgo in the module (checked: no package imports unsafe or cgo, and every call into reflect is TypeOf, DeepEqual or a method of reflect.Type)",
		"a constructor is any function returning *font.Font; functions reachable only through constructors are construction-time")
	r.NotDecided = append(r.NotDecided, "that concurrent results equal sequential results beyond the absence of shared mutable state (e.g. map iteration order)", "races on per-goroutine objects that a caller shares against the documented contract (Face, Buffer, shapers)")
}

// ruleNoUnsafe — R-NOUNSAFE. only (optional) restricts the packages examined (controls).
func ruleNoUnsafe(p *Prog, r *Report, only map[string]bool) {
	// reflect is tolerated for the read-only questions only (the type of a value, deep equality): every call of the package
	// into reflect must be one of them; unsafe and cgo are not tolerated at all
	reflectWrites := map[string]string{} // package path -> first call of reflect that may write (or that is not known to be read-only)
	for _, f := range p.ModFns() {
		if fnPkg(f) == nil {
			continue
		}
		for _, b := range f.Blocks {
			for _, in := range b.Instrs {
				c, ok := in.(ssa.CallInstruction)
				if !ok {
					continue
				}
				name := ""
				if sc := c.Common().StaticCallee(); sc != nil && fnPkg(sc) != nil && fnPkg(sc).Path() == "reflect" {
					name = sc.Name()
					if sc.Signature.Recv() != nil {
						name = sc.Signature.Recv().Type().String() + "." + name
					}
				} else if c.Common().IsInvoke() {
					if nt, ok := c.Common().Value.Type().(*types.Named); ok && nt.Obj().Pkg() != nil && nt.Obj().Pkg().Path() == "reflect" {
						if nt.Obj().Name() == "Type" {
							continue // the methods of reflect.Type only read
						}
						name = nt.Obj().Name() + "." + c.Common().Method.Name()
					}
				}
				if name == "" || name == "TypeOf" || name == "DeepEqual" || name == "init" { // init: the package initializer of reflect, called by the importer's
					continue
				}
				if reflectWrites[fnPkg(f).Path()] == "" {
					reflectWrites[fnPkg(f).Path()] = name + " at " + p.IPos(in)
				}
			}
		}
	}
	for _, pk := range p.Pkgs {
		if only != nil && !only[pk.PkgPath] {
			continue
		}
		bad := ""
		for path := range pk.Imports {
			if path == "unsafe" || path == "C" {
				bad = "imports " + path
			}
			if path == "reflect" && reflectWrites[pk.PkgPath] != "" {
				bad = "calls reflect." + reflectWrites[pk.PkgPath]
			}
		}
		key := "imports/" + strings.TrimPrefix(pk.PkgPath, p.ModPath+"/")
		r.Instance("R-NOUNSAFE", key)
		detail := "imports neither unsafe nor cgo, and uses reflect for read-only questions at most (TypeOf, DeepEqual, methods of reflect.Type): the effect analysis would not see writes made through them"
		if bad != "" {
			detail = bad + ": " + detail
		}
		r.Check(bad == "", "R-NOUNSAFE", key, "-", detail)
	}
}

func ruleGlobal(p *Prog, r *Report) { ruleGlobalIn(p, r, "") }

// ruleGlobalIn: onlyPkg restricts the reported functions to one package (controls).
func ruleGlobalIn(p *Prog, r *Report, onlyPkg string) {
	const rule = "R-GLOBAL"
	io := initOnly(p)
	t := NewTaint(p)
	t.rootValue = func(v ssa.Value) bool {
		g, ok := v.(*ssa.Global)
		return ok && p.inModule(g.Pkg.Pkg)
	}
	t.quiet = func(f *ssa.Function) bool { return io[f] }
	t.Run()
	r.Count("init_only_functions", len(io))
	r.Count("global_derived_values", len(t.tainted))
	nmut := 0
	var onceStores []string
	type rep struct {
		key, pos, detail string
		path             []string
	}
	var reps []rep
	for _, f := range p.ModFns() {
		if io[f] {
			continue
		}
		if onlyPkg != "" && fnPkg(f).Path() != p.pkgPath(onlyPkg) {
			continue
		}
		for _, m := range mutationsOf(f) {
			nmut++
			if !t.Is(m.target) {
				continue
			}
			// a store of the address-of-global itself is tainted as root; a store *into* an Alloc holding a derived value is not a mutation of shared memory
			if _, isAlloc := m.target.(*ssa.Alloc); isAlloc {
				continue
			}
			if localRoot(m.target) != nil {
				continue
			}
			if onceOnlyStore(m) {
				onceStores = append(onceStores, p.FnName(f)+" -> "+m.target.Name())
				continue
			}
			gname := globalOf(t, m.target)
			reps = append(reps, rep{key: p.FnName(f) + "/" + gname, pos: p.IPos(m.in), detail: fmt.Sprintf("%s in %s targets memory derived from package-level variable %s after initialisation: shared by all goroutines", m.what, p.FnName(f), gname), path: t.Trace(m.target)})
		}
	}
	r.Count("mutation_sites_examined", nmut)
	sort.Slice(reps, func(i, j int) bool { return reps[i].key < reps[j].key })
	seen := map[string]bool{}
	for _, x := range reps {
		if seen[x.key] {
			continue
		}
		seen[x.key] = true
		r.Bad(rule, x.key, x.pos, x.detail, x.path...)
	}
	for _, o := range onceStores {
		r.OK(rule, "once/"+o, "-", "direct store of a package-level variable inside a function literal that is only passed to (*sync.Once).Do")
	}
	// one obligation per package: all its post-init mutation sites were examined
	per := map[string]int{}
	for _, f := range p.ModFns() {
		if !io[f] {
			per[strings.TrimPrefix(fnPkg(f).Path(), p.ModPath+"/")] += len(mutationsOf(f))
		}
	}
	var pk []string
	for k := range per {
		pk = append(pk, k)
	}
	sort.Strings(pk)
	for _, k := range pk {
		bad := false
		for key := range seen {
			if strings.Contains(key, k+".") {
				bad = true
			}
		}
		r.Instance(rule, k)
		if !bad {
			r.OK(rule, "package "+k, "-", fmt.Sprintf("%d mutation sites in functions that can run after init; none targets global-derived memory", per[k]))
		}
	}
}

func globalOf(t *Taint, v ssa.Value) string {
	seen := map[ssa.Value]bool{}
	for v != nil && !seen[v] {
		seen[v] = true
		if g, ok := v.(*ssa.Global); ok {
			return g.Pkg.Pkg.Name() + "." + g.Name()
		}
		w := t.tainted[v]
		if w == nil {
			break
		}
		if w.from == nil {
			if strings.HasPrefix(w.note, "load of global ") {
				return strings.TrimPrefix(w.note, "load of global ")
			}
			return w.note
		}
		v = w.from
	}
	return "?"
}

var _ = types.Identical

// onceOnlyStore: the store writes a package-level variable directly from a function literal that is only ever passed to
// (*sync.Once).Do.
func onceOnlyStore(m mutation) bool {
	if _, ok := m.target.(*ssa.Global); !ok {
		return false
	}
	f := m.in.Parent()
	if f.Parent() == nil {
		return false
	}
	uses := 0
	isOnceDo := func(u ssa.Instruction) bool {
		c, ok := u.(ssa.CallInstruction)
		if !ok {
			return false
		}
		sc := c.Common().StaticCallee()
		return sc != nil && sc.String() == "(*sync.Once).Do"
	}
	for _, b := range f.Parent().Blocks {
		for _, in := range b.Instrs {
			if mc, ok := in.(*ssa.MakeClosure); ok && mc.Fn == ssa.Value(f) {
				refs := mc.Referrers()
				if refs == nil {
					return false
				}
				for _, u := range *refs {
					if !isOnceDo(u) {
						return false
					}
					uses++
				}
				continue
			}
			for _, op := range in.Operands(nil) {
				if *op == ssa.Value(f) {
					if _, isMC := in.(*ssa.MakeClosure); isMC {
						continue
					}
					if !isOnceDo(in) {
						return false
					}
					uses++
				}
			}
		}
	}
	return uses > 0
}

type fontCfg struct {
	pkg, typ string
}

// postConstruction: functions reachable from the exported API without entering a constructor of the shared type.
func postConstruction(p *Prog, isCtor func(f *ssa.Function) bool) map[*ssa.Function]bool {
	cg := p.CG()
	post := map[*ssa.Function]bool{}
	var down func(f *ssa.Function)
	down = func(f *ssa.Function) {
		if post[f] || isCtor(f) {
			return
		}
		post[f] = true
		if n := cg.Nodes[f]; n != nil {
			for _, e := range n.Out {
				if p.inModule(fnPkg(e.Callee.Func)) {
					down(e.Callee.Func)
				}
			}
		}
		for _, af := range f.AnonFuncs {
			down(af)
		}
	}
	for _, f := range p.ModFns() {
		if f.Parent() != nil || f.Object() == nil || !f.Object().Exported() {
			continue
		}
		if strings.HasPrefix(f.Name(), "init") {
			continue
		}
		if recv := f.Signature.Recv(); recv != nil {
			if n := namedOf(recv.Type()); n != nil && !n.Obj().Exported() {
				// methods of unexported types are reachable through interfaces: covered by the traversal from their callers
				continue
			}
		}
		down(f)
	}
	return post
}

func ruleFont(p *Prog, r *Report, c fontCfg) {
	const rule = "R-FONT"
	T := p.Named(c.pkg, c.typ)
	isT := func(t types.Type) bool {
		if pt, ok := t.Underlying().(*types.Pointer); ok {
			return types.Identical(pt.Elem(), T)
		}
		return false
	}
	isCtor := func(f *ssa.Function) bool {
		res := f.Signature.Results()
		for i := 0; i < res.Len(); i++ {
			rt := res.At(i).Type()
			if isT(rt) {
				return true
			}
			if sl, ok := rt.Underlying().(*types.Slice); ok && isT(sl.Elem()) {
				return true
			}
		}
		return false
	}
	var ctors []string
	for _, f := range p.ModFns() {
		if isCtor(f) {
			ctors = append(ctors, p.FnName(f))
			r.Instance(rule, "constructor "+p.FnName(f))
		}
	}
	r.Floor(rule+"(constructors)", len(ctors), 1)
	post := postConstruction(p, isCtor)
	t := NewTaint(p)
	t.rootValue = func(v ssa.Value) bool { return isT(v.Type()) }
	t.Run()
	r.Count("post_construction_functions", len(post))
	r.Count("font_derived_values", len(t.tainted))
	nmut := 0
	seen := map[string]bool{}
	per := map[string]int{}
	for _, f := range p.ModFns() {
		if !post[f] {
			continue
		}
		pk := strings.TrimPrefix(fnPkg(f).Path(), p.ModPath+"/")
		for _, m := range mutationsOf(f) {
			nmut++
			per[pk]++
			if !t.Is(m.target) {
				continue
			}
			if _, isAlloc := m.target.(*ssa.Alloc); isAlloc {
				continue
			}
			if al := localRoot(m.target); al != nil {
				continue
			}
			if strings.HasPrefix(m.what, "append") {
				// append to a font-derived slice writes shared memory only if the result may alias: flagged like the others
			}
			key := p.FnName(f)
			if seen[key] {
				continue
			}
			seen[key] = true
			r.Bad(rule, key, p.IPos(m.in), fmt.Sprintf("%s in %s, reachable after construction, targets memory derived from a *%s.%s: a parsed font is shared between goroutines", m.what, p.FnName(f), c.pkg, c.typ), t.Trace(m.target)...)
		}
	}
	r.Count("post_construction_mutation_sites", nmut)
	var pk []string
	for k := range per {
		pk = append(pk, k)
	}
	sort.Strings(pk)
	for _, k := range pk {
		bad := false
		for key := range seen {
			if strings.Contains(key, k+".") {
				bad = true
			}
		}
		if !bad {
			r.OK(rule, "package "+k, "-", fmt.Sprintf("%d mutation sites in functions reachable after construction; none targets font-derived memory", per[k]))
		}
	}
}

// rulePool: a function that takes an object out of a sync.Pool and puts it back (directly or deferred) returns nothing
// that is derived from that object: after the Put the next user of the pool owns the memory.
func rulePool(p *Prog, r *Report, floor int) {
	const rule = "R-POOL"
	isPool := func(f *ssa.Function, name string) bool {
		if f == nil || f.Name() != name || f.Signature.Recv() == nil {
			return false
		}
		n := namedOf(f.Signature.Recv().Type())
		return n != nil && n.Obj().Pkg() != nil && n.Obj().Pkg().Path() == "sync" && n.Obj().Name() == "Pool"
	}
	t := NewTaint(p)
	t.rootValue = func(v ssa.Value) bool {
		c, ok := v.(*ssa.Call)
		return ok && c.Parent() != nil && p.inModule(fnPkg(c.Parent())) && isPool(c.Common().StaticCallee(), "Get")
	}
	t.Run()
	n := 0
	for _, f := range p.ModFns() {
		gets, puts := 0, 0
		for _, b := range f.Blocks {
			for _, in := range b.Instrs {
				if c, ok := in.(ssa.CallInstruction); ok {
					if isPool(c.Common().StaticCallee(), "Get") {
						gets++
					}
					if isPool(c.Common().StaticCallee(), "Put") {
						puts++
					}
				}
			}
		}
		if gets == 0 || puts == 0 {
			continue
		}
		n++
		key := p.FnName(f)
		r.Instance(rule, key)
		bad := ""
		var path []string
		for _, b := range f.Blocks {
			for _, in := range b.Instrs {
				ret, ok := in.(*ssa.Return)
				if !ok {
					continue
				}
				for _, res := range ret.Results {
					if t.Is(res) {
						bad = p.IPos(ret)
						path = t.Trace(res)
					}
				}
			}
		}
		r.Check(bad == "", rule, key, p.Pos(f.Pos()), "nothing derived from the pooled object is returned by the function that puts it back"+pref(bad), path...)
	}
	r.Floor(rule, n, floor)
}

func controlsC17(cp *Prog, r *Report) {
	expectControl(r, "R-GLOBAL", func(cr *Report) { ruleGlobalIn(cp, cr, "shared") },
		"shared.SumBad/shared.scratch", "shared.CachedBad/shared.table", "shared.TweakBad/shared.lookup", "shared.BumpSharedBad/shared.shared")
	expectControl(r, "R-POOL", func(cr *Report) { rulePool(cp, cr, 1) }, "shared.LoadPooledBad")
	expectControl(r, "R-FONT", func(cr *Report) { ruleFont(cp, cr, fontCfg{pkg: "shared", typ: "Font"}) },
		"(*shared.Face).AdvanceMemoBad", "shared.side", "(*shared.Font).lazy", "shared.resolveBad")
	expectControl(r, "R-NOUNSAFE", func(cr *Report) {
		ruleNoUnsafe(cp, cr, map[string]bool{cp.pkgPath("reflw"): true, cp.pkgPath("reflr"): true})
	}, "imports/reflw")
}
