package main

// vsa — static verification driver for go-text/typesetting properties C01..C20.
//
//   vsa check <Cxx> [--tier quick|thorough] [--repo /repo]
//   vsa explain <replay.json>
//   vsa selftest
//
// Exit: 0 held, 1 + "VIOLATION property=<id> replay=<path>", 2 + "UNDECIDED ..." (analysis impossible).

import (
	"encoding/json"
	"fmt"
	"os"
	"runtime/debug"
	"sort"
	"strings"
)

const modPath = "github.com/go-text/typesetting"

type checkFn func(p *Prog, r *Report)

type propDef struct {
	id       string
	run      checkFn
	controls func(cp *Prog, r *Report) // positive controls: must fire on seeded, stay silent on clean twins
	thorough func(p *Prog, r *Report)  // extra work of the thorough tier
	noSSA    bool
}

var props = map[string]*propDef{}

func register(d *propDef) { props[d.id] = d }

func repoDir() string {
	if d := os.Getenv("VSA_REPO"); d != "" {
		return d
	}
	return "/repo"
}

func main() {
	if len(os.Args) < 2 {
		usage()
	}
	switch os.Args[1] {
	case "check":
		if len(os.Args) < 3 {
			usage()
		}
		id := os.Args[2]
		tier := os.Getenv("VERIF_TIER")
		repo := repoDir()
		for i := 3; i < len(os.Args); i++ {
			switch os.Args[i] {
			case "--tier":
				i++
				tier = os.Args[i]
			case "--repo":
				i++
				repo = os.Args[i]
			}
		}
		if tier != "thorough" {
			tier = "quick"
		}
		os.Exit(runCheck(id, tier, repo))
	case "explain":
		if len(os.Args) < 3 {
			usage()
		}
		b, err := os.ReadFile(os.Args[2])
		if err != nil {
			fmt.Println(err)
			os.Exit(2)
		}
		var m map[string]interface{}
		json.Unmarshal(b, &m)
		out, _ := json.MarshalIndent(m, "", "  ")
		fmt.Println(string(out))
		fmt.Println("re-run: vsa check", m["property"])
	case "selftest":
		os.Exit(runSelftest())
	case "list":
		var ids []string
		for id := range props {
			ids = append(ids, id)
		}
		sort.Strings(ids)
		fmt.Println(strings.Join(ids, " "))
	default:
		usage()
	}
}

func usage() {
	fmt.Fprintln(os.Stderr, "usage: vsa check <Cxx> [--tier quick|thorough] [--repo dir] | explain <replay.json> | selftest | list")
	os.Exit(2)
}

func controlsDir() string {
	return verifDir() + "/sa/testdata/ctl"
}

func loadControls() *Prog {
	return Load(LoadOpts{Dir: controlsDir(), Patterns: []string{"./..."}, ModPath: "ctl", MinPkgs: 1})
}

func runCheck(id, tier, repo string) (code int) {
	d := props[id]
	if d == nil {
		fmt.Fprintf(os.Stderr, "unknown or unclaimed property %s\n", id)
		return 2
	}
	os.Setenv("VSA_REPO_SHOWN", repo)
	r := NewReport(id, tier)
	defer func() {
		if e := recover(); e != nil {
			msg := ""
			if u, ok := e.(Undecided); ok {
				msg = u.Msg
			} else {
				msg = fmt.Sprintf("analyser panic: %v\n%s", e, debug.Stack())
			}
			code = r.Finish(msg)
		}
	}()
	if d.controls != nil {
		cp := loadControls()
		cr := NewReport(id, tier)
		d.controls(cp, cr)
		r.Controls = cr.Controls
	}
	p := Load(LoadOpts{Dir: repo, Patterns: []string{"./..."}, ModPath: modPath, MinPkgs: 13, NoSSA: d.noSSA})
	r.Count("packages", len(p.Pkgs))
	r.Count("source_files", p.GoFiles)
	if !d.noSSA {
		r.Count("functions", len(p.ModFns()))
	}
	d.run(p, r)
	if tier == "thorough" {
		thoroughCommon(p, r, d)
		if d.thorough != nil {
			d.thorough(p, r)
		}
	}
	return r.Finish("")
}

// expectControl runs a rule on the controls program into a scratch report and verifies that exactly the
// expected keys are violated (seeded twins fire, clean twins are silent).
func expectControl(r *Report, name string, run func(cr *Report), wantViolated ...string) {
	cr := NewReport(r.Prop, r.Tier)
	run(cr)
	got := map[string]bool{}
	for _, o := range cr.Violations() {
		got[o.Key] = true
	}
	want := map[string]bool{}
	for _, k := range wantViolated {
		want[k] = true
	}
	for k := range want {
		if !got[k] {
			undecided("positive control %s: the seeded violation %q was NOT reported (rule is blind)", name, k)
		}
	}
	for k := range got {
		if !want[k] {
			undecided("positive control %s: the clean construct %q was reported (rule is unsound)", name, k)
		}
	}
	if len(cr.Obls) == 0 {
		undecided("positive control %s generated no obligation", name)
	}
	r.Controls = append(r.Controls, fmt.Sprintf("%s: %d seeded violation(s) reported, %d clean obligation(s) silent", name, len(want), len(cr.Obls)-len(cr.Violations())))
}

func runSelftest() (code int) {
	defer func() {
		if e := recover(); e != nil {
			fmt.Println("selftest FAILED:", e)
			code = 1
		}
	}()
	cp := loadControls()
	var ids []string
	for id := range props {
		ids = append(ids, id)
	}
	sort.Strings(ids)
	for _, id := range ids {
		if props[id].controls == nil {
			continue
		}
		r := NewReport(id, "quick")
		props[id].controls(cp, r)
		for _, c := range r.Controls {
			fmt.Printf("%s %s\n", id, c)
		}
	}
	fmt.Println("selftest ok")
	return 0
}
