package main

// rrec.go — R-REC: every recursive SCC of the module must be justified by a structural termination
// argument that is re-derived from the code on every run; R-REC/fanout: recursion inside a loop needs a
// shared work budget in addition to a depth bound.

import (
	"fmt"
	"go/constant"
	"go/token"
	"go/types"
	"os"
	"sort"
	"strings"

	"golang.org/x/tools/go/ssa"
)

// ---- small SSA helpers ---------------------------------------------------------------------

func stripConv(v ssa.Value) ssa.Value {
	for {
		switch x := v.(type) {
		case *ssa.Convert:
			v = x.X
		case *ssa.ChangeType:
			v = x.X
		default:
			return v
		}
	}
}

func intConst(v ssa.Value) (int64, bool) {
	c, ok := stripConv(v).(*ssa.Const)
	if !ok || c.Value == nil {
		return 0, false
	}
	x := constant.ToInt(c.Value)
	if x.Kind() != constant.Int {
		return 0, false
	}
	return constant.Int64Val(x)
}

// inLoop: the block of the instruction lies on a CFG cycle.
func inLoop(in ssa.Instruction) bool {
	start := in.Block()
	seen := map[*ssa.BasicBlock]bool{}
	stack := append([]*ssa.BasicBlock{}, start.Succs...)
	for len(stack) > 0 {
		b := stack[len(stack)-1]
		stack = stack[:len(stack)-1]
		if b == start {
			return true
		}
		if seen[b] {
			continue
		}
		seen[b] = true
		stack = append(stack, b.Succs...)
	}
	return false
}

// guard describes a conditional on a counter: which successor is taken when the counter is exhausted.
type guard struct {
	iff           *ssa.If
	exhaustedTrue bool
}

// counterGuards finds the Ifs of fn that compare a value satisfying isCounter with a constant (or, when
// anyBound is set, with any value that is not itself a counter). decreasing tells the direction in which the
// counter moves along the recursion.
func counterGuards(fn *ssa.Function, isCounter func(ssa.Value) bool, decreasing bool) []guard {
	var out []guard
	for _, b := range fn.Blocks {
		iff := ifOf(b)
		if iff == nil {
			continue
		}
		bo, ok := iff.Cond.(*ssa.BinOp)
		if !ok {
			continue
		}
		op := bo.Op
		x, y := stripConv(bo.X), stripConv(bo.Y)
		var cnt bool
		if isCounter(x) && !isCounter(y) {
			cnt = true
		} else if isCounter(y) && !isCounter(x) {
			cnt = true
			// flip the operator so that the counter is on the left
			switch op {
			case token.LSS:
				op = token.GTR
			case token.LEQ:
				op = token.GEQ
			case token.GTR:
				op = token.LSS
			case token.GEQ:
				op = token.LEQ
			}
		}
		if !cnt {
			continue
		}
		var exhTrue bool
		switch op {
		case token.EQL:
			exhTrue = true
		case token.NEQ:
			exhTrue = false
		case token.LSS, token.LEQ: // counter small
			exhTrue = decreasing
		case token.GTR, token.GEQ: // counter large
			exhTrue = !decreasing
		default:
			continue
		}
		out = append(out, guard{iff, exhTrue})
	}
	return out
}

// guardedBy: the site is protected by guard g: g's test is on every path from the entry to the site and the
// site cannot be reached from g's exhausted edge without passing g's test again.
func guardedBy(p *Prog, fn *ssa.Function, site ssa.Instruction, g guard) bool {
	ok, _ := mustPrecede(p, fn, site, func(in ssa.Instruction) bool { return in == ssa.Instruction(g.iff) }, nil)
	if !ok {
		return false
	}
	idx := 1
	if g.exhaustedTrue {
		idx = 0
	}
	blk := g.iff.Block()
	if blk.Succs[0] == blk.Succs[1] {
		return false
	}
	hit, _ := reachableFrom(p, fn, point{blk.Succs[idx], 0},
		func(in ssa.Instruction) bool { return in == site },
		func(in ssa.Instruction) bool { return in == ssa.Instruction(g.iff) }, nil)
	return hit == nil
}

func guardedByAny(p *Prog, fn *ssa.Function, site ssa.Instruction, gs []guard) bool {
	for _, g := range gs {
		if guardedBy(p, fn, site, g) {
			return true
		}
	}
	return false
}

// fieldLoad: v is a load of field f through a pointer (shared state), returns the FieldAddr.
func isLoadOfField(v ssa.Value, f *types.Var) bool {
	v = stripConv(v)
	if u, ok := v.(*ssa.UnOp); ok && u.Op == token.MUL {
		return fieldOf(u.X) == f
	}
	return false
}

// stepStore: the instruction stores (load f ± positive const) into field f. Returns +1 for increment, -1 for decrement.
func stepStore(in ssa.Instruction, f *types.Var) int {
	st, ok := in.(*ssa.Store)
	if !ok || fieldOf(st.Addr) != f {
		return 0
	}
	bo, ok := stripConv(st.Val).(*ssa.BinOp)
	if !ok {
		return 0
	}
	if c, ok := intConst(bo.Y); ok && c > 0 && isLoadOfField(bo.X, f) {
		switch bo.Op {
		case token.ADD:
			return 1
		case token.SUB:
			return -1
		}
	}
	if c, ok := intConst(bo.X); ok && c > 0 && isLoadOfField(bo.Y, f) && bo.Op == token.ADD {
		return 1
	}
	return 0
}

// intFieldsTouched lists the integer fields loaded through pointers in fn (candidates for counters/budgets).
func intFieldsTouched(fn *ssa.Function) []*types.Var {
	seen := map[*types.Var]bool{}
	var out []*types.Var
	for _, b := range fn.Blocks {
		for _, in := range b.Instrs {
			fa, ok := in.(*ssa.FieldAddr)
			if !ok {
				continue
			}
			f := fieldOf(fa)
			if f == nil || seen[f] {
				continue
			}
			if bt, ok := f.Type().Underlying().(*types.Basic); ok && bt.Info()&types.IsInteger != 0 {
				seen[f] = true
				out = append(out, f)
			}
		}
	}
	sort.Slice(out, func(i, j int) bool { return out[i].Name() < out[j].Name() })
	return out
}

func internalSites(s *scc, caller *ssa.Function) []ssa.CallInstruction {
	seen := map[ssa.CallInstruction]bool{}
	var out []ssa.CallInstruction
	for _, e := range s.edges {
		if e.caller == caller && !seen[e.site] {
			seen[e.site] = true
			out = append(out, e.site)
		}
	}
	return out
}

// acyclicWithout: the SCC has no cycle once function g is removed.
func acyclicWithout(s *scc, g *ssa.Function) bool {
	adj := map[*ssa.Function][]*ssa.Function{}
	for _, e := range s.edges {
		if e.caller != g && e.callee != g {
			adj[e.caller] = append(adj[e.caller], e.callee)
		}
	}
	state := map[*ssa.Function]int{}
	var visit func(f *ssa.Function) bool
	visit = func(f *ssa.Function) bool {
		switch state[f] {
		case 1:
			return false
		case 2:
			return true
		}
		state[f] = 1
		for _, h := range adj[f] {
			if !visit(h) {
				return false
			}
		}
		state[f] = 2
		return true
	}
	for _, f := range s.fns {
		if f != g && !visit(f) {
			return false
		}
	}
	return true
}

// ---- justifications -----------------------------------------------------------------------------

// justDepthField: a guard function G through which every cycle passes; an integer field F stepped monotonically
// before each internal call of G, compared with a bound, the internal calls unreachable from the exhausted edge;
// no other function of the SCC stores F.
func justDepthField(p *Prog, s *scc) (string, bool) {
	for _, g := range s.fns {
		sites := internalSites(s, g)
		if len(sites) == 0 || !acyclicWithout(s, g) {
			continue
		}
		for _, f := range intFieldsTouched(g) {
			dir := 0
			okAll := true
			for _, site := range sites {
				var d int
				ok, _ := mustPrecede(p, g, site, func(in ssa.Instruction) bool {
					if x := stepStore(in, f); x != 0 {
						d = x
						return true
					}
					return false
				}, nil)
				if !ok || d == 0 || (dir != 0 && dir != d) {
					okAll = false
					break
				}
				dir = d
			}
			if !okAll {
				continue
			}
			gs := counterGuards(g, func(v ssa.Value) bool { return isLoadOfField(v, f) }, dir < 0)
			for _, site := range sites {
				if !guardedByAny(p, g, site, gs) {
					okAll = false
				}
			}
			if !okAll {
				continue
			}
			// other stores to F inside the SCC must be absent (the guard function may restore it)
			for _, h := range s.fns {
				if h == g {
					continue
				}
				for _, b := range h.Blocks {
					for _, in := range b.Instrs {
						if storesField(in, f) {
							okAll = false
						}
					}
				}
			}
			if okAll {
				return fmt.Sprintf("depth guard: every cycle passes %s; field %s is stepped before each recursive call and the calls are unreachable from the exhausted edge of its bound test", p.FnName(g), f.Name()), true
			}
		}
	}
	return "", false
}

// justDepthParam: self recursion; an integer parameter is stepped by a positive constant in every recursive
// call and each call is unreachable from the exhausted edge of a test of that parameter.
func justDepthParam(p *Prog, s *scc) (string, bool) {
	if len(s.fns) != 1 {
		return "", false
	}
	fn := s.fns[0]
	sites := internalSites(s, fn)
	for k, prm := range fn.Params {
		bt, ok := prm.Type().Underlying().(*types.Basic)
		if !ok || bt.Info()&types.IsInteger == 0 {
			continue
		}
		dir := 0
		okAll := true
		for _, site := range sites {
			args := site.Common().Args
			if site.Common().IsInvoke() || k >= len(args) {
				okAll = false
				break
			}
			bo, ok := stripConv(args[k]).(*ssa.BinOp)
			if !ok || stripConv(bo.X) != ssa.Value(prm) {
				okAll = false
				break
			}
			c, okc := intConst(bo.Y)
			d := 0
			if okc && c > 0 && bo.Op == token.ADD {
				d = 1
			} else if okc && c > 0 && bo.Op == token.SUB {
				d = -1
			}
			if d == 0 || (dir != 0 && d != dir) {
				okAll = false
				break
			}
			dir = d
		}
		if !okAll || dir == 0 {
			continue
		}
		gs := counterGuards(fn, func(v ssa.Value) bool { return v == ssa.Value(prm) }, dir < 0)
		for _, site := range sites {
			if !guardedByAny(p, fn, site, gs) {
				okAll = false
			}
		}
		if okAll {
			return fmt.Sprintf("depth guard: parameter %s is stepped by a constant in every recursive call and the calls are unreachable from the exhausted edge of its bound test", prm.Name()), true
		}
	}
	return "", false
}

// sameAddr: two address expressions denote the same location syntactically (FieldAddr / IndexAddr chains over
// the same SSA values).
func sameAddr(a, b ssa.Value) bool {
	if a == b {
		return true
	}
	switch x := a.(type) {
	case *ssa.FieldAddr:
		y, ok := b.(*ssa.FieldAddr)
		return ok && x.Field == y.Field && sameAddr(x.X, y.X)
	case *ssa.IndexAddr:
		y, ok := b.(*ssa.IndexAddr)
		return ok && x.X == y.X && x.Index == y.Index
	}
	return false
}

// justDelegation: a method that calls itself only through a field F of its own receiver (a wrapper delegating to the object
// it wraps, reached through an interface). F is assigned, in the whole module, only (a) while the object that holds it is
// being built — a store into a freshly allocated object of a value that does not come from that object — or (b) with nil.
// An object's F therefore always designates an object that existed before it: the chain of F links is acyclic and the
// recursion depth is the finite nesting depth of the wrappers.
func justDelegation(p *Prog, s *scc) (string, bool) {
	if len(s.fns) != 1 {
		return "", false
	}
	fn := s.fns[0]
	if fn.Signature.Recv() == nil || len(fn.Params) == 0 {
		return "", false
	}
	recv := fn.Params[0]
	var fld *types.Var
	for _, site := range internalSites(s, fn) {
		c := site.Common()
		var rv ssa.Value
		if c.IsInvoke() {
			rv = c.Value
		} else if len(c.Args) > 0 {
			rv = c.Args[0]
		}
		ld, ok := rv.(*ssa.UnOp)
		if !ok || ld.Op != token.MUL {
			return "", false
		}
		fa, ok := ld.X.(*ssa.FieldAddr)
		if !ok || fa.X != ssa.Value(recv) {
			return "", false
		}
		f := fieldOf(fa)
		if f == nil || fld != nil && fld != f {
			return "", false
		}
		fld = f
	}
	if fld == nil {
		return "", false
	}
	for _, g := range p.ModFns() {
		for _, b := range g.Blocks {
			for _, in := range b.Instrs {
				st, ok := in.(*ssa.Store)
				if !ok || fieldOf(st.Addr) != fld {
					continue
				}
				if c, isC := st.Val.(*ssa.Const); isC && c.Value == nil {
					continue
				}
				fa := st.Addr.(*ssa.FieldAddr)
				al, isAlloc := fa.X.(*ssa.Alloc)
				if !isAlloc {
					return "", false
				}
				// the stored value must not come from the object being built
				if derivesFrom(st.Val, func(v ssa.Value) bool { return v == ssa.Value(al) }, 0) {
					return "", false
				}
			}
		}
	}
	return fmt.Sprintf("delegation through the field %s of the receiver, which is only assigned while its object is built (to an object that already exists) or with nil: the chain of wrappers is acyclic and finite", fld.Name()), true
}

// justConsumeMarker: linear self recursion (single site, not in a loop); the datum that selects the next
// activation is a field M of an element addressed from parameters; it is zeroed on every path to the call, and
// the call is unreachable from the "== 0" edge of a test of a value loaded from that same location.
func justConsumeMarker(p *Prog, s *scc) (string, bool) {
	if len(s.fns) != 1 {
		return "", false
	}
	fn := s.fns[0]
	sites := internalSites(s, fn)
	if len(sites) != 1 || inLoop(sites[0]) {
		return "", false
	}
	site := sites[0]
	// candidate zeroing stores
	for _, b := range fn.Blocks {
		for _, in := range b.Instrs {
			st, ok := in.(*ssa.Store)
			if !ok {
				continue
			}
			c, okc := intConst(st.Val)
			fa, okf := st.Addr.(*ssa.FieldAddr)
			if !okc || c != 0 || !okf {
				continue
			}
			if _, isIdx := fa.X.(*ssa.IndexAddr); !isIdx {
				continue
			}
			ok2, _ := mustPrecede(p, fn, site, func(x ssa.Instruction) bool { return x == in }, nil)
			if !ok2 {
				continue
			}
			isMarker := func(v ssa.Value) bool {
				u, ok := stripConv(v).(*ssa.UnOp)
				return ok && u.Op == token.MUL && sameAddr(u.X, st.Addr)
			}
			var gs []guard
			for _, g := range counterGuards(fn, isMarker, true) {
				// only "== 0" / "!= 0" tests
				bo := g.iff.Cond.(*ssa.BinOp)
				if bo.Op != token.EQL && bo.Op != token.NEQ {
					continue
				}
				cx, okx := intConst(bo.X)
				cy, oky := intConst(bo.Y)
				if (okx && cx == 0) || (oky && cy == 0) {
					gs = append(gs, g)
				}
			}
			if guardedByAny(p, fn, site, gs) {
				f := fieldOf(fa)
				return fmt.Sprintf("consume-marker: %s of the selected element is zeroed on every path to the single recursive call, which is unreachable when the marker is already zero", f.Name()), true
			}
		}
	}
	return "", false
}

// derivesFrom: v depends (through pure value operations) on a value satisfying pred.
func derivesFrom(v ssa.Value, pred func(ssa.Value) bool, depth int) bool {
	if depth > 12 {
		return false
	}
	if pred(v) {
		return true
	}
	switch x := v.(type) {
	case *ssa.BinOp:
		return derivesFrom(x.X, pred, depth+1) || derivesFrom(x.Y, pred, depth+1)
	case *ssa.UnOp:
		if x.Op != token.MUL {
			return derivesFrom(x.X, pred, depth+1)
		}
	case *ssa.Convert:
		return derivesFrom(x.X, pred, depth+1)
	case *ssa.ChangeType:
		return derivesFrom(x.X, pred, depth+1)
	case *ssa.Phi:
		for _, e := range x.Edges {
			if derivesFrom(e, pred, depth+1) {
				return true
			}
		}
	case *ssa.Extract:
		return derivesFrom(x.Tuple, pred, depth+1)
	case *ssa.Call:
		// value-level calls (builtins such as min/max, or static helpers): the result depends on the arguments
		if _, isB := x.Common().Value.(*ssa.Builtin); isB || x.Common().StaticCallee() != nil {
			for _, a := range x.Common().Args {
				if derivesFrom(a, pred, depth+1) {
					return true
				}
			}
		}
	}
	return false
}

// justProgressField: linear self recursion; a field of shared state is stepped on every path to the call and
// the call is guarded by a condition computed from that field.
func justProgressField(p *Prog, s *scc) (string, bool) {
	if len(s.fns) != 1 {
		return "", false
	}
	fn := s.fns[0]
	sites := internalSites(s, fn)
	if len(sites) != 1 || inLoop(sites[0]) {
		return "", false
	}
	site := sites[0]
	for _, f := range intFieldsTouched(fn) {
		ok, _ := mustPrecede(p, fn, site, func(in ssa.Instruction) bool { return stepStore(in, f) != 0 }, nil)
		if !ok {
			continue
		}
		// some If on a value derived from a load of f dominates the site with one edge not reaching it
		for _, b := range fn.Blocks {
			iff := ifOf(b)
			if iff == nil || !derivesFrom(iff.Cond, func(v ssa.Value) bool { return isLoadOfField(v, f) }, 0) {
				continue
			}
			for _, exh := range []bool{true, false} {
				if guardedBy(p, fn, site, guard{iff, exh}) {
					return fmt.Sprintf("progress: field %s is stepped on every path to the single recursive call, which is conditional on a value computed from it", f.Name()), true
				}
			}
		}
	}
	return "", false
}

// mustStepField: on every path from entry to a normal exit of fn, some field is stepped; returns it.
func mustStepField(p *Prog, fn *ssa.Function) *types.Var {
	if fn == nil || fn.Blocks == nil {
		return nil
	}
	for _, f := range intFieldsTouched(fn) {
		ok, _ := mustFollow(p, fn, entryPoint(fn), func(in ssa.Instruction) bool { return stepStore(in, f) > 0 })
		if ok {
			return f
		}
	}
	return nil
}

// justProgressCall: linear self recursion on the same receiver; a call to a helper that steps a field on all its
// paths precedes the recursive call, which is unreachable from the false edge of the helper's boolean result.
func justProgressCall(p *Prog, s *scc) (string, bool) {
	if len(s.fns) != 1 {
		return "", false
	}
	fn := s.fns[0]
	sites := internalSites(s, fn)
	if len(sites) != 1 || inLoop(sites[0]) {
		return "", false
	}
	site := sites[0]
	for _, b := range fn.Blocks {
		for _, in := range b.Instrs {
			call, ok := in.(*ssa.Call)
			if !ok || call == site.(ssa.Instruction) {
				continue
			}
			callee := call.Common().StaticCallee()
			if callee == nil || callee == fn {
				continue
			}
			f := mustStepField(p, callee)
			if f == nil {
				continue
			}
			iff := ifOf(call.Block())
			if iff == nil || iff.Cond != ssa.Value(call) {
				continue
			}
			if guardedBy(p, fn, site, guard{iff, false}) {
				return fmt.Sprintf("progress: %s steps field %s on all its paths, is called on every path to the single recursive call, and the call is unreachable when it reports exhaustion", p.FnName(callee), f.Name()), true
			}
		}
	}
	return "", false
}

// ---- well-founded argument: recursion on a value produced by a finite map --------------------------

// justOffsetOutOfGuard: self recursion `f(K + x)` that is reachable only when `x <= B` with K > B and K+x cannot
// wrap: the recursive activation fails the guard.
func justOffsetOutOfGuard(p *Prog, s *scc) (string, bool) {
	if len(s.fns) != 1 {
		return "", false
	}
	fn := s.fns[0]
	sites := internalSites(s, fn)
	if len(sites) != 1 || inLoop(sites[0]) {
		return "", false
	}
	site := sites[0]
	args := site.Common().Args
	for k, prm := range fn.Params {
		if k >= len(args) {
			continue
		}
		bo, ok := stripConv(args[k]).(*ssa.BinOp)
		if !ok || bo.Op != token.ADD {
			continue
		}
		var K int64
		var okc bool
		if stripConv(bo.Y) == ssa.Value(prm) {
			K, okc = intConst(bo.X)
		} else if stripConv(bo.X) == ssa.Value(prm) {
			K, okc = intConst(bo.Y)
		}
		if !okc {
			continue
		}
		for _, b := range fn.Blocks {
			iff := ifOf(b)
			if iff == nil {
				continue
			}
			cmp, ok := iff.Cond.(*ssa.BinOp)
			if !ok || stripConv(cmp.X) != ssa.Value(prm) {
				continue
			}
			B, okb := intConst(cmp.Y)
			if !okb {
				continue
			}
			var exh guard
			switch cmp.Op {
			case token.LEQ: // recursion only when prm <= B
				exh = guard{iff, false}
			case token.LSS:
				exh = guard{iff, false}
				B--
			case token.GTR:
				exh = guard{iff, true}
			case token.GEQ:
				exh = guard{iff, true}
				B--
			default:
				continue
			}
			// the recursive argument K+x > B for every x >= min of the type; for signed x only x <= B is known,
			// so additionally need K + x > B for x in [?, B]: holds for x >= 0; negative x: K+x may be <= B but then
			// K+x is still > x, and after at most one more step it exceeds B. Require K > B and K > 0.
			if K > B && K > 0 && guardedBy(p, fn, site, exh) {
				return fmt.Sprintf("well-founded: recursion on %d+%s only when %s <= %d, so the argument strictly increases beyond the guard bound", K, prm.Name(), prm.Name(), B), true
			}
		}
	}
	return "", false
}

// ---- driver ------------------------------------------------------------------------------------------------

type recJust func(p *Prog, s *scc) (string, bool)

// R-REC over all recursive SCCs whose functions belong to the given packages (nil = all).
// extra lets a property plug in table-based justifications (P-LIT) keyed by SCC name.
func ruleRec(p *Prog, r *Report, floor int, extra map[string]recJust) {
	ruleRecFiltered(p, r, floor, extra, "")
}

// ruleRecIn restricts the rule to SCCs whose first function belongs to the given package (controls).
func ruleRecIn(p *Prog, r *Report, floor int, pkg string) { ruleRecFiltered(p, r, floor, nil, pkg) }

func ruleRecFiltered(p *Prog, r *Report, floor int, extra map[string]recJust, onlyPkg string) {
	const rule = "R-REC"
	sccs := recursiveSCCs(p)
	if onlyPkg != "" {
		var keep []*scc
		for _, s := range sccs {
			if pk := fnPkg(s.fns[0]); pk != nil && pk.Path() == p.pkgPath(onlyPkg) {
				keep = append(keep, s)
			}
		}
		sccs = keep
	}
	r.Floor(rule, len(sccs), floor)
	r.Count("recursive_sccs", len(sccs))
	justs := []recJust{justDepthParam, justDepthField, justConsumeMarker, justProgressCall, justProgressField, justOffsetOutOfGuard, justMapImageOutsideDomain, justDecomposition, justDelegation}
	for _, s := range sccs {
		key := s.name
		r.Instance(rule, key)
		pos := p.Pos(s.fns[0].Pos())
		var how string
		ok := false
		if ex := extra[key]; ex != nil {
			how, ok = ex(p, s)
		}
		for _, j := range justs {
			if ok {
				break
			}
			how, ok = j(p, s)
		}
		var path []string
		for _, e := range s.edges {
			path = append(path, fmt.Sprintf("%s -> %s at %s", p.FnName(e.caller), p.FnName(e.callee), p.IPos(e.site)))
			if len(path) > 12 {
				path = append(path, "...")
				break
			}
		}
		if ok {
			if os.Getenv("VSA_DEBUG_REC") != "" {
				fmt.Printf("REC %s: %s\n", key, how)
			}
			r.OK(rule, key, pos, fmt.Sprintf("%d function(s), %d recursive edge(s): %s", len(s.fns), len(s.edges), how))
		} else {
			r.Bad(rule, key, pos, fmt.Sprintf("recursion over %d function(s) has no structural termination argument (depth guard whose exhausted edge cannot reach the recursive call, consume-marker, progress, or well-founded table)", len(s.fns)), path...)
		}
		// fan-out
		var loopSites []recEdge
		for _, e := range s.edges {
			if inLoop(e.site) {
				loopSites = append(loopSites, e)
			}
		}
		if len(loopSites) > 0 {
			fkey := key + "/fanout"
			r.Instance(rule+"/fanout", fkey)
			how, okb := workBudget(p, s)
			if okb {
				r.OK(rule+"/fanout", fkey, pos, how)
			} else {
				var lp []string
				for _, e := range loopSites {
					lp = append(lp, fmt.Sprintf("recursive call inside a loop: %s -> %s at %s", p.FnName(e.caller), p.FnName(e.callee), p.IPos(e.site)))
				}
				r.Bad(rule+"/fanout", fkey, pos, "recursion inside a loop is bounded in depth only (work grows as fanout^depth): no shared work budget is decremented on every path to the recursive call and tested with an exit", lp...)
			}
		}
	}
}

// workBudget: some function G of the SCC through which every cycle passes steps down a field reached through a
// pointer on every path to its internal calls, and those calls are unreachable from the exhausted edge of a test
// of that field.
func workBudget(p *Prog, s *scc) (string, bool) {
	for _, g := range s.fns {
		sites := internalSites(s, g)
		if len(sites) == 0 || !acyclicWithout(s, g) {
			continue
		}
		for _, f := range intFieldsTouched(g) {
			okAll := true
			for _, site := range sites {
				ok, _ := mustPrecede(p, g, site, func(in ssa.Instruction) bool { return stepStore(in, f) < 0 }, nil)
				if !ok {
					okAll = false
					break
				}
			}
			if !okAll {
				continue
			}
			// the budget must not be restored after the call (a depth counter is, a work budget is not)
			restored := false
			for _, b := range g.Blocks {
				for _, in := range b.Instrs {
					if stepStore(in, f) > 0 {
						restored = true
					}
				}
			}
			if restored {
				continue
			}
			gs := counterGuards(g, func(v ssa.Value) bool { return isLoadOfField(v, f) }, true)
			for _, site := range sites {
				if !guardedByAny(p, g, site, gs) {
					okAll = false
				}
			}
			if okAll {
				return fmt.Sprintf("work budget: %s decrements %s on every path to its recursive calls, never restores it, and the calls are unreachable once it is exhausted", p.FnName(g), f.Name()), true
			}
		}
	}
	// the budget may also be an integer behind a pointer PARAMETER that every internal call passes on unchanged
	for _, g := range s.fns {
		sites := internalSites(s, g)
		if len(sites) == 0 || !acyclicWithout(s, g) || len(s.fns) != 1 {
			continue
		}
		for pi, prm := range g.Params {
			pt, ok := prm.Type().Underlying().(*types.Pointer)
			if !ok {
				continue
			}
			if b, ok := pt.Elem().Underlying().(*types.Basic); !ok || b.Info()&types.IsInteger == 0 {
				continue
			}
			isLoad := func(v ssa.Value) bool {
				u, ok := stripConv(v).(*ssa.UnOp)
				return ok && u.Op == token.MUL && u.X == ssa.Value(prm)
			}
			step := func(in ssa.Instruction) int {
				st, ok := in.(*ssa.Store)
				if !ok || st.Addr != ssa.Value(prm) {
					return 0
				}
				bo, ok := stripConv(st.Val).(*ssa.BinOp)
				if !ok {
					return 2 // any other store: not a pure budget
				}
				if c, ok := intConst(bo.Y); ok && c > 0 && isLoad(bo.X) {
					switch bo.Op {
					case token.SUB:
						return -1
					case token.ADD:
						return 1
					}
				}
				return 2
			}
			okAll := true
			for _, site := range sites {
				// passed on unchanged
				args := site.Common().Args
				if pi >= len(args) || args[pi] != ssa.Value(prm) {
					okAll = false
					break
				}
				ok, _ := mustPrecede(p, g, site, func(in ssa.Instruction) bool { return step(in) == -1 }, nil)
				if !ok {
					okAll = false
					break
				}
			}
			if !okAll {
				continue
			}
			for _, b := range g.Blocks {
				for _, in := range b.Instrs {
					if st := step(in); st > 0 {
						okAll = false
					}
				}
			}
			if !okAll {
				continue
			}
			gs := counterGuards(g, isLoad, true)
			for _, site := range sites {
				if !guardedByAny(p, g, site, gs) {
					okAll = false
				}
			}
			if okAll {
				return fmt.Sprintf("work budget: %s decrements the integer behind its parameter %s on every path to its recursive calls, passes the same pointer on, never restores it, and the calls are unreachable once it is exhausted", p.FnName(g), prm.Name()), true
			}
		}
	}
	return "", false
}

func sccNames(ss []*scc) string {
	var n []string
	for _, s := range ss {
		n = append(n, s.name)
	}
	return strings.Join(n, ", ")
}
