package main

// porg.go — P-ORG: origin (taint) tracking of reference-carrying values derived from designated roots.
// Context-insensitive, flow-insensitive inside a function (SSA gives def-use precision), field-based for the heap,
// allocation-site aware for locals, per-result-index on returns.

import (
	"go/token"
	"go/types"

	"golang.org/x/tools/go/ssa"
)

// carriesRef: values of this type can reference shared memory.
func carriesRef(t types.Type) bool { return carriesRefD(t, 0) }

// carries: in data-dependence mode every value is tracked, otherwise only reference-carrying ones.
func (t *Taint) carries(ty types.Type) bool { return t.values || carriesRef(ty) }

func carriesRefD(t types.Type, d int) bool {
	if d > 6 {
		return true
	}
	switch u := t.Underlying().(type) {
	case *types.Pointer, *types.Slice, *types.Map, *types.Chan, *types.Signature, *types.Interface:
		return true
	case *types.Struct:
		for i := 0; i < u.NumFields(); i++ {
			if carriesRefD(u.Field(i).Type(), d+1) {
				return true
			}
		}
	case *types.Array:
		return carriesRefD(u.Elem(), d+1)
	case *types.Tuple:
		for i := 0; i < u.Len(); i++ {
			if carriesRefD(u.At(i).Type(), d+1) {
				return true
			}
		}
	}
	return false
}

type taintWhy struct {
	from ssa.Value       // predecessor value (same function) or nil
	note string          // "root", "param of call at ...", "field T.f", ...
	site ssa.Instruction // where the flow happened (call / store)
}

type Taint struct {
	p *Prog
	// configuration
	values     bool                         // data-dependence mode: track every value, through arithmetic and external calls too
	scope      map[*ssa.Function]bool       // when set, only these functions take part (local dependence analysis)
	Ctrl       map[*ssa.Function]bool       // data-dependence mode: functions with a branch on a derived value
	rootValue  func(v ssa.Value) bool       // v itself is a root (e.g. of type *font.Font, a Global address)
	quiet      func(f *ssa.Function) bool   // functions from which no flow leaves (calls / stores made there are ignored): init-only, constructors
	sanitize   func(v ssa.Value) bool       // values that cut the flow (fresh copies)
	noCallee   func(f *ssa.Function) bool   // callees that never retain or return their arguments (trusted externals default: all body-less functions return-taint if any arg tainted? no: see externalReturns)
	extReturn  func(c *ssa.CallCommon) bool // body-less callee: does the result alias an argument? default false
	tainted    map[ssa.Value]*taintWhy
	// holders: pointers to memory that is NOT owned by a root (a local copy of a struct, a local array) but in which a
	// derived reference has been stored: a load through a holder may yield that reference; a store through it is harmless
	holders  map[ssa.Value]*taintWhy
	holdWork []ssa.Value
	fieldT     map[*types.Var]*taintWhy // heap: field of non-local object holds a tainted reference
	globalT    map[*ssa.Global]*taintWhy
	elemT      map[types.Type]bool // not used
	work       []ssa.Value
	resultT    map[*ssa.Function]map[int]bool
	paramUses  map[*ssa.Function]bool
	fns        []*ssa.Function
	instrsOf   map[*ssa.Function]bool
	globalUses map[*ssa.Global][]ssa.Instruction
	ix         *taintIndex
	doneField  map[*types.Var]bool
	doneGlobal map[*ssa.Global]bool
	doneResult map[*ssa.Function]map[int]bool
}

func NewTaint(p *Prog) *Taint {
	return &Taint{p: p, holders: map[ssa.Value]*taintWhy{}, tainted: map[ssa.Value]*taintWhy{}, fieldT: map[*types.Var]*taintWhy{}, globalT: map[*ssa.Global]*taintWhy{},
		resultT: map[*ssa.Function]map[int]bool{}, Ctrl: map[*ssa.Function]bool{}}
}

func (t *Taint) mark(v ssa.Value, why *taintWhy) {
	if v == nil {
		return
	}
	if _, ok := t.tainted[v]; ok {
		return
	}
	if t.sanitize != nil && t.sanitize(v) {
		return
	}
	t.tainted[v] = why
	t.work = append(t.work, v)
}

func (t *Taint) Is(v ssa.Value) bool { _, ok := t.tainted[v]; return ok }

// isLocalObject: the address expression is rooted in an allocation made in the same function (fresh object), following
// FieldAddr/IndexAddr chains on the address itself (not through loads).
func localRoot(addr ssa.Value) *ssa.Alloc {
	for {
		switch x := addr.(type) {
		case *ssa.FieldAddr:
			addr = x.X
		case *ssa.IndexAddr:
			// IndexAddr on a pointer-to-array keeps the object; on a slice the backing array is another object
			if _, isPtr := x.X.Type().Underlying().(*types.Pointer); isPtr {
				addr = x.X
			} else {
				return nil
			}
		case *ssa.Alloc:
			return x
		default:
			return nil
		}
	}
}

// Run propagates taint to a fixpoint over all module functions.
func (t *Taint) Run() {
	p := t.p
	t.fns = p.ModFns()
	if t.scope != nil {
		var keep []*ssa.Function
		for _, f := range t.fns {
			if t.scope[f] {
				keep = append(keep, f)
			}
		}
		t.fns = keep
	}
	// seed roots
	for _, f := range t.fns {
		for _, prm := range f.Params {
			if t.rootValue(prm) {
				t.mark(prm, &taintWhy{note: "root"})
			}
		}
		for _, fv := range f.FreeVars {
			if t.rootValue(fv) {
				t.mark(fv, &taintWhy{note: "root"})
			}
		}
		for _, b := range f.Blocks {
			for _, in := range b.Instrs {
				if v, ok := in.(ssa.Value); ok && t.rootValue(v) {
					t.mark(v, &taintWhy{note: "root"})
				}
				// operands that are roots but not instructions (Globals)
				for _, op := range in.Operands(nil) {
					if *op != nil {
						if g, ok := (*op).(*ssa.Global); ok && t.rootValue(g) {
							t.mark(g, &taintWhy{note: "root"})
						}
					}
				}
			}
		}
	}
	// the Global values are shared objects: referrers are not recorded for them; handle by scanning
	globalsSeen := map[*ssa.Global]bool{}
	changed := true
	for changed {
		changed = false
		for len(t.work) > 0 {
			v := t.work[len(t.work)-1]
			t.work = t.work[:len(t.work)-1]
			if g, ok := v.(*ssa.Global); ok {
				if !globalsSeen[g] {
					globalsSeen[g] = true
					t.scanGlobalUses(g)
				}
				continue
			}
			t.flowFrom(v)
		}
		for len(t.holdWork) > 0 {
			h := t.holdWork[len(t.holdWork)-1]
			t.holdWork = t.holdWork[:len(t.holdWork)-1]
			t.flowHolder(h)
			changed = changed || len(t.work) > 0
		}
		if len(t.work) > 0 {
			continue
		}
		// heap / global / result summaries feed loads & calls anywhere: rescan (cheap enough)
		if t.applySummaries() {
			changed = true
		}
	}
}

func (t *Taint) scanGlobalUses(g *ssa.Global) {
	if t.globalUses == nil {
		t.globalUses = map[*ssa.Global][]ssa.Instruction{}
		for _, f := range t.fns {
			for _, b := range f.Blocks {
				for _, in := range b.Instrs {
					for _, op := range in.Operands(nil) {
						if gg, ok := (*op).(*ssa.Global); ok {
							t.globalUses[gg] = append(t.globalUses[gg], in)
						}
					}
				}
			}
		}
	}
	for _, in := range t.globalUses[g] {
		t.flowInto(g, in)
	}
}

func (t *Taint) flowFrom(v ssa.Value) {
	refs := v.Referrers()
	if refs == nil {
		return
	}
	for _, in := range *refs {
		t.flowInto(v, in)
	}
}

// flowInto: v is tainted and is an operand of in.
func (t *Taint) flowInto(v ssa.Value, in ssa.Instruction) {
	fn := in.Parent()
	why := func(note string) *taintWhy { return &taintWhy{from: v, note: note, site: in} }
	switch x := in.(type) {
	case *ssa.FieldAddr:
		t.mark(x, why(""))
	case *ssa.IndexAddr:
		if x.X == v {
			t.mark(x, why(""))
		}
	case *ssa.Field:
		if t.carries(x.Type()) {
			t.mark(x, why(""))
		}
	case *ssa.Index:
		if x.X == v && t.carries(x.Type()) {
			t.mark(x, why(""))
		}
	case *ssa.Lookup:
		if x.X == v && t.carries(x.Type()) {
			t.mark(x, why(""))
		}
	case *ssa.Slice:
		if x.X == v {
			t.mark(x, why(""))
		}
	case *ssa.UnOp:
		if x.Op == token.MUL {
			// load through a tainted address: the loaded value is derived if it can carry a reference
			if t.carries(x.Type()) {
				t.mark(x, why(""))
			}
		} else if t.values {
			t.mark(x, why(""))
		}
	case *ssa.Phi, *ssa.ChangeType, *ssa.Convert, *ssa.ChangeInterface, *ssa.MakeInterface, *ssa.SliceToArrayPointer:
		if t.carries(x.(ssa.Value).Type()) {
			t.mark(x.(ssa.Value), why(""))
		}
	case *ssa.TypeAssert:
		if t.carries(x.Type()) {
			t.mark(x, why(""))
		}
	case *ssa.BinOp:
		if t.values {
			t.mark(x, why(""))
		}
	case *ssa.Extract:
		// only the tainted result indices (set by call handling); an Extract of a tainted tuple from a non-call (Lookup with ok, TypeAssert ok, range) carries it
		if _, isCall := x.Tuple.(*ssa.Call); !isCall && t.carries(x.Type()) {
			t.mark(x, why(""))
		}
	case *ssa.Range:
		t.mark(x, why(""))
	case *ssa.Next:
		t.mark(x, why(""))
	case *ssa.MakeClosure:
		// binding -> free variable of the closure
		if cf, ok := x.Fn.(*ssa.Function); ok {
			for i, b := range x.Bindings {
				if b == v && i < len(cf.FreeVars) {
					t.mark(cf.FreeVars[i], why("closure binding"))
				}
			}
		}
		t.mark(x, why(""))
	case *ssa.Store:
		if x.Val == v {
			if t.quiet != nil && t.quiet(fn) {
				return
			}
			t.storeInto(x.Addr, v, in)
		}
	case *ssa.MapUpdate:
		// a derived reference stored as element of a map that is not itself derived: containers are not followed
		// (documented assumption); roots are re-discovered by type when they are loaded back.
	case *ssa.Return:
		if t.quiet != nil && t.quiet(fn) {
			return
		}
		for i, rv := range x.Results {
			if rv == v {
				m := t.resultT[fn]
				if m == nil {
					m = map[int]bool{}
					t.resultT[fn] = m
				}
				m[i] = true
			}
		}
	case *ssa.If:
		// data-dependence mode: a branch on a derived value makes everything the function returns (and stores, see Ctrl)
		// depend on it — coarse control dependence
		if t.values && fn != nil && !t.Ctrl[fn] {
			t.Ctrl[fn] = true
			n := fn.Signature.Results().Len()
			m := t.resultT[fn]
			if m == nil {
				m = map[int]bool{}
				t.resultT[fn] = m
			}
			for i := 0; i < n; i++ {
				m[i] = true
			}
		}
	case ssa.CallInstruction:
		if t.quiet != nil && t.quiet(fn) {
			return
		}
		t.flowCall(v, x)
	}
}

// storeInto: a tainted value is stored at addr.
func (t *Taint) storeInto(addr ssa.Value, v ssa.Value, site ssa.Instruction) {
	why := &taintWhy{from: v, note: "stored", site: site}
	switch a := addr.(type) {
	case *ssa.Global:
		if _, ok := t.globalT[a]; !ok {
			t.globalT[a] = why
		}
		return
	case *ssa.Alloc:
		// spilled local: loads of the alloc, and of any field path inside it, see the stored (struct) value
		t.markLoadsDeep(a, why, 0)
		t.markHolder(a, why)
		return
	case *ssa.FieldAddr:
		f := fieldOf(a)
		if al := localRoot(a); al != nil && !al.Heap {
			// field of a stack local: track precisely through the alloc's field loads
			t.markFieldLoadsOf(al, a.Field, why)
			t.markHolder(al, why)
			return
		}
		if f != nil {
			if _, ok := t.fieldT[f]; !ok {
				t.fieldT[f] = why
			}
		}
		return
	case *ssa.IndexAddr:
		// element of a local array (composite literal under construction): loads of the array see it
		if al := localRoot(a); al != nil {
			t.markLoadsDeep(al, why, 0)
			t.markHolder(al, why)
		}
	default:
		// element of a container (IndexAddr on a slice), store through a loaded pointer, parameter pointee, ...:
		// containers that are not themselves derived are not followed (documented assumption).
	}
}

func containerHome(v ssa.Value) ssa.Value { return v }

func (t *Taint) markHolder(v ssa.Value, why *taintWhy) {
	if v == nil || t.values {
		return
	}
	if _, ok := t.holders[v]; ok {
		return
	}
	if _, ok := t.tainted[v]; ok {
		return // already stronger
	}
	t.holders[v] = why
	t.holdWork = append(t.holdWork, v)
}

// flowHolder: h points to non-root memory holding a derived reference. Its address flows to sub-object pointers, phis,
// callee parameters and elements of local arrays; a load through it of a value that can carry a reference is derived.
// (Inside the function that owns the local, loads are already tracked precisely by markLoadsDeep/markFieldLoadsOf: the
// holder class matters once the address leaves through a call, or is kept in an array or another local.)
func (t *Taint) flowHolder(h ssa.Value) {
	refs := h.Referrers()
	if refs == nil {
		return
	}
	for _, in := range *refs {
		why := &taintWhy{from: h, note: "through a local holding a derived reference", site: in}
		switch x := in.(type) {
		case *ssa.FieldAddr:
			if x.X == h {
				t.markHolder(x, why)
			}
		case *ssa.IndexAddr:
			if x.X == h {
				t.markHolder(x, why)
			}
		case *ssa.Phi, *ssa.ChangeType, *ssa.Convert, *ssa.MakeInterface, *ssa.ChangeInterface:
			t.markHolder(x.(ssa.Value), why)
		case *ssa.UnOp:
			if x.Op == token.MUL && x.X == h && t.carries(x.Type()) {
				// in the owning function the precise tracking decides; elsewhere the loaded value may be the reference
				if localRoot(h) == nil {
					t.mark(x, why)
				} else {
					// a pointer kept in a local array / struct of pointers is itself a holder if one was stored there;
					// an aggregate loaded whole (the copy a range loop iterates over) contains such pointers
					switch x.Type().Underlying().(type) {
					case *types.Pointer, *types.Array, *types.Struct:
						t.markHolder(x, why)
					}
				}
			}
		case *ssa.Index:
			if x.X == h {
				switch x.Type().Underlying().(type) {
				case *types.Pointer, *types.Array, *types.Struct:
					t.markHolder(x, why)
				}
			}
		case *ssa.Field:
			if x.X == h {
				switch x.Type().Underlying().(type) {
				case *types.Pointer, *types.Array, *types.Struct:
					t.markHolder(x, why)
				}
			}
		case *ssa.Store:
			// the address of the holder is stored into another local (an array of pointers): loads of that local give it back
			if x.Val == h {
				if al := localRoot(x.Addr); al != nil {
					t.markHolder(al, why)
				}
			}
		case ssa.CallInstruction:
			c := x.Common()
			if _, isB := c.Value.(*ssa.Builtin); isB {
				continue
			}
			for _, callee := range t.p.Callees(x) {
				if callee.Blocks == nil || t.scope != nil && !t.scope[callee] {
					continue
				}
				off := 0
				if c.IsInvoke() {
					off = 1
				}
				for i, a := range c.Args {
					if a == h && i+off < len(callee.Params) {
						t.markHolder(callee.Params[i+off], why)
					}
				}
			}
		}
	}
}

func (t *Taint) markLoadsOf(addr ssa.Value, why *taintWhy) {
	refs := addr.Referrers()
	if refs == nil {
		return
	}
	for _, in := range *refs {
		if u, ok := in.(*ssa.UnOp); ok && u.Op == token.MUL && u.X == addr && t.carries(u.Type()) {
			t.mark(u, why)
		}
	}
}

// markLoadsDeep marks loads of addr and of every FieldAddr / array IndexAddr path below it.
func (t *Taint) markLoadsDeep(addr ssa.Value, why *taintWhy, d int) {
	if d > 6 {
		return
	}
	refs := addr.Referrers()
	if refs == nil {
		return
	}
	for _, in := range *refs {
		switch x := in.(type) {
		case *ssa.UnOp:
			if x.Op == token.MUL && x.X == addr && t.carries(x.Type()) {
				t.mark(x, why)
			}
		case *ssa.FieldAddr:
			if x.X == addr {
				t.markLoadsDeep(x, why, d+1)
			}
		case *ssa.IndexAddr:
			if x.X == addr {
				if _, isPtr := x.X.Type().Underlying().(*types.Pointer); isPtr {
					t.markLoadsDeep(x, why, d+1)
				}
			}
		}
	}
}

func (t *Taint) markFieldLoadsOf(al *ssa.Alloc, field int, why *taintWhy) {
	refs := al.Referrers()
	if refs == nil {
		return
	}
	for _, in := range *refs {
		switch x := in.(type) {
		case *ssa.FieldAddr:
			if x.Field == field {
				t.markLoadsOf(x, why)
				// nested
				if rr := x.Referrers(); rr != nil {
					for _, in2 := range *rr {
						if fa, ok := in2.(*ssa.FieldAddr); ok {
							t.markLoadsOf(fa, why)
						}
					}
				}
			}
		case *ssa.UnOp:
			// whole-struct load: the copy leaves the function as a value; from here on the field is tracked at type level
			if x.Op == token.MUL {
				if st, ok := deref(al.Type()).Underlying().(*types.Struct); ok && field < st.NumFields() {
					if _, done := t.fieldT[st.Field(field)]; !done {
						t.fieldT[st.Field(field)] = why
					}
				}
			}
		}
	}
}

// wholeStored: the local is assigned as a whole (spilled parameter, struct copy): its fields are not built in place.
func wholeStored(al *ssa.Alloc) bool {
	refs := al.Referrers()
	if refs == nil {
		return false
	}
	for _, in := range *refs {
		if st, ok := in.(*ssa.Store); ok && st.Addr == ssa.Value(al) {
			if _, isConstZero := st.Val.(*ssa.Const); !isConstZero {
				return true
			}
		}
	}
	return false
}

func (t *Taint) flowCall(v ssa.Value, call ssa.CallInstruction) {
	c := call.Common()
	callees := t.p.Callees(call)
	// position(s) of v among the arguments
	var idxs []int
	recvInvoke := c.IsInvoke() && c.Value == v
	for i, a := range c.Args {
		if a == v {
			idxs = append(idxs, i)
		}
	}
	if bi, ok := c.Value.(*ssa.Builtin); ok {
		switch bi.Name() {
		case "append":
			// the result may alias the backing array of its first operand
			if val, ok := call.(ssa.Value); ok && len(c.Args) > 0 && c.Args[0] == v {
				t.mark(val, &taintWhy{from: v, site: call})
			}
		case "copy":
			// elements are copied; references held by elements are not followed into the destination container
		case "min", "max":
		}
		if t.values {
			if val, ok := call.(ssa.Value); ok {
				t.mark(val, &taintWhy{from: v, site: call})
			}
		}
		return
	}
	if !c.IsInvoke() && c.Value == v {
		// calling a tainted closure/function value: nothing flows by itself
	}
	// a value taken out of a shared container of the standard library (sync.Map, atomic.Value/Pointer) is memory every
	// other user of the container can obtain as well (sync.Pool hands out exclusive ownership until Put: see R-POOL)
	if sc := c.StaticCallee(); sc != nil && len(c.Args) > 0 && c.Args[0] == v && sharedContainerGetter(sc) {
		if val, ok := call.(ssa.Value); ok {
			why := &taintWhy{from: v, note: "taken out of a shared " + sc.Signature.Recv().Type().String(), site: call}
			if _, isTuple := val.Type().(*types.Tuple); isTuple {
				// (value, ok): the value is result 0
				if refs := val.Referrers(); refs != nil {
					for _, ref := range *refs {
						if ex, ok := ref.(*ssa.Extract); ok && ex.Index == 0 {
							t.mark(ex, why)
						}
					}
				}
			} else {
				t.mark(val, why)
			}
		}
		return
	}
	for _, callee := range callees {
		if t.scope != nil && callee.Blocks != nil && !t.scope[callee] {
			continue
		}
		if callee.Blocks == nil {
			// external: result may alias arguments for a few known functions (any argument in data-dependence mode)
			if t.values || t.extReturn != nil && t.extReturn(c) {
				if val, ok := call.(ssa.Value); ok && t.carries(val.Type()) {
					t.mark(val, &taintWhy{from: v, note: "external call result", site: call})
				}
			}
			continue
		}
		params := callee.Params
		if recvInvoke && len(params) > 0 {
			t.mark(params[0], &taintWhy{from: v, note: "receiver", site: call})
		}
		off := 0
		if c.IsInvoke() {
			off = 1
		}
		for _, i := range idxs {
			if i+off < len(params) {
				t.mark(params[i+off], &taintWhy{from: v, note: "argument", site: call})
			}
		}
	}
}

func elemType(t types.Type) types.Type {
	switch u := t.Underlying().(type) {
	case *types.Slice:
		return u.Elem()
	case *types.Array:
		return u.Elem()
	case *types.Pointer:
		return elemType(u.Elem())
	case *types.Map:
		return u.Elem()
	}
	return t
}

// index of summary consumers, built once per Taint.
type taintIndex struct {
	fieldLoads  map[*types.Var][]ssa.Value  // loads (UnOp over FieldAddr, or Field) of a field, excluding precisely tracked locals
	globalLoads map[*ssa.Global][]ssa.Value // loads of a global
	callVals    map[*ssa.Function][]callRes // values receiving result i of calls that may invoke the function
}

type callRes struct {
	val  ssa.Value
	idx  int
	site ssa.Instruction
}

func (t *Taint) buildIndex() *taintIndex {
	ix := &taintIndex{fieldLoads: map[*types.Var][]ssa.Value{}, globalLoads: map[*ssa.Global][]ssa.Value{}, callVals: map[*ssa.Function][]callRes{}}
	whole := map[*ssa.Alloc]bool{}
	isWhole := func(al *ssa.Alloc) bool {
		if v, ok := whole[al]; ok {
			return v
		}
		w := wholeStored(al)
		whole[al] = w
		return w
	}
	for _, f := range t.fns {
		for _, b := range f.Blocks {
			for _, in := range b.Instrs {
				switch x := in.(type) {
				case *ssa.UnOp:
					if x.Op != token.MUL || !t.carries(x.Type()) {
						continue
					}
					switch a := x.X.(type) {
					case *ssa.FieldAddr:
						if fld := fieldOf(a); fld != nil {
							if al := localRoot(a); al != nil && !al.Heap && !isWhole(al) {
								continue // built field by field in this function: tracked precisely
							}
							ix.fieldLoads[fld] = append(ix.fieldLoads[fld], x)
						}
					case *ssa.Global:
						ix.globalLoads[a] = append(ix.globalLoads[a], x)
					}
				case *ssa.Field:
					if fld := fieldOf(x); fld != nil && t.carries(x.Type()) {
						ix.fieldLoads[fld] = append(ix.fieldLoads[fld], x)
					}
				case *ssa.Call:
					if !t.carries(x.Type()) {
						continue
					}
					if _, isTuple := x.Type().(*types.Tuple); isTuple {
						continue
					}
					for _, callee := range t.p.Callees(x) {
						ix.callVals[callee] = append(ix.callVals[callee], callRes{x, 0, x})
					}
				case *ssa.Extract:
					if c, ok := x.Tuple.(*ssa.Call); ok && t.carries(x.Type()) {
						for _, callee := range t.p.Callees(c) {
							ix.callVals[callee] = append(ix.callVals[callee], callRes{x, x.Index, c})
						}
					}
				}
			}
		}
	}
	return ix
}

// applySummaries: loads of tainted fields/globals and results of calls to functions with tainted results.
func (t *Taint) applySummaries() bool {
	if t.ix == nil {
		t.ix = t.buildIndex()
		t.doneField = map[*types.Var]bool{}
		t.doneGlobal = map[*ssa.Global]bool{}
		t.doneResult = map[*ssa.Function]map[int]bool{}
	}
	before := len(t.tainted)
	for fld, w := range t.fieldT {
		if t.doneField[fld] {
			continue
		}
		t.doneField[fld] = true
		for _, v := range t.ix.fieldLoads[fld] {
			t.mark(v, &taintWhy{note: "load of field " + fld.Name() + " that holds a derived reference", site: w.site})
		}
	}
	for g, w := range t.globalT {
		if t.doneGlobal[g] {
			continue
		}
		t.doneGlobal[g] = true
		for _, v := range t.ix.globalLoads[g] {
			t.mark(v, &taintWhy{note: "load of global " + g.Name(), site: w.site})
		}
	}
	for fn, m := range t.resultT {
		for i := range m {
			if t.doneResult[fn][i] {
				continue
			}
			if t.doneResult[fn] == nil {
				t.doneResult[fn] = map[int]bool{}
			}
			t.doneResult[fn][i] = true
			for _, cr := range t.ix.callVals[fn] {
				if cr.idx == i {
					t.mark(cr.val, &taintWhy{note: "result of " + t.p.FnName(fn), site: cr.site})
				}
			}
		}
	}
	return len(t.tainted) != before || len(t.work) > 0
}

// Trace renders why a value is tainted.
func (t *Taint) Trace(v ssa.Value) []string {
	var out []string
	seen := map[ssa.Value]bool{}
	for v != nil && !seen[v] && len(out) < 20 {
		seen[v] = true
		w := t.tainted[v]
		if w == nil {
			break
		}
		pos := "-"
		if in, ok := v.(ssa.Instruction); ok {
			pos = t.p.IPos(in)
		} else if w.site != nil {
			pos = t.p.IPos(w.site)
		}
		fn := ""
		if v.Parent() != nil {
			fn = t.p.FnName(v.Parent())
		}
		s := pos + " " + fn + ": " + v.Name() + " " + w.note
		out = append(out, s)
		v = w.from
	}
	return out
}

// ---- mutation sites -------------------------------------------------------------------------------------------

// mutation describes an instruction that writes memory and the address/container written.
type mutation struct {
	in     ssa.Instruction
	target ssa.Value
	what   string
}

// knownMutators: stdlib functions that write through an argument (index of the written argument).
var knownMutators = map[string][]int{
	"sort.Slice": {0}, "sort.SliceStable": {0}, "sort.Sort": {0}, "sort.Stable": {0}, "sort.Ints": {0}, "sort.Strings": {0}, "sort.Float64s": {0},
	"(encoding/binary.bigEndian).PutUint16": {0}, "(encoding/binary.bigEndian).PutUint32": {0}, "(encoding/binary.bigEndian).PutUint64": {0},
	"(encoding/binary.littleEndian).PutUint16": {0}, "(encoding/binary.littleEndian).PutUint32": {0}, "(encoding/binary.littleEndian).PutUint64": {0},
	"io.ReadFull": {1}, "io.ReadAtLeast": {1}, "(*bytes.Reader).Read": {0}, "(*os.File).Read": {0}, "(*os.File).ReadAt": {0},
	"(io.Reader).Read": {0}, "(io.ReaderAt).ReadAt": {0},
	"(*sync.Mutex).Lock": nil,
}

func mutationsOf(f *ssa.Function) []mutation {
	var out []mutation
	for _, b := range f.Blocks {
		for _, in := range b.Instrs {
			switch x := in.(type) {
			case *ssa.Store:
				out = append(out, mutation{in, x.Addr, "store"})
			case *ssa.MapUpdate:
				out = append(out, mutation{in, x.Map, "map update"})
			case ssa.CallInstruction:
				c := x.Common()
				if bi, ok := c.Value.(*ssa.Builtin); ok {
					switch bi.Name() {
					case "copy":
						out = append(out, mutation{in, c.Args[0], "copy destination"})
					case "delete":
						out = append(out, mutation{in, c.Args[0], "delete from map"})
					case "clear":
						out = append(out, mutation{in, c.Args[0], "clear"})
					case "append":
						// append may write into spare capacity of arg0's backing array
						out = append(out, mutation{in, c.Args[0], "append (may write into the spare capacity of its first operand)"})
					}
					continue
				}
				name := ""
				if sc := c.StaticCallee(); sc != nil {
					name = sc.String()
				} else if c.IsInvoke() {
					name = "(" + c.Value.Type().String() + ")." + c.Method.Name()
				}
				if idxs, ok := knownMutators[name]; ok {
					for _, i := range idxs {
						args := c.Args
						if c.IsInvoke() {
							if i < len(args) {
								out = append(out, mutation{in, args[i], "written by " + name})
							}
						} else {
							j := i
							if sc := c.StaticCallee(); sc != nil && sc.Signature.Recv() != nil {
								j = i + 1
							}
							if j < len(args) {
								out = append(out, mutation{in, args[j], "written by " + name})
							}
						}
					}
				}
			}
		}
	}
	return out
}

// sharedContainerGetter: methods of the standard library's concurrent containers that hand out a stored value.
func sharedContainerGetter(f *ssa.Function) bool {
	recv := f.Signature.Recv()
	if recv == nil || f.Pkg == nil && f.Origin() == nil {
		return false
	}
	n := namedOf(recv.Type())
	if n == nil || n.Obj().Pkg() == nil {
		return false
	}
	switch n.Obj().Pkg().Path() + "." + n.Obj().Name() + "." + f.Name() {
	case "sync.Map.Load", "sync.Map.LoadOrStore", "sync.Map.LoadAndDelete", "sync.Map.Swap",
		"sync/atomic.Value.Load", "sync/atomic.Value.Swap", "sync/atomic.Pointer.Load", "sync/atomic.Pointer.Swap":
		return true
	}
	return false
}
