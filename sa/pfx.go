package main

// pfx.go — P-FX: field effects. Abstract locations are struct fields (field-based: one abstract object per struct type).
// Per function: exposed (may be read on some path before being written in this activation) and mustWrite (written on
// every path to every normal exit). Forward must-dataflow over SSA blocks; bottom-up fixpoint over the call graph.

import (
	"go/token"
	"go/types"
	"sort"

	"golang.org/x/tools/go/ssa"
)

type bitset []uint64

func newBits(n int) bitset      { return make(bitset, (n+63)/64) }
func (b bitset) has(i int) bool { return b[i/64]&(1<<uint(i%64)) != 0 }
func (b bitset) set(i int)      { b[i/64] |= 1 << uint(i%64) }
func (b bitset) clone() bitset  { c := make(bitset, len(b)); copy(c, b); return c }
func (b bitset) or(o bitset) bool { // returns changed
	ch := false
	for i := range b {
		n := b[i] | o[i]
		if n != b[i] {
			b[i] = n
			ch = true
		}
	}
	return ch
}
func (b bitset) and(o bitset) {
	for i := range b {
		b[i] &= o[i]
	}
}
func (b bitset) orNot(o, mask bitset) bool { // b |= o &^ mask
	ch := false
	for i := range b {
		n := b[i] | (o[i] &^ mask[i])
		if n != b[i] {
			b[i] = n
			ch = true
		}
	}
	return ch
}
func (b bitset) equal(o bitset) bool {
	for i := range b {
		if b[i] != o[i] {
			return false
		}
	}
	return true
}
func (b bitset) fill() {
	for i := range b {
		b[i] = ^uint64(0)
	}
}

type FX struct {
	p       *Prog
	fields  []*types.Var
	index   map[*types.Var]int
	owner   map[*types.Var]*types.Named // struct type declaring the field
	leaves  map[*types.Named][]int      // all (nested) field indices under a struct type
	exposed map[*ssa.Function]bitset
	must    map[*ssa.Function]bitset
	mayW    map[*ssa.Function]bitset
	// witness: for function f and field i, where the exposed read happens (instruction) — first found
	witness map[*ssa.Function]map[int]ssa.Instruction
	fns     []*ssa.Function
}

// NewFX indexes every field of every struct type declared in a module package.
func NewFX(p *Prog) *FX {
	fx := &FX{p: p, index: map[*types.Var]int{}, owner: map[*types.Var]*types.Named{}, leaves: map[*types.Named][]int{},
		exposed: map[*ssa.Function]bitset{}, must: map[*ssa.Function]bitset{}, mayW: map[*ssa.Function]bitset{}, witness: map[*ssa.Function]map[int]ssa.Instruction{}}
	for _, pk := range p.Pkgs {
		sc := pk.Types.Scope()
		names := sc.Names()
		sort.Strings(names)
		for _, n := range names {
			tn, ok := sc.Lookup(n).(*types.TypeName)
			if !ok {
				continue
			}
			nt, ok := tn.Type().(*types.Named)
			if !ok {
				continue
			}
			st, ok := nt.Underlying().(*types.Struct)
			if !ok {
				continue
			}
			for i := 0; i < st.NumFields(); i++ {
				f := st.Field(i)
				if _, dup := fx.index[f]; !dup {
					fx.index[f] = len(fx.fields)
					fx.fields = append(fx.fields, f)
					fx.owner[f] = nt
				}
			}
		}
	}
	return fx
}

func (fx *FX) leavesOf(t types.Type, depth int) []int {
	nt, ok := t.(*types.Named)
	if !ok {
		return nil
	}
	if l, ok := fx.leaves[nt]; ok {
		return l // (nil while in progress: recursive struct types through arrays do not occur by value)
	}
	st, ok := nt.Underlying().(*types.Struct)
	if !ok {
		return nil
	}
	fx.leaves[nt] = nil
	var out []int
	for i := 0; i < st.NumFields(); i++ {
		f := st.Field(i)
		if idx, ok := fx.index[f]; ok {
			out = append(out, idx)
			out = append(out, fx.leavesOf(f.Type(), depth+1)...)
		}
	}
	fx.leaves[nt] = out
	return out
}

// capacityOnly: every use of the loaded slice value only depends on its capacity (x[:0], cap(x)), not on its content or length.
func capacityOnly(load ssa.Value) bool {
	refs := load.Referrers()
	if refs == nil || len(*refs) == 0 {
		return false
	}
	for _, in := range *refs {
		switch x := in.(type) {
		case *ssa.Slice:
			if x.X != load {
				return false
			}
			if x.Low != nil {
				if c, ok := intConst(x.Low); !ok || c != 0 {
					return false
				}
			}
			if x.High == nil {
				return false
			}
			if c, ok := intConst(x.High); !ok || c != 0 {
				return false
			}
		case *ssa.Call:
			b, ok := x.Common().Value.(*ssa.Builtin)
			if !ok || b.Name() != "cap" {
				return false
			}
		case *ssa.DebugRef:
		default:
			return false
		}
	}
	return true
}

// nilCheckOnly: the loaded value is only compared with nil (lazy allocation idiom `if x == nil { x = new }`).
func nilCheckOnly(load ssa.Value) bool {
	refs := load.Referrers()
	if refs == nil || len(*refs) == 0 {
		return false
	}
	for _, in := range *refs {
		switch x := in.(type) {
		case *ssa.BinOp:
			if x.Op != token.EQL && x.Op != token.NEQ {
				return false
			}
			other := x.X
			if other == load {
				other = x.Y
			}
			c, ok := other.(*ssa.Const)
			if !ok || !c.IsNil() {
				return false
			}
		case *ssa.DebugRef:
		default:
			return false
		}
	}
	return true
}

type fxEvent struct {
	kind  int // 0 read, 1 write, 2 call
	field int
	extra []int // write: nested leaves
	call  ssa.CallInstruction
	in    ssa.Instruction
}

// stackLocal: the address is a field path into an Alloc that lives on the stack.
func stackLocal(addr ssa.Value) bool {
	for i := 0; i < 8; i++ {
		switch x := addr.(type) {
		case *ssa.FieldAddr:
			addr = x.X
			continue
		case *ssa.IndexAddr:
			addr = x.X
			continue
		case *ssa.Alloc:
			return !x.Heap
		}
		break
	}
	return false
}

// events of one function in instruction order per block.
func (fx *FX) events(f *ssa.Function) map[*ssa.BasicBlock][]fxEvent {
	out := map[*ssa.BasicBlock][]fxEvent{}
	for _, b := range f.Blocks {
		var evs []fxEvent
		for _, in := range b.Instrs {
			switch x := in.(type) {
			case *ssa.UnOp:
				if x.Op == token.MUL {
					if fa, ok := x.X.(*ssa.FieldAddr); ok {
						if stackLocal(fa) {
							continue // a field of a local on the stack is not state of the reusable object
						}
						if idx, ok := fx.index[fieldOf(fa)]; ok {
							if _, isSlice := x.Type().Underlying().(*types.Slice); isSlice && capacityOnly(x) {
								continue
							}
							evs = append(evs, fxEvent{kind: 0, field: idx, in: in})
						}
					}
				}
			case *ssa.Field:
				if idx, ok := fx.index[fieldOf(x)]; ok {
					// extraction from a struct value that was itself loaded: the load of the container was the read; skip
					_ = idx
				}
			case *ssa.Store:
				if fa, ok := x.Addr.(*ssa.FieldAddr); ok {
					if stackLocal(fa) {
						continue
					}
					if idx, ok := fx.index[fieldOf(fa)]; ok {
						evs = append(evs, fxEvent{kind: 1, field: idx, extra: fx.leavesOf(fieldOf(fa).Type(), 0), in: in})
					}
				} else if al, ok := x.Addr.(*ssa.Alloc); ok {
					_ = al
				} else {
					// store through a pointer to a whole struct (*p = S{...}): writes all fields of S
					if pt, ok := x.Addr.Type().Underlying().(*types.Pointer); ok {
						if l := fx.leavesOf(pt.Elem(), 0); len(l) > 0 {
							evs = append(evs, fxEvent{kind: 1, field: l[0], extra: l, in: in})
						}
					}
				}
			case *ssa.Alloc:
				// fresh object: all its fields hold the zero value — credited as written. Only for heap objects (which
				// may become, or be part of, the reusable object): the abstraction has one object per struct type, and a
				// local of the same type on the stack (a by-value parameter, a temporary) must not hide a read of the
				// persistent one
				if !x.Heap {
					continue
				}
				if l := fx.leavesOf(deref(x.Type()), 0); len(l) > 0 {
					evs = append(evs, fxEvent{kind: 1, field: l[0], extra: l, in: in})
				}
			case ssa.CallInstruction:
				// address of a tracked field escaping into a call: the callee may read it through the pointer
				for _, a := range x.Common().Args {
					if fa, ok := a.(*ssa.FieldAddr); ok {
						if idx, ok := fx.index[fieldOf(fa)]; ok {
							// the address of a nested struct only designates a sub-object: its own fields are tracked
							if _, isStruct := fieldOf(fa).Type().Underlying().(*types.Struct); isStruct {
								continue
							}
							evs = append(evs, fxEvent{kind: 0, field: idx, in: in})
						}
					}
				}
				if _, isB := x.Common().Value.(*ssa.Builtin); !isB {
					evs = append(evs, fxEvent{kind: 2, call: x, in: in})
				}
			}
		}
		out[b] = evs
	}
	return out
}

// Run computes the summaries for all module functions.
func (fx *FX) Run() {
	p := fx.p
	fx.fns = p.ModFns()
	n := len(fx.fields)
	evs := map[*ssa.Function]map[*ssa.BasicBlock][]fxEvent{}
	for _, f := range fx.fns {
		fx.exposed[f] = newBits(n)
		fx.must[f] = newBits(n)
		fx.mayW[f] = newBits(n)
		fx.witness[f] = map[int]ssa.Instruction{}
		evs[f] = fx.events(f)
	}
	empty := newBits(n)
	// phase 1: mustWrite to its (least) fixpoint; phase 2: exposed / mayWrite with the final mustWrite sets
	for phase := 1; phase <= 2; phase++ {
		for round := 0; round < 60; round++ {
			changed := false
			for _, f := range fx.fns {
				if fx.analyse(f, evs[f], empty, phase) {
					changed = true
				}
			}
			if !changed {
				break
			}
		}
	}
}

// analyse recomputes exposed/must/mayW of f from the current callee summaries; returns whether anything grew.
func (fx *FX) analyse(f *ssa.Function, evs map[*ssa.BasicBlock][]fxEvent, empty bitset, phase int) bool {
	n := len(fx.fields)
	in := map[*ssa.BasicBlock]bitset{}
	out := map[*ssa.BasicBlock]bitset{}
	exposed := fx.exposed[f]
	mayW := fx.mayW[f]
	changed := false
	// iterate must-dataflow to fixpoint (optimistic initialisation: all written)
	for _, b := range f.Blocks {
		w := newBits(n)
		w.fill()
		out[b] = w
	}
	for iter := 0; iter < 100; iter++ {
		stable := true
		for _, b := range f.Blocks {
			var w bitset
			if b == f.Blocks[0] {
				w = newBits(n)
			} else {
				w = newBits(n)
				w.fill()
				for _, pr := range b.Preds {
					w.and(out[pr])
				}
				if len(b.Preds) == 0 {
					w = newBits(n)
				}
			}
			in[b] = w.clone()
			for _, e := range evs[b] {
				switch e.kind {
				case 1:
					w.set(e.field)
					for _, x := range e.extra {
						w.set(x)
					}
				case 2:
					first := true
					var mw bitset
					for _, cal := range fx.p.Callees(e.call) {
						m, ok := fx.must[cal]
						if !ok {
							m = empty
						}
						if first {
							mw = m.clone()
							first = false
						} else {
							mw.and(m)
						}
					}
					if mw != nil {
						w.or(mw)
					}
				}
			}
			if !w.equal(out[b]) {
				out[b] = w
				stable = false
			}
		}
		if stable {
			break
		}
	}
	// collect exposed reads and may-writes with the stable in-sets
	for _, b := range f.Blocks {
		if phase == 1 {
			break
		}
		w := in[b].clone()
		for _, e := range evs[b] {
			switch e.kind {
			case 0:
				if !w.has(e.field) && !exposed.has(e.field) {
					exposed.set(e.field)
					fx.witness[f][e.field] = e.in
					changed = true
				}
			case 1:
				if !mayW.has(e.field) {
					mayW.set(e.field)
					changed = true
				}
				w.set(e.field)
				for _, x := range e.extra {
					w.set(x)
					if !mayW.has(x) {
						mayW.set(x)
						changed = true
					}
				}
			case 2:
				first := true
				var mw bitset
				for _, cal := range fx.p.Callees(e.call) {
					if ex, ok := fx.exposed[cal]; ok {
						// fields exposed in the callee and not yet written here
						for i := range ex {
							add := ex[i] &^ w[i] &^ exposed[i]
							if add != 0 {
								exposed[i] |= add
								changed = true
								for bit := 0; bit < 64; bit++ {
									if add&(1<<uint(bit)) != 0 {
										fx.witness[f][i*64+bit] = e.in
									}
								}
							}
						}
						if mayW.or(fx.mayW[cal]) {
							changed = true
						}
					}
					m, ok := fx.must[cal]
					if !ok {
						m = empty
					}
					if first {
						mw = m.clone()
						first = false
					} else {
						mw.and(m)
					}
				}
				if mw != nil {
					w.or(mw)
				}
			}
		}
	}
	// mustWrite: intersection over normal exits
	var mw bitset
	for _, b := range f.Blocks {
		if len(b.Instrs) == 0 {
			continue
		}
		if _, ok := b.Instrs[len(b.Instrs)-1].(*ssa.Return); ok {
			if mw == nil {
				mw = out[b].clone()
			} else {
				mw.and(out[b])
			}
		}
	}
	if mw == nil {
		mw = newBits(n)
	}
	// keep monotone (least fixpoint): only grow
	if phase == 1 && fx.must[f].or(mw) {
		changed = true
	}
	return changed
}

func (fx *FX) names(b bitset) []string {
	var out []string
	for i, f := range fx.fields {
		if b.has(i) {
			out = append(out, fx.owner[f].Obj().Name()+"."+f.Name())
		}
	}
	sort.Strings(out)
	return out
}

// ExposedPath explains an exposed read of field i in f by following witnesses down the call graph.
func (fx *FX) ExposedPath(f *ssa.Function, i int) []string {
	var out []string
	seen := map[*ssa.Function]bool{}
	for f != nil && !seen[f] && len(out) < 12 {
		seen[f] = true
		in := fx.witness[f][i]
		if in == nil {
			break
		}
		out = append(out, fx.p.FnName(f)+" at "+fx.p.IPos(in))
		call, ok := in.(ssa.CallInstruction)
		if !ok {
			break
		}
		var next *ssa.Function
		for _, cal := range fx.p.Callees(call) {
			if ex, ok := fx.exposed[cal]; ok && ex.has(i) {
				next = cal
				break
			}
		}
		f = next
	}
	return out
}
