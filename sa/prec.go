package main

// prec.go — P-REC: inventory of recursion (non-trivial SCCs and self loops of the VTA call graph restricted
// to module functions).

import (
	"sort"

	"golang.org/x/tools/go/callgraph"
	"golang.org/x/tools/go/ssa"
)

type recEdge struct {
	caller, callee *ssa.Function
	site           ssa.CallInstruction
}

type scc struct {
	fns   []*ssa.Function
	edges []recEdge // call edges internal to the SCC
	name  string
}

func (p *Prog) modSuccs(n *callgraph.Node) []*callgraph.Edge {
	var out []*callgraph.Edge
	for _, e := range n.Out {
		if e.Callee.Func != nil && p.inModule(fnPkg(e.Callee.Func)) {
			out = append(out, e)
		}
	}
	return out
}

// recursiveSCCs returns every SCC with a cycle, deterministic order.
func recursiveSCCs(p *Prog) []*scc {
	cg := p.CG()
	index := map[*ssa.Function]int{}
	low := map[*ssa.Function]int{}
	on := map[*ssa.Function]bool{}
	var stack []*ssa.Function
	var out []*scc
	idx := 0
	var strong func(f *ssa.Function)
	strong = func(f *ssa.Function) {
		index[f] = idx
		low[f] = idx
		idx++
		stack = append(stack, f)
		on[f] = true
		if n := cg.Nodes[f]; n != nil {
			for _, e := range p.modSuccs(n) {
				g := e.Callee.Func
				if _, seen := index[g]; !seen {
					strong(g)
					if low[g] < low[f] {
						low[f] = low[g]
					}
				} else if on[g] && index[g] < low[f] {
					low[f] = index[g]
				}
			}
		}
		if low[f] == index[f] {
			var comp []*ssa.Function
			for {
				g := stack[len(stack)-1]
				stack = stack[:len(stack)-1]
				on[g] = false
				comp = append(comp, g)
				if g == f {
					break
				}
			}
			in := map[*ssa.Function]bool{}
			for _, g := range comp {
				in[g] = true
			}
			var edges []recEdge
			for _, g := range comp {
				if n := cg.Nodes[g]; n != nil {
					for _, e := range n.Out {
						if in[e.Callee.Func] && e.Site != nil {
							edges = append(edges, recEdge{g, e.Callee.Func, e.Site})
						}
					}
				}
			}
			if len(edges) > 0 {
				sort.Slice(comp, func(i, j int) bool { return comp[i].String() < comp[j].String() })
				sort.Slice(edges, func(i, j int) bool {
					a, b := edges[i], edges[j]
					if a.caller != b.caller {
						return a.caller.String() < b.caller.String()
					}
					if a.site.Pos() != b.site.Pos() {
						return a.site.Pos() < b.site.Pos()
					}
					return a.callee.String() < b.callee.String()
				})
				sc := &scc{fns: comp, edges: edges, name: p.FnName(comp[0])}
				// stable name: the first function through which every cycle passes, if any
				for _, h := range comp {
					if len(comp) > 1 && acyclicWithout(sc, h) {
						sc.name = p.FnName(h)
						break
					}
				}
				out = append(out, sc)
			}
		}
	}
	for _, f := range p.ModFns() {
		if _, seen := index[f]; !seen {
			strong(f)
		}
	}
	sort.Slice(out, func(i, j int) bool { return out[i].name < out[j].name })
	return out
}
