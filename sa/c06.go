package main

// c06.go — C06 (history independence and class-table coherence) and C07 (history independence, frame, tables).

import (
	"fmt"
	"go/token"
	"go/types"

	"golang.org/x/tools/go/ssa"
)

func init() {
	register(&propDef{id: "C06", run: runC06, controls: func(cp *Prog, r *Report) { controlsState(cp, r); controlsTabFamilies(cp, r) }})
	register(&propDef{id: "C07", run: runC07, controls: func(cp *Prog, r *Report) { controlsState(cp, r); controlsFrame(cp, r) }})
}

func controlsTabFamilies(cp *Prog, r *Report) {
	le := newLitEval(cp)
	expectControl(r, "R-TAB/family", func(cr *Report) {
		ruleFamilyDisjoint(cp, cr, le, "tab", "famBad", "famBadAll", 2)
		ruleFamilyDisjoint(cp, cr, le, "tab", "famGood", "famGoodAll", 2)
	}, "tab.famBad/tab.FamB2", "tab.famBadAll=union(famBad)")
}

func runC06(p *Prog, r *Report) {
	r.Explain = append(r.Explain,
		"R-STATE on segmenter.Segmenter: Init writes every field it or the iterators read (P-FX exposed-read sets), so results cannot depend on what the object processed before; the rule cursor is a fresh local of each run.",
		"R-TAB: the line, grapheme and word class families are well-formed and pairwise disjoint (every rune has exactly one class per property, independent of array order) and the two pre-filter tables equal the union of their families.")
	fx := NewFX(p)
	fx.Run()
	ruleState(p, r, fx, stateCfg{name: "segmenter.Segmenter",
		types:   []typeRef{{"segmenter", "Segmenter"}, {"segmenter", "cursor"}},
		entries: []fnRef{{"segmenter", "Segmenter", "Init"}},
		conts: []struct{ fn, after fnRef }{
			{fnRef{"segmenter", "attributeIterator", "next"}, fnRef{"segmenter", "Segmenter", "Init"}},
			{fnRef{"segmenter", "LineIterator", "Line"}, fnRef{"segmenter", "Segmenter", "Init"}},
			{fnRef{"segmenter", "GraphemeIterator", "Grapheme"}, fnRef{"segmenter", "Segmenter", "Init"}},
			{fnRef{"segmenter", "WordIterator", "Next"}, fnRef{"segmenter", "Segmenter", "Init"}},
			{fnRef{"segmenter", "WordIterator", "Word"}, fnRef{"segmenter", "Segmenter", "Init"}},
		},
		allowed: map[string]string{}})
	// no package-level mutable state in the segmenter or its tables (shared with C17's R-GLOBAL, restricted here)
	le := newLitEval(p)
	ruleRangeTablesWF(p, r, le, []string{"unicodedata"})
	ruleFamilyDisjoint(p, r, le, "unicodedata", "lineBreaks", "", 43)
	ruleFamilyDisjoint(p, r, le, "unicodedata", "graphemeBreaks", "graphemeBreakAll", 13)
	ruleFamilyDisjoint(p, r, le, "unicodedata", "wordBreaks", "wordBreakAll", 14)
	r.Explain = append(r.Explain, "R-TABONLY (shared with C20): the three class lookups the rules are applied to (LookupLineBreakClass, LookupGraphemeBreakClass, LookupWordBreakClass) return only entries of their table or the documented default, and decide through table membership only — no range test on the rune in front of the table.")
	ruleTabOnly(p, r, tabOnlyCfg{pkg: "unicodedata", fn: "LookupLineBreakClass", table: []string{"lineBreaks"}, constants: []string{"BreakXX"}, noRuneCmp: true})
	ruleTabOnly(p, r, tabOnlyCfg{pkg: "unicodedata", fn: "LookupGraphemeBreakClass", table: []string{"graphemeBreaks"}, zero: true, noRuneCmp: true})
	ruleTabOnly(p, r, tabOnlyCfg{pkg: "unicodedata", fn: "LookupWordBreakClass", table: []string{"wordBreaks"}, zero: true, noRuneCmp: true})
	r.Assumptions = append(r.Assumptions, "unicode.Is is trusted", "that the rule functions implement UAX #14 / UAX #29 is NOT decided: the standard's rule tables are not in the repository and extracting a pair table from ~600 lines of comparisons would be symbolic execution")
	r.NotDecided = append(r.NotDecided, "agreement of boundaries with UAX #29 / UAX #14", "segments are consecutive, non-empty and concatenate to the input")
}

type frameCfg struct {
	pkg, typ  string
	entries   []fnRef
	exclude   []fnRef
	forbidden []string
	floor     int
}

// ruleFrame: functions reachable from the entries (minus excluded ones) never store to the forbidden fields of the type.
func ruleFrame(p *Prog, r *Report, c frameCfg) {
	const rule = "R-FRAME"
	T := p.Named(c.pkg, c.typ)
	forb := map[*types.Var]bool{}
	for _, f := range c.forbidden {
		forb[p.Field(c.pkg, c.typ, f)] = true
	}
	var roots []*ssa.Function
	for _, e := range c.entries {
		roots = append(roots, p.Func(e.pkg, e.recv, e.name))
	}
	excl := map[*ssa.Function]bool{}
	for _, e := range c.exclude {
		excl[p.Func(e.pkg, e.recv, e.name)] = true
	}
	reach := reachableFns(p, roots)
	n, stores := 0, 0
	for _, f := range p.ModFns() {
		if !reach[f] || excl[f] {
			continue
		}
		n++
		bad := false
		for _, b := range f.Blocks {
			for _, in := range b.Instrs {
				st, ok := in.(*ssa.Store)
				if !ok {
					continue
				}
				fa, ok := st.Addr.(*ssa.FieldAddr)
				if !ok || !types.Identical(deref(fa.X.Type()), T) {
					continue
				}
				stores++
				if forb[fieldOf(fa)] {
					bad = true
					r.Bad(rule, p.FnName(f)+"/"+c.typ+"."+fieldOf(fa).Name(), p.IPos(in), fmt.Sprintf("%s, reachable from %s, assigns %s.%s: the runs no longer leave it untouched", p.FnName(f), p.FnName(roots[0]), c.typ, fieldOf(fa).Name()))
				}
			}
		}
		if !bad {
			r.OK(rule, p.FnName(f), p.Pos(f.Pos()), "assigns none of the forbidden fields of "+c.typ)
		}
		r.Instance(rule, p.FnName(f))
	}
	r.Count("input_field_stores_examined", stores)
	r.Floor(rule, stores, c.floor)
}

func runC07(p *Prog, r *Report) {
	r.Explain = append(r.Explain,
		"R-STATE on shaping.Segmenter: every field Split may read before writing is classified (the two pools are read by reset only to nil out stale pointers).",
		"R-FRAME: no function reachable from Split other than reset assigns Input.Text, Input.Size or Input.FontFeatures.",
		"R-TAB: pairedDelims strictly increasing (bisection precondition of lookupDelimIndex; open/close at even/odd positions follows) and ScriptRanges sorted and disjoint (LookupScript).")
	fx := NewFX(p)
	fx.Run()
	for _, c := range stateConfigs() {
		if c.name == "shaping.Segmenter" {
			ruleState(p, r, fx, c)
		}
	}
	ruleFrame(p, r, frameCfg{pkg: "shaping", typ: "Input", entries: []fnRef{{"shaping", "Segmenter", "Split"}},
		exclude: []fnRef{{"shaping", "Segmenter", "reset"}}, forbidden: []string{"Text", "Size", "FontFeatures"}, floor: 6})
	le := newLitEval(p)
	r.Explain = append(r.Explain, "R-BISECT: every sort.Search whose predicate indexes a package-level table literal requires that table to be sorted by the compared key (evaluated from the literal).")
	ruleBisect(p, r, le)
	ruleSortedList(p, r, le, "shaping", "pairedDelims", 60)
	r.Explain = append(r.Explain, "R-TAB/parity: pairedDelims is consulted by position (even: opening, odd: closing, counterpart at index-1): no opening punctuation (Ps) at an odd index, no closing one (Pe) at an even index, an even number of entries — one unpaired character shifts every following pair (found on the pinned tree: the CJK brackets were handled with open and close exchanged).")
	ruleDelimParity(p, r, le, "shaping", "pairedDelims")
	r.Explain = append(r.Explain, "R-TAB/scriptlang: the representative language that language.ScriptToLang gives for a script is one that languagesInfos lists as written in that script — what enforceLanguages substitutes for a language not used for the script is itself compatible with it.")
	ruleScriptToLang(p, r, le, "language", "ScriptToLang", "languagesInfos", 30)
	ruleSortedRanges(p, r, le, "language", "ScriptRanges", "Start", "End", 900)
	r.Explain = append(r.Explain, "R-BIDI/par: bidi.Paragraph.SetString stops at the first paragraph separator (class B) and returns the bytes consumed; every caller in the module uses that count, or cuts the text at the separators itself (it, or its caller, compares the bidi class of a rune with bidi.B): the text after a newline gets its own levels instead of inheriting the direction of the run before.")
	ruleBidiParagraphs(p, r, 1)
	r.Assumptions = append(r.Assumptions, "golang.org/x/text/unicode/bidi.Paragraph.SetString is the documented full reset of the bidi object (not analysed)")
	r.NotDecided = append(r.NotDecided, "exact cover of the range by the runs, level parity, script uniformity, face resolution, language/script compatibility")
}

func controlsFrame(cp *Prog, r *Report) {
	expectControl(r, "R-FRAME", func(cr *Report) {
		ruleFrame(cp, cr, frameCfg{pkg: "reuse", typ: "In", entries: []fnRef{{"reuse", "", "SplitAll"}}, exclude: []fnRef{{"reuse", "", "resetPool"}}, forbidden: []string{"Text", "Size"}, floor: 1})
	}, "reuse.splitBad/In.Size")
	le := newLitEval(cp)
	expectControl(r, "R-TAB/list", func(cr *Report) {
		ruleSortedList(cp, cr, le, "tab", "listGood", 2)
		ruleSortedList(cp, cr, le, "tab", "listBad", 2)
	}, "tab.listBad")
	expectControl(r, "R-TAB/parity", func(cr *Report) {
		ruleDelimParity(cp, cr, le, "tab", "delimsGood")
		ruleDelimParity(cp, cr, le, "tab", "delimsBad")
		ruleDelimParity(cp, cr, le, "tab", "delimsOrnate")
		ruleDelimParity(cp, cr, le, "tab", "delimsOrnateBad")
	}, "tab.delimsBad", "tab.delimsOrnateBad")
}

// exitsLoop: the comparison is the condition of a test inside a loop, one branch of which leaves the loop: the scan of the
// text stops at that rune (a comparison outside any loop decides something about one rune, it does not cut the text).
func exitsLoop(f *ssa.Function, cond ssa.Value) bool {
	for _, b := range f.Blocks {
		iff := ifOf(b)
		if iff == nil || iff.Cond != cond {
			continue
		}
		for _, l := range naturalLoops(f) {
			if !l.blocks[b] {
				continue
			}
			for _, succ := range b.Succs {
				if !l.blocks[succ] {
					return true
				}
			}
		}
	}
	return false
}

// ruleBidiParagraphs — R-BIDI/par: bidi.Paragraph.SetString / SetBytes stop at the first paragraph separator (class B) and
// return the number of bytes they consumed. A caller that ignores that count processes one paragraph only, unless it cuts the
// text at the separators itself: the function calling SetString, or one of its callers in the module, compares the bidi
// class of a rune with bidi.B in a loop that the comparison leaves.
func ruleBidiParagraphs(p *Prog, r *Report, floor int) {
	const rule = "R-BIDI/par"
	isSet := func(sc *ssa.Function) bool {
		if sc == nil {
			return false
		}
		s := sc.String()
		return s == "(*golang.org/x/text/unicode/bidi.Paragraph).SetString" || s == "(*golang.org/x/text/unicode/bidi.Paragraph).SetBytes"
	}
	// functions which compare a bidi class with B
	cutsAtB := func(f *ssa.Function) bool {
		for _, b := range f.Blocks {
			for _, in := range b.Instrs {
				bo, ok := in.(*ssa.BinOp)
				if !ok || (bo.Op != token.EQL && bo.Op != token.NEQ) {
					continue
				}
				for _, pair := range [][2]ssa.Value{{bo.X, bo.Y}, {bo.Y, bo.X}} {
					c, ok := pair[1].(*ssa.Const)
					if !ok || c.Type().String() != "golang.org/x/text/unicode/bidi.Class" {
						continue
					}
					if v, isInt := intConst(c); !isInt || v != 7 { // bidi.B
						continue
					}
					if call, ok := pair[0].(*ssa.Call); ok {
						if sc := call.Common().StaticCallee(); sc != nil && sc.String() == "(golang.org/x/text/unicode/bidi.Properties).Class" && exitsLoop(f, bo) {
							return true
						}
					}
				}
			}
		}
		return false
	}
	n := 0
	for _, f := range p.ModFns() {
		for _, b := range f.Blocks {
			for _, in := range b.Instrs {
				call, ok := in.(*ssa.Call)
				if !ok || !isSet(call.Common().StaticCallee()) {
					continue
				}
				n++
				key := p.FnName(f) + "/SetString"
				r.Instance(rule, key)
				used := false
				if refs := call.Referrers(); refs != nil {
					for _, u := range *refs {
						if ex, ok := u.(*ssa.Extract); ok && ex.Index == 0 && ex.Referrers() != nil && len(*ex.Referrers()) > 0 {
							used = true
						}
					}
				}
				cuts := cutsAtB(f)
				if node := p.CG().Nodes[f]; node != nil && !cuts {
					for _, e := range node.In {
						if p.inModule(fnPkg(e.Caller.Func)) && cutsAtB(e.Caller.Func) {
							cuts = true
						}
					}
				}
				r.Check(used || cuts, rule, key, p.IPos(call), "the count of bytes consumed by the bidi paragraph is used, or the text is cut at the paragraph separators (class B) before it is handed over: what follows the first separator is processed too")
			}
		}
	}
	r.Floor(rule, n, floor)
}
