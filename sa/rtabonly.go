package main

// rtabonly.go — R-TABONLY: table-driven lookups return only what their table (or the documented default) provides, so
// that "the lookup agrees with a linear scan of its table" cannot be broken by a shortcut in front of the table.

import (
	"fmt"
	"go/constant"
	"go/token"
	"go/types"

	"golang.org/x/tools/go/ssa"
)

type tabOnlyCfg struct {
	pkg, fn string
	// allowed origins of each returned value (result index 0 unless resultIdx set)
	resultIdx int
	table     []string // package-level variables whose elements/fields may be returned
	tablePkg  string   // package of those variables ("" = pkg)
	constants []string // named constants that may be returned (defaults)
	params    bool     // returning a parameter itself is allowed
	viaFuncs  []fnRef  // results of these functions may be returned as they are
	zero      bool     // the zero constant / nil may be returned
	noRuneCmp bool     // the function decides through table membership only: it does not compare its rune parameter with constants
}

func ruleTabOnly(p *Prog, r *Report, c tabOnlyCfg) {
	const rule = "R-TABONLY"
	f := p.Func(c.pkg, "", c.fn)
	key := c.pkg + "." + c.fn
	r.Instance(rule, key)
	tp := c.tablePkg
	if tp == "" {
		tp = c.pkg
	}
	tables := map[types.Object]bool{}
	for _, t := range c.table {
		tables[p.Obj(tp, t)] = true
	}
	consts := map[string]bool{}
	for _, k := range c.constants {
		cst, ok := p.Obj(c.pkg, k).(*types.Const)
		if !ok {
			// a package-level variable used as default (e.g. BreakXX)
			tables[p.Obj(c.pkg, k)] = true
			continue
		}
		consts[cst.Val().ExactString()] = true
	}
	via := map[*ssa.Function]bool{}
	for _, v := range c.viaFuncs {
		via[p.Func(v.pkg, v.recv, v.name)] = true
	}
	// bindings of the parameters of a helper being looked into (see the *ssa.Call case of allowed)
	env := map[*ssa.Parameter]ssa.Value{}
	var fromTable func(v ssa.Value, d int) bool
	var curRet *ssa.Return // the return of f being examined
	// calleeResult: result idx of a helper of the package called by f (`entry, ok := lookupRange(r)`) comes from the table on
	// every return of the helper that the caller can be using: when the return of f under examination is only reached
	// through the true edge of a test of another, boolean, result of the same call, the returns of the helper giving the
	// constant false for that result are not among them.
	calleeResult := func(call *ssa.Call, sc *ssa.Function, idx int, d int) bool {
		okIdx := -1
		if refs := call.Referrers(); refs != nil && curRet != nil {
			for _, u := range *refs {
				ex, isEx := u.(*ssa.Extract)
				if !isEx || ex.Index == idx || ex.Referrers() == nil {
					continue
				}
				for _, iu := range *ex.Referrers() {
					if iff, isIf := iu.(*ssa.If); isIf && iff.Cond == ssa.Value(ex) {
						if t := iff.Block().Succs[0]; len(t.Preds) == 1 && t.Dominates(curRet.Block()) {
							okIdx = ex.Index
						}
					}
				}
			}
		}
		for i, q := range sc.Params {
			if i < len(call.Common().Args) {
				env[q] = call.Common().Args[i]
			}
		}
		defer func() {
			for _, q := range sc.Params {
				delete(env, q)
			}
		}()
		n := 0
		for _, b := range sc.Blocks {
			ret, ok := b.Instrs[len(b.Instrs)-1].(*ssa.Return)
			if !ok || idx >= len(ret.Results) {
				continue
			}
			if okIdx >= 0 && okIdx < len(ret.Results) {
				if k, isK := ret.Results[okIdx].(*ssa.Const); isK && k.Value != nil && k.Value.Kind() == constant.Bool && !constant.BoolVal(k.Value) {
					continue // the caller does not use the value of this return
				}
			}
			n++
			if !fromTable(ret.Results[idx], d+1) {
				return false
			}
		}
		return n > 0
	}
	fromTable = func(v ssa.Value, d int) bool {
		if d > 12 {
			return false
		}
		switch x := v.(type) {
		case *ssa.Global:
			return tables[x.Object()]
		case *ssa.Parameter:
			if a, ok := env[x]; ok {
				return fromTable(a, d+1)
			}
		case *ssa.UnOp:
			if x.Op == token.MUL {
				return fromTable(x.X, d+1)
			}
		case *ssa.FieldAddr:
			return fromTable(x.X, d+1)
		case *ssa.Field:
			return fromTable(x.X, d+1)
		case *ssa.IndexAddr:
			return fromTable(x.X, d+1)
		case *ssa.Index:
			return fromTable(x.X, d+1)
		case *ssa.Lookup:
			return fromTable(x.X, d+1)
		case *ssa.Extract:
			if call, ok := x.Tuple.(*ssa.Call); ok {
				if sc := call.Common().StaticCallee(); sc != nil && sc.Blocks != nil && fnPkg(sc) == fnPkg(f) && sc != f && len(env) == 0 {
					return calleeResult(call, sc, x.Index, d)
				}
			}
			return fromTable(x.Tuple, d+1)
		case *ssa.Slice:
			return fromTable(x.X, d+1)
		case *ssa.Next:
			return fromTable(x.Iter, d+1)
		case *ssa.Range:
			return fromTable(x.X, d+1)
		case *ssa.Convert:
			return fromTable(x.X, d+1)
		case *ssa.ChangeType:
			return fromTable(x.X, d+1)
		case *ssa.Alloc:
			// spilled copy of a table element: every store into it comes from the table
			ok := false
			for _, in := range *x.Referrers() {
				if st, isSt := in.(*ssa.Store); isSt && st.Addr == ssa.Value(x) {
					if !fromTable(st.Val, d+1) {
						return false
					}
					ok = true
				}
			}
			return ok
		}
		return false
	}
	seenP := map[*ssa.Phi]bool{}
	// nilOK: a nil result is acceptable here (the zero value is a documented default, or the value is tested non-nil
	// on the way to the return being examined)
	nilOK := c.zero
	var allowed func(v ssa.Value, d int) string
	allowed = func(v ssa.Value, d int) string {
		if d > 12 {
			return "too deep"
		}
		switch x := v.(type) {
		case *ssa.Const:
			if x.Value == nil {
				if c.zero || nilOK {
					return ""
				}
				return "nil"
			}
			if consts[x.Value.ExactString()] {
				return ""
			}
			if c.zero && isZeroConst(x) {
				return ""
			}
			return "the constant " + x.Value.ExactString()
		case *ssa.Parameter:
			if a, ok := env[x]; ok {
				return allowed(a, d+1)
			}
			if c.params {
				return ""
			}
			return "parameter " + x.Name()
		case *ssa.Phi:
			if seenP[x] {
				return ""
			}
			seenP[x] = true
			for _, e := range x.Edges {
				if s := allowed(e, d+1); s != "" {
					return s
				}
			}
			return ""
		case *ssa.Convert:
			return allowed(x.X, d+1)
		case *ssa.ChangeType:
			return allowed(x.X, d+1)
		case *ssa.Call:
			if sc := x.Common().StaticCallee(); sc != nil && via[sc] {
				return ""
			}
			// an unexported helper of the same package (the scan moved out of the lookup function): every value it
			// returns must be allowed, with its parameters bound to the arguments of this call
			if sc := x.Common().StaticCallee(); sc != nil && sc.Blocks != nil && fnPkg(sc) == fnPkg(f) && sc != f && sc.Object() != nil && !sc.Object().Exported() && len(env) == 0 && sc.Signature.Results().Len() == 1 {
				for i, q := range sc.Params {
					if i < len(x.Common().Args) {
						env[q] = x.Common().Args[i]
					}
				}
				res := ""
				for _, b := range sc.Blocks {
					if ret, ok := b.Instrs[len(b.Instrs)-1].(*ssa.Return); ok && res == "" {
						res = allowed(ret.Results[0], d+1)
					}
				}
				for _, q := range sc.Params {
					delete(env, q)
				}
				return res
			}
		case *ssa.Extract:
			if call, ok := x.Tuple.(*ssa.Call); ok {
				if sc := call.Common().StaticCallee(); sc != nil && via[sc] {
					return ""
				}
			}
		}
		if fromTable(v, 0) {
			return ""
		}
		return fmt.Sprintf("%s (%T)", v.String(), v)
	}
	n := 0
	for _, b := range f.Blocks {
		for _, in := range b.Instrs {
			ret, ok := in.(*ssa.Return)
			if !ok {
				continue
			}
			n++
			curRet = ret
			nilOK = c.zero || testedNonNil(ret.Results[c.resultIdx], ret.Block())
			s := allowed(ret.Results[c.resultIdx], 0)
			if s != "" {
				r.Bad(rule, key, p.IPos(in), fmt.Sprintf("%s returns %s, which is neither an entry of %v nor the documented default: the lookup can disagree with a scan of its table", c.fn, s, c.table))
				return
			}
		}
	}
	r.Check(n > 0, rule, key, p.Pos(f.Pos()), fmt.Sprintf("all %d returns yield a value taken from %v or the default", n, c.table))
	if c.noRuneCmp {
		// a range test on the rune in front of the table ("fast path") makes the answer a function of something else
		// than the table: the default can then be returned for runes the table lists
		key2 := key + "/no range test on the rune"
		r.Instance(rule, key2)
		var bad ssa.Instruction
		for _, b := range f.Blocks {
			for _, in := range b.Instrs {
				bo, ok := in.(*ssa.BinOp)
				if !ok {
					continue
				}
				switch bo.Op {
				case token.LSS, token.LEQ, token.GTR, token.GEQ, token.EQL, token.NEQ:
				default:
					continue
				}
				for _, pair := range [][2]ssa.Value{{bo.X, bo.Y}, {bo.Y, bo.X}} {
					if _, isK := pair[1].(*ssa.Const); !isK {
						continue
					}
					// a test of the validity of the rune (negative, above U+10FFFF) is not a range test on assigned runes
					if k, ok := intConst(pair[1]); ok && (k <= 0 || k >= 0x10FFFF) {
						continue
					}
					v := stripConv(pair[0])
					if par, ok := v.(*ssa.Parameter); ok && len(f.Params) > 0 && par == f.Params[0] {
						bad = in
					}
				}
			}
		}
		pos := p.Pos(f.Pos())
		if bad != nil {
			pos = p.IPos(bad)
		}
		r.Check(bad == nil, rule, key2, pos, fmt.Sprintf("%s compares its rune with no constant: the answer depends on the rune only through %v", c.fn, c.table))
	}
}

func isZeroConst(c *ssa.Const) bool {
	if c.Value == nil {
		return true
	}
	s := c.Value.ExactString()
	return s == "0" || s == "false" || s == `""`
}

// ruleAppendOnly: the byte slice returned by fn is built only by append of values loaded from the table, and nothing else
// writes or replaces it (NewLanguage emits only canonMap values).
func ruleAppendOnly(p *Prog, r *Report, pkg, fn, table string) {
	const rule = "R-TABONLY"
	f := p.Func(pkg, "", fn)
	tab := p.Obj(pkg, table)
	key := pkg + "." + fn
	r.Instance(rule, key)
	isTabLoad := func(v ssa.Value) bool {
		u, ok := stripConv(v).(*ssa.UnOp)
		if !ok || u.Op != token.MUL {
			return false
		}
		ia, ok := u.X.(*ssa.IndexAddr)
		if !ok {
			return false
		}
		g, ok := ia.X.(*ssa.Global)
		return ok && g.Object() == tab
	}
	seenPhi := map[*ssa.Phi]bool{}
	var okVal func(v ssa.Value, d int) string
	okVal = func(v ssa.Value, d int) string {
		if d > 40 {
			return "too deep"
		}
		switch x := stripConv(v).(type) {
		case *ssa.MakeSlice:
			return ""
		case *ssa.Phi:
			if seenPhi[x] {
				return ""
			}
			seenPhi[x] = true
			for _, e := range x.Edges {
				if s := okVal(e, d+1); s != "" {
					return s
				}
			}
			return ""
		case *ssa.Call:
			if bi, ok := x.Common().Value.(*ssa.Builtin); ok && bi.Name() == "append" {
				if s := okVal(x.Common().Args[0], d+1); s != "" {
					return s
				}
				// appended elements: a slice literal built from table loads (variadic) or a single value
				for _, a := range x.Common().Args[1:] {
					if !appendedFromTable(a, isTabLoad) {
						return "append of a value that is not loaded from " + table
					}
				}
				return ""
			}
			return "result of " + x.String()
		}
		return fmt.Sprintf("%s (%T)", v.String(), v)
	}
	n := 0
	for _, b := range f.Blocks {
		for _, in := range b.Instrs {
			if ret, ok := in.(*ssa.Return); ok {
				n++
				if s := okVal(ret.Results[0], 0); s != "" {
					r.Bad(rule, key, p.IPos(in), fmt.Sprintf("the value returned by %s is not built solely by appending %s entries (%s): canonicalization may emit or rearrange other bytes", fn, table, s))
					return
				}
			}
		}
	}
	r.Check(n > 0, rule, key, p.Pos(f.Pos()), "the result is built only by appending values loaded from "+table)
}

func appendedFromTable(a ssa.Value, isTabLoad func(ssa.Value) bool) bool {
	if isTabLoad(a) {
		return true
	}
	if s, ok := a.(*ssa.Slice); ok {
		if al, ok := s.X.(*ssa.Alloc); ok {
			okAll, any := true, false
			for _, in := range *al.Referrers() {
				if ia, ok := in.(*ssa.IndexAddr); ok {
					for _, in2 := range *ia.Referrers() {
						if st, ok := in2.(*ssa.Store); ok {
							any = true
							if !isTabLoad(st.Val) {
								okAll = false
							}
						}
					}
				}
			}
			return okAll && any
		}
	}
	return false
}
