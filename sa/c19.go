package main

// c19.go — C19 Written font files read back unchanged (R-RO, R-DIR).

import (
	"fmt"
	"go/token"
	"go/types"
	"os"
	"sort"
	"strings"

	"golang.org/x/tools/go/ssa"
)

func init() {
	register(&propDef{id: "C19", run: runC19, controls: controlsC19})
}

// ruleReadOnlyParam: no mutation anywhere in the module targets memory derived from the given parameter of fn.
func ruleReadOnlyParam(p *Prog, r *Report, rule string, fn *ssa.Function, param string) {
	var root *ssa.Parameter
	for _, prm := range fn.Params {
		if prm.Name() == param {
			root = prm
		}
	}
	if root == nil {
		undecided("anchor: parameter %s of %s not found", param, p.FnName(fn))
	}
	t := NewTaint(p)
	t.rootValue = func(v ssa.Value) bool { return v == ssa.Value(root) }
	t.Run()
	key0 := p.FnName(fn) + "(" + param + ")"
	r.Instance(rule, key0)
	fns := map[*ssa.Function]bool{}
	for v := range t.tainted {
		if v.Parent() != nil {
			fns[v.Parent()] = true
		}
	}
	var list []*ssa.Function
	for f := range fns {
		list = append(list, f)
	}
	sort.Slice(list, func(i, j int) bool { return list[i].String() < list[j].String() })
	r.Count("functions_receiving_caller_memory", len(list))
	for _, f := range list {
		bad := false
		n := 0
		for _, m := range mutationsOf(f) {
			n++
			if !t.Is(m.target) {
				continue
			}
			if _, isAlloc := m.target.(*ssa.Alloc); isAlloc {
				continue
			}
			if localRoot(m.target) != nil {
				continue
			}
			bad = true
			r.Bad(rule, key0+"/"+p.FnName(f), p.IPos(m.in), fmt.Sprintf("%s in %s targets memory derived from the caller's %s: the caller's buffers are modified", m.what, p.FnName(f), param), t.Trace(m.target)...)
			break
		}
		if !bad {
			r.OK(rule, key0+"/"+p.FnName(f), p.Pos(f.Pos()), fmt.Sprintf("receives memory derived from %s; none of its %d mutation sites targets it", param, n))
		}
	}
}

func runC19(p *Prog, r *Report) {
	r.Explain = append(r.Explain, "R-RO: with the `tables` parameter of WriteTTF as root, no store, copy/append destination, Put* destination or other mutation in any function targets memory derived from it (an append whose first operand is caller memory may write into its spare capacity).")
	ruleReadOnlyParam(p, r, "R-RO", p.Func("font/opentype", "", "WriteTTF"), "tables")
	r.Explain = append(r.Explain, "R-DIR: the directory entry written by WriteTTF agrees with the one read by readOTFEntry: at each offset the reader assigns to Tag/CheckSum/Offset/Length, the writer stores a 32-bit value of that role (the table's Tag, the checksum of that table's Content, the running offset, len(Content)); the running offset of the directory loop and of the body copy loop are the same recurrence; numTables is written where readOTFHeader reads it.")
	ruleDir(p, r, dirCfg{versionFromTables: true, pkg: "font/opentype", writer: "WriteTTF", hdrWriter: "writeTTFHeader", reader: "readOTFEntry", hdrReader: "readOTFHeader",
		entryType: "otfEntry", tableType: "Table", checksum: "checksum"})
	r.Assumptions = append(r.Assumptions, "encoding/binary.BigEndian Put*/Uint* are trusted", "checksum arithmetic, searchRange/entrySelector/rangeShift values and absence of uint32 overflow of offsets are NOT decided")
	r.NotDecided = append(r.NotDecided, "numeric correctness of checksums and header search fields", "byte-for-byte round trip through the Loader")
}

type dirCfg struct {
	versionFromTables bool // also require the version tag of the header to be computed from the tables
	pkg, writer, hdrWriter, reader, hdrReader, entryType, tableType, checksum string
}

// sliceLow returns the constant low bound of a Slice expression (0 if absent) and the sliced value.
func sliceLow(v ssa.Value) (ssa.Value, int64, bool) {
	s, ok := v.(*ssa.Slice)
	if !ok {
		return v, 0, true
	}
	if s.Low == nil {
		return s.X, 0, true
	}
	c, ok := intConst(s.Low)
	if !ok {
		// the value is itself a window positioned at a computed offset: offset 0 inside that window
		return v, 0, true
	}
	return s.X, c, ok
}

type dirItem struct {
	off   int64
	width int
	val   ssa.Value // writer: value written; reader: nil
	field string    // reader: destination field
	in    ssa.Instruction
}

func binaryCall(in ssa.Instruction) (name string, c *ssa.CallCommon) {
	call, ok := in.(*ssa.Call)
	if !ok {
		return "", nil
	}
	sc := call.Common().StaticCallee()
	if sc == nil {
		return "", nil
	}
	s := sc.String()
	const pre = "(encoding/binary.bigEndian)."
	if len(s) > len(pre) && s[:len(pre)] == pre {
		return s[len(pre):], call.Common()
	}
	return "", nil
}

func widthOf(name string) int {
	switch name {
	case "PutUint16", "Uint16":
		return 2
	case "PutUint32", "Uint32":
		return 4
	case "PutUint64", "Uint64":
		return 8
	}
	return 0
}

func ruleDir(p *Prog, r *Report, c dirCfg) {
	const rule = "R-DIR"
	reader := p.Func(c.pkg, "", c.reader)
	writer := p.Func(c.pkg, "", c.writer)
	// reader: entry.F = Uint32(buf[k:..])
	readAt := map[string]dirItem{}
	for _, b := range reader.Blocks {
		for _, in := range b.Instrs {
			st, ok := in.(*ssa.Store)
			if !ok {
				continue
			}
			fa, ok := st.Addr.(*ssa.FieldAddr)
			if !ok {
				continue
			}
			fld := fieldOf(fa)
			call, ok := stripConv(st.Val).(*ssa.Call)
			if !ok {
				continue
			}
			name, cc := binaryCall(call)
			if cc == nil || widthOf(name) == 0 || name[0] != 'U' {
				continue
			}
			_, off, okc := sliceLow(cc.Args[len(cc.Args)-1])
			if !okc {
				undecided("R-DIR: non-constant read offset in %s", c.reader)
			}
			readAt[fld.Name()] = dirItem{off: off, width: widthOf(name), field: fld.Name(), in: in}
		}
	}
	r.Floor(rule+"(reader fields)", len(readAt), 4)
	// writer: PutUintN(slice[k:], v) where slice is the entry window
	var written []dirItem
	for _, b := range writer.Blocks {
		for _, in := range b.Instrs {
			name, cc := binaryCall(in)
			if cc == nil || widthOf(name) == 0 || name[0] != 'P' {
				continue
			}
			args := cc.Args
			dst, val := args[len(args)-2], args[len(args)-1]
			base, off, okc := sliceLow(dst)
			if !okc {
				undecided("R-DIR: non-constant write offset in %s", c.writer)
			}
			// the entry window is a slice positioned at a computed offset (it depends on the index of the table);
			// a store at a constant offset of the whole buffer belongs to the file header, not to an entry
			if win, isWin := base.(*ssa.Slice); !isWin || win.Low == nil {
				continue
			} else if _, constLow := intConst(win.Low); constLow {
				continue
			}
			written = append(written, dirItem{off: off, width: widthOf(name), val: val, in: in})
		}
	}
	r.Floor(rule+"(writer items)", len(written), 4)
	// the version tag: one 32-bit store at offset 0 of the file (the whole buffer, in the writer or in a callee that
	// receives it) carries a value computed from the tables — a constant tag cannot be right for both outline formats
	if c.versionFromTables {
		key := c.writer + "/version tag"
		r.Instance(rule, key)
		fromTables := false
		n0 := 0
		var scan func(f *ssa.Function, depth int)
		scan = func(f *ssa.Function, depth int) {
			for _, b := range f.Blocks {
				for _, in := range b.Instrs {
					name, cc := binaryCall(in)
					if cc != nil && widthOf(name) == 4 && name[0] == 'P' {
						args := cc.Args
						dst, val := args[len(args)-2], args[len(args)-1]
						base, off, okc := sliceLow(dst)
						if _, isWin := base.(*ssa.Slice); okc && off == 0 && !isWin {
							n0++
							if _, isConst := stripConv(val).(*ssa.Const); !isConst && derivesFrom(val, func(x ssa.Value) bool {
								pa, ok := x.(*ssa.Parameter)
								return ok && pa.Parent() == writer
							}, 0) {
								fromTables = true
							}
						}
						continue
					}
					if call, ok := in.(*ssa.Call); ok && depth < 1 {
						if sc := call.Common().StaticCallee(); sc != nil && sc.Blocks != nil && fnPkg(sc) == fnPkg(writer) {
							scan(sc, depth+1)
						}
					}
				}
			}
		}
		scan(writer, 0)
		r.Check(n0 > 0 && fromTables, rule, key, p.Pos(writer.Pos()), fmt.Sprintf("the version tag at offset 0 of the file is computed from the tables (%d store(s) at that offset): 'OTTO' for CFF outlines, 0x00010000 otherwise", n0))
	}
	tableT := p.Named(c.pkg, c.tableType)
	isFieldOfTable := func(v ssa.Value, name string) bool {
		return derivesFrom(v, func(x ssa.Value) bool {
			if f := fieldOf(x); f != nil && f.Name() == name {
				switch y := x.(type) {
				case *ssa.Field:
					return types.Identical(y.X.Type(), tableT)
				case *ssa.FieldAddr:
					return types.Identical(deref(y.X.Type()), tableT)
				}
			}
			if u, ok := x.(*ssa.UnOp); ok && u.Op == token.MUL {
				if f := fieldOf(u.X); f != nil && f.Name() == name {
					return true
				}
			}
			return false
		}, 0)
	}
	isLenContent := func(v ssa.Value) bool {
		return derivesFrom(v, func(x ssa.Value) bool {
			cl, ok := x.(*ssa.Call)
			if !ok {
				return false
			}
			bi, ok := cl.Common().Value.(*ssa.Builtin)
			return ok && bi.Name() == "len" && isFieldOfTable(cl.Common().Args[0], "Content")
		}, 0)
	}
	csFn := p.Func(c.pkg, "", c.checksum)
	// a word of the table's own content (binary.BigEndian.UintN(table.Content[k:]))
	isContentWord := func(v ssa.Value) bool {
		cl, ok := stripConv(v).(*ssa.Call)
		if !ok {
			return false
		}
		name, cc := binaryCall(cl)
		if cc == nil || widthOf(name) == 0 || name[0] != 'U' {
			return false
		}
		a := cc.Args[len(cc.Args)-1]
		if sl, ok := a.(*ssa.Slice); ok {
			a = sl.X
		}
		return isFieldOfTable(a, "Content")
	}
	// the checksum of the table's content, possibly corrected by words of that same content (the 'head' rule)
	var isChecksumVal func(v ssa.Value, depth int) bool
	isChecksumVal = func(v ssa.Value, depth int) bool {
		v = stripConv(v)
		if depth > 6 {
			return false
		}
		switch x := v.(type) {
		case *ssa.Call:
			return x.Common().StaticCallee() == csFn && isFieldOfTable(x.Common().Args[0], "Content")
		case *ssa.Phi:
			for _, e := range x.Edges {
				if !isChecksumVal(e, depth+1) {
					return false
				}
			}
			return len(x.Edges) > 0
		case *ssa.BinOp:
			if x.Op == token.SUB || x.Op == token.ADD {
				return isChecksumVal(x.X, depth+1) && isContentWord(x.Y)
			}
		}
		return false
	}
	role := func(v ssa.Value) string {
		v = stripConv(v)
		if cl, ok := v.(*ssa.Call); ok && cl.Common().StaticCallee() == csFn {
			if isFieldOfTable(cl.Common().Args[0], "Content") {
				return "CheckSum"
			}
			return "checksum of something else"
		}
		if isChecksumVal(v, 0) {
			return "CheckSum"
		}
		if ph, ok := v.(*ssa.Phi); ok {
			// running offset: one edge adds len(Content) to the phi itself, possibly rounded up (alignment)
			for _, e := range ph.Edges {
				if _, ok := advanceOf(e, ph, isLenContent); ok {
					return "Offset"
				}
			}
			return "phi"
		}
		if isLenContent(v) {
			return "Length"
		}
		if isFieldOfTable(v, "Tag") {
			return "Tag"
		}
		return "other"
	}
	for _, f := range []string{"Tag", "CheckSum", "Offset", "Length"} {
		rd, ok := readAt[f]
		key := c.entryType + "." + f
		r.Instance(rule, key)
		if !ok {
			r.Bad(rule, key, p.Pos(reader.Pos()), c.reader+" does not read field "+f)
			continue
		}
		found := false
		for _, w := range written {
			if w.off == rd.off {
				found = true
				ro := role(w.val)
				if w.width != rd.width {
					r.Bad(rule, key, p.IPos(w.in), fmt.Sprintf("written with %d bytes at offset %d but read with %d bytes", w.width, w.off, rd.width))
				} else if ro != f {
					r.Bad(rule, key, p.IPos(w.in), fmt.Sprintf("the value written at offset %d of the directory entry is %q, but %s reads %s there", w.off, ro, c.reader, f))
				} else {
					r.OK(rule, key, p.IPos(w.in), fmt.Sprintf("offset %d, %d bytes: writer stores the %s, reader assigns %s", w.off, w.width, ro, f))
				}
			}
		}
		if !found {
			r.Bad(rule, key, p.Pos(writer.Pos()), fmt.Sprintf("%s reads %s at offset %d but %s writes nothing there", c.reader, f, rd.off, c.writer))
		}
	}
	// body copy loop uses the same recurrence as the directory loop
	var offPhis []*ssa.Phi
	for _, b := range writer.Blocks {
		for _, in := range b.Instrs {
			if ph, ok := in.(*ssa.Phi); ok && role(ph) == "Offset" {
				offPhis = append(offPhis, ph)
			}
		}
	}
	key := c.writer + "/body-offset"
	r.Instance(rule, key)
	if len(offPhis) < 2 {
		r.Bad(rule, key, p.Pos(writer.Pos()), "expected two running offsets (directory loop and body copy loop) advancing by len(Content)")
	} else {
		init := func(ph *ssa.Phi) (ssa.Value, string) {
			var start ssa.Value
			shape := ""
			for _, e := range ph.Edges {
				if sh, ok := advanceOf(e, ph, isLenContent); ok {
					shape = sh
					continue
				}
				start = stripConv(e)
			}
			return start, shape
		}
		a, shA := init(offPhis[0])
		b, shB := init(offPhis[1])
		// same start value and same rounding of the advance in both loops
		same := a != nil && a == b && shA == shB
		// the copy destination must be sliced at the second running offset
		usedByCopy := false
		for _, blk := range writer.Blocks {
			for _, in := range blk.Instrs {
				if cl, ok := in.(*ssa.Call); ok {
					if bi, ok := cl.Common().Value.(*ssa.Builtin); ok && bi.Name() == "copy" {
						if s, ok := cl.Common().Args[0].(*ssa.Slice); ok && s.Low != nil {
							for _, ph := range offPhis {
								if stripConv(s.Low) == ssa.Value(ph) && isFieldOfTable(cl.Common().Args[1], "Content") {
									usedByCopy = true
								}
							}
						}
					}
				}
			}
		}
		if os.Getenv("VSA_DEBUG") != "" {
			fmt.Println("DEBUG body-offset", len(offPhis), a, b, same, usedByCopy)
		}
		r.Check(same && usedByCopy, rule, key, p.Pos(writer.Pos()), "directory offsets and body positions follow the same recurrence (same start value, advanced by len(Content)) and each Content is copied at its running offset")
		// the sfnt specification: every table starts on a 4-byte boundary
		keyA := c.writer + "/alignment"
		r.Instance(rule, keyA)
		r.Check(strings.Contains(shA, "&^3(+3(") && strings.Contains(shB, "&^3(+3("), rule, keyA, p.Pos(writer.Pos()), "the running offset is rounded up to a multiple of 4 after each table ((x+3)&^3), in the directory and in the body")
	}
	// header: numTables
	hw, hr := p.Func(c.pkg, "", c.hdrWriter), p.Func(c.pkg, "", c.hdrReader)
	var rOff int64 = -1
	for _, b := range hr.Blocks {
		for _, in := range b.Instrs {
			if name, cc := binaryCall(in); cc != nil && name == "Uint16" {
				_, off, ok := sliceLow(cc.Args[len(cc.Args)-1])
				if ok {
					rOff = off
				}
			}
		}
	}
	key = "header.numTables"
	r.Instance(rule, key)
	okH := false
	for _, b := range hw.Blocks {
		for _, in := range b.Instrs {
			if name, cc := binaryCall(in); cc != nil && name == "PutUint16" {
				_, off, ok := sliceLow(cc.Args[len(cc.Args)-2])
				if ok && off == rOff && derivesFrom(cc.Args[len(cc.Args)-1], func(x ssa.Value) bool { return len(hw.Params) > 0 && x == ssa.Value(hw.Params[0]) }, 0) {
					okH = true
				}
			}
		}
	}
	r.Check(okH && rOff >= 0, rule, key, p.Pos(hw.Pos()), fmt.Sprintf("the table count is written as 16 bits at offset %d, where %s reads it", rOff, c.hdrReader))
}

func controlsC19(cp *Prog, r *Report) {
	expectControl(r, "R-RO", func(cr *Report) {
		ruleReadOnlyParam(cp, cr, "R-RO", cp.Func("wr", "", "WriteGood"), "tables")
		ruleReadOnlyParam(cp, cr, "R-RO", cp.Func("wr", "", "WriteBad"), "tables")
	}, "wr.WriteBad(tables)/wr.sumBad")
	expectControl(r, "R-DIR", func(cr *Report) {
		ruleDir(cp, cr, dirCfg{pkg: "wr", writer: "WriteGood", hdrWriter: "headerGood", reader: "readEntry", hdrReader: "readHeader", entryType: "entry", tableType: "Table", checksum: "sumGood"})
	})
	expectControl(r, "R-DIR(bad)", func(cr *Report) {
		ruleDir(cp, cr, dirCfg{pkg: "wr", writer: "WriteBad", hdrWriter: "headerBad", reader: "readEntry", hdrReader: "readHeader", entryType: "entry", tableType: "Table", checksum: "sumBad"})
	}, "entry.CheckSum", "entry.Offset", "entry.Length", "WriteBad/body-offset", "WriteBad/alignment", "header.numTables")
}

// advanceOf: e is ph + len(Content), possibly rounded by a pure function of one argument (alignTable) or by the usual
// (x + k) &^ k arithmetic; returns a description of the rounding so that two recurrences can be compared.
func advanceOf(e ssa.Value, ph *ssa.Phi, isLen func(ssa.Value) bool) (string, bool) {
	shape := ""
	v := stripConv(e)
	for i := 0; i < 6; i++ {
		switch x := v.(type) {
		case *ssa.Call:
			if sc := x.Common().StaticCallee(); sc != nil && len(x.Common().Args) == 1 && pureAccessor(sc) {
				// the arithmetic of the callee on its parameter
				ret := sc.Blocks[0].Instrs[len(sc.Blocks[0].Instrs)-1].(*ssa.Return)
				w := stripConv(ret.Results[0])
				for j := 0; j < 6; j++ {
					bo, ok := w.(*ssa.BinOp)
					if !ok {
						break
					}
					k, isK := intConst(bo.Y)
					if !isK {
						break
					}
					shape += fmt.Sprintf("%s%d(", bo.Op, k)
					w = stripConv(bo.X)
				}
				v = stripConv(x.Common().Args[0])
				continue
			}
		case *ssa.BinOp:
			if k, ok := intConst(x.Y); ok && (x.Op == token.AND_NOT || x.Op == token.AND) {
				shape += fmt.Sprintf("%s%d(", x.Op, k)
				v = stripConv(x.X)
				continue
			}
			if x.Op == token.ADD {
				if k, ok := intConst(x.Y); ok {
					shape += fmt.Sprintf("%s%d(", x.Op, k)
					v = stripConv(x.X)
					continue
				}
				if stripConv(x.X) == ssa.Value(ph) && isLen(x.Y) || stripConv(x.Y) == ssa.Value(ph) && isLen(x.X) {
					return shape, true
				}
			}
		}
		break
	}
	return "", false
}
