package main

// c20.go — C20 Unicode and language lookups are coherent total functions (R-TAB, R-BITS).

func init() {
	register(&propDef{id: "C20", run: runC20, controls: controlsC20})
}

func tabExplain(r *Report) {
	r.Explain = append(r.Explain,
		"R-TAB: every package-level table literal is evaluated from the syntax tree (constants only, no init is run) and checked exhaustively, entry by entry: unicode.RangeTable well-formedness as unicode.Is requires it; pairwise disjointness of each lookup family enumerated from the array its lookup iterates; pre-filter tables equal to the union of their family; ScriptRanges sorted/disjoint; compose/decompose mutual inverses modulo 0-valued exclusions; mirroring involution; language table segments strictly sorted, canonical and consistent with the LangXx constants, tags unique over both segments; canonMap idempotent.",
		"R-LANGID: NewLangID returns a result of the search of the first table segment only for an exact match or after the second segment was searched (exact-first), which is what makes unique tags sufficient for every identifier to round-trip.")
}

func runC20(p *Prog, r *Report) {
	le := newLitEval(p)
	tabExplain(r)
	r.Explain = append(r.Explain, "R-BITS: di.Direction masks are distinct single bits; each setter changes, and each getter reads, only the bits of its own attribute (derived from the SSA of the methods, not from their text).")
	rtables, _ := ruleRangeTablesWF(p, r, le, []string{"unicodedata", "harfbuzz", "language", "segmenter", "shaping", "fontscan", "font"})
	r.Floor("R-TAB/wf", len(r.Instances["R-TAB/wf"]), 160)
	r.Explain = append(r.Explain, "R-TAB/blocks: in the general-category tables of unicodedata no two-point entry {Lo, Hi, Stride: Hi-Lo} has all the code points between its ends in that same category (per the unicode package of the Go release running the check): the large blocks that UnicodeData.txt gives as a First/Last pair of lines keep their interior.")
	ruleCategoryBlocks(p, r, rtables, "unicodedata", 25)
	ruleFamilyDisjoint(p, r, le, "unicodedata", "lineBreaks", "", 43)
	ruleFamilyDisjoint(p, r, le, "unicodedata", "graphemeBreaks", "graphemeBreakAll", 13)
	ruleFamilyDisjoint(p, r, le, "unicodedata", "wordBreaks", "wordBreakAll", 14)
	ruleFamilyDisjoint(p, r, le, "unicodedata", "combiningClasses", "", 50)
	ruleFamilyDisjoint(p, r, le, "harfbuzz", "generalCategories", "", 29)
	ruleSortedRanges(p, r, le, "language", "ScriptRanges", "Start", "End", 900)
	ruleDecomposition(p, r, le, decompCfg{pkg: "unicodedata", d1: "decompose1", d2: "decompose2", comp: "compose",
		hangulSBase: "HangulSBase", hangulSCount: "HangulSCount", floorD1: 1000, floorD2: 1000, floorCompose: 1000})
	ruleInvolution(p, r, le, "unicodedata", "mirroring", 400)
	ruleLanguages(p, r, le, langCfg{pkg: "language", table: "languagesInfos", split: "knownLangsCount", canon: "canonMap", idType: "LangID", constPrefix: "Lang", floor: 290})
	ruleLangID(p, r)
	r.Explain = append(r.Explain, "R-TAB/otlang: harfbuzz.otLanguages (language subtag to OpenType language system tags, searched by a hand-written bisection and read over runs of equal keys) has non-decreasing keys that are all primary language subtags (2 or 3 lower case ASCII letters) and tags that are 0 or four printable ASCII bytes.")
	ruleOTLanguages(p, r, le, "harfbuzz", "otLanguages", "language", "tag", 1000)
	ruleBits(p, r, bitsCfg{pkg: "di", typ: "Direction",
		masks: []string{"progression", "axisVertical", "verticalOrientationSet", "verticalSideways"},
		setters: map[string][]string{
			"SetProgression": {"progression"},
			"SwitchAxis":     {"axisVertical"},
			"SetSideways":    {"axisVertical", "verticalOrientationSet", "verticalSideways"},
		},
		getters: map[string][]string{
			"Progression":            {"progression"},
			"IsVertical":             {"axisVertical"},
			"Axis":                   {"axisVertical"},
			"HasVerticalOrientation": {"verticalOrientationSet"},
			"IsSideways":             {"axisVertical", "verticalSideways"},
		},
		independent: map[string][]string{
			"SetProgression": {"IsVertical", "Axis", "HasVerticalOrientation", "IsSideways"},
			"SwitchAxis":     {"Progression", "HasVerticalOrientation"},
			"SetSideways":    {"Progression"},
		}})
	r.Explain = append(r.Explain, "R-TABONLY: each table-driven lookup returns only values taken from its table (or the documented default / its own argument): LookupScript, the class lookups, LookupMirrorChar, Decompose/Compose (tables or the Hangul helpers); NewLanguage's result is built only by appending canonMap entries.")
	ruleTabOnly(p, r, tabOnlyCfg{pkg: "language", fn: "LookupScript", table: []string{"ScriptRanges"}, constants: []string{"Unknown"}})
	ruleTabOnly(p, r, tabOnlyCfg{pkg: "unicodedata", fn: "LookupLineBreakClass", table: []string{"lineBreaks"}, constants: []string{"BreakXX"}, noRuneCmp: true})
	ruleTabOnly(p, r, tabOnlyCfg{pkg: "unicodedata", fn: "LookupGraphemeBreakClass", table: []string{"graphemeBreaks"}, zero: true, noRuneCmp: true})
	ruleTabOnly(p, r, tabOnlyCfg{pkg: "unicodedata", fn: "LookupWordBreakClass", table: []string{"wordBreaks"}, zero: true, noRuneCmp: true})
	ruleTabOnly(p, r, tabOnlyCfg{pkg: "unicodedata", fn: "LookupType", table: []string{"categories"}, zero: true, noRuneCmp: true})
	ruleTabOnly(p, r, tabOnlyCfg{pkg: "unicodedata", fn: "LookupMirrorChar", table: []string{"mirroring"}, params: true})
	ruleTabOnly(p, r, tabOnlyCfg{pkg: "unicodedata", fn: "Decompose", table: []string{"decompose1", "decompose2"}, params: true, zero: true, viaFuncs: []fnRef{{"unicodedata", "", "decomposeHangul"}}})
	ruleTabOnly(p, r, tabOnlyCfg{pkg: "unicodedata", fn: "Compose", table: []string{"compose"}, viaFuncs: []fnRef{{"unicodedata", "", "composeHangul"}}})
	ruleAppendOnly(p, r, "language", "NewLanguage", "canonMap")
	r.Explain = append(r.Explain, "R-BISECT: every sort.Search whose predicate indexes a package-level table literal requires that table to be sorted by the compared key.")
	ruleBisect(p, r, le)
	r.Assumptions = append(r.Assumptions,
		"unicode.Is, sort.Search and the three-line bisections LookupScript/binarySearchLang are trusted to implement bisection over a sorted table",
		"the Hangul arithmetic of Compose/Decompose is not analysed",
		"agreement of the tables with the Unicode Character Database is NOT decided (no UCD in the sandbox); only internal coherence is")
	r.NotDecided = append(r.NotDecided, "that table contents equal the UCD", "behaviour of NewLanguage on arbitrary strings beyond canonMap idempotence")
}

func controlsC20(cp *Prog, r *Report) {
	le := newLitEval(cp)
	expectControl(r, "R-TAB/wf", func(cr *Report) { ruleRangeTablesWF(cp, cr, le, []string{"tab"}) },
		"tab.BadUnsorted", "tab.BadStride", "tab.BadR32Below", "tab.BadArr[1]")
	expectControl(r, "R-TAB/family", func(cr *Report) {
		ruleFamilyDisjoint(cp, cr, le, "tab", "famBad", "famBadAll", 2)
		ruleFamilyDisjoint(cp, cr, le, "tab", "famGood", "famGoodAll", 2)
	}, "tab.famBad/tab.FamB2", "tab.famBadAll=union(famBad)")
	expectControl(r, "R-TAB/sorted", func(cr *Report) {
		ruleSortedRanges(cp, cr, le, "tab", "rangesBad", "Start", "End", 2)
		ruleSortedRanges(cp, cr, le, "tab", "rangesGood", "Start", "End", 2)
	}, "tab.rangesBad")
	expectControl(r, "R-TAB/involution", func(cr *Report) {
		ruleInvolution(cp, cr, le, "tab", "mirrorBad", 2)
		ruleInvolution(cp, cr, le, "tab", "mirrorGood", 2)
	}, "tab.mirrorBad")
	expectControl(r, "R-TAB/decomp", func(cr *Report) {
		ruleDecomposition(cp, cr, le, decompCfg{pkg: "tab", d1: "d1Bad", d2: "d2Bad", comp: "compBad", hangulSBase: "SBase", hangulSCount: "SCount"})
		ruleDecomposition(cp, cr, le, decompCfg{pkg: "tab", d1: "d1Good", d2: "d2Good", comp: "compGood", hangulSBase: "SBase", hangulSCount: "SCount"})
	}, "tab.compBad->d2Bad", "tab.d2Bad->compBad", "tab.decompose-keys", "tab.decompose-acyclic")
	expectControl(r, "R-TAB/lang", func(cr *Report) {
		ruleLanguages(cp, cr, le, langCfg{pkg: "tab", table: "langsBad", split: "splitBad", canon: "canonBad", idType: "ID", constPrefix: "LB", floor: 2})
		ruleLanguages(cp, cr, le, langCfg{pkg: "tab", table: "langsGood", split: "splitGood", canon: "canonGood", idType: "ID", constPrefix: "LG", floor: 2})
	}, "tab.canonBad", "tab.langsBad[segment 0]", "tab.langsBad/canonical", "tab.LBDe", "tab.langsBad/roundtrip/fr", "tab.LBFr2")
	expectControl(r, "R-TABONLY", func(cr *Report) {
		ruleTabOnly(cp, cr, tabOnlyCfg{pkg: "tab", fn: "lookupGood", table: []string{"rangesGood"}, constants: []string{"unknownS"}})
		ruleTabOnly(cp, cr, tabOnlyCfg{pkg: "tab", fn: "lookupBad", table: []string{"rangesGood"}, constants: []string{"unknownS"}})
		ruleAppendOnly(cp, cr, "tab", "canonGoodFn", "canonGood")
		ruleAppendOnly(cp, cr, "tab", "canonBadFn", "canonGood")
	}, "tab.lookupBad", "tab.canonBadFn")
	expectControl(r, "R-BITS", func(cr *Report) {
		ruleBits(cp, cr, bitsCfg{pkg: "tab", typ: "Dir", masks: []string{"mA", "mB", "mC"},
			setters:     map[string][]string{"SetA": {"mA"}, "SetBBad": {"mB"}, "SetCBad": {"mA"}},
			getters:     map[string][]string{"A": {"mA"}, "BBad": {"mB"}},
			independent: map[string][]string{"SetA": {"BBad"}, "SetBBad": {"A"}}})
	}, "tab.mC", "tab.Dir.SetBBad", "tab.Dir.SetCBad", "tab.Dir.BBad", "tab.Dir.SetBBad⊥A", "tab.Dir.SetA⊥BBad")
}
