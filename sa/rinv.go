package main

// rinv.go — R-INV: invalidation completeness of memoising caches. For a cache of a computation C on an object of type T,
// Reads(C) is the set of T's fields read transitively by C (field-based). Every function outside C that may write such a
// field (other than a key component) must invalidate the cache on every path through the write, itself or — if it does
// not — every one of its callers must, up to the API boundary.

import (
	"fmt"
	"go/constant"
	"go/token"
	"go/types"
	"sort"
	"strings"

	"golang.org/x/tools/go/ssa"
)

type fnRef struct{ pkg, recv, name string }

type invalidator struct {
	call       *fnRef // a call of this function counts as invalidation
	storeField string // or: a store of the constant storeConst into this field of T
	storeFalse bool
	desc       string
}

type invCfg struct {
	name         string
	pkg, typ     string
	compute      []fnRef
	invalidators []invalidator
	keyFields    []string          // fields that are part of the cache key (their change needs no invalidation)
	keyCtor      *fnRef            // when set, the key fields are derived: fields of T passed to this key constructor (name prefix) by the computation, in a parameter that reaches its result; keyFields is then the expected minimum
	exempt       map[string]string // field -> reason (the cache itself, memo fields written by C, scratch)
	floorReads   int
}

// fieldsReadFrom: fields of T loaded in functions reachable from the roots (module functions only).
func reachableFns(p *Prog, roots []*ssa.Function) map[*ssa.Function]bool {
	seen := map[*ssa.Function]bool{}
	var down func(f *ssa.Function)
	down = func(f *ssa.Function) {
		if seen[f] || f.Blocks == nil || !p.inModule(fnPkg(f)) {
			return
		}
		seen[f] = true
		if n := p.CG().Nodes[f]; n != nil {
			for _, e := range n.Out {
				down(e.Callee.Func)
			}
		}
		for _, af := range f.AnonFuncs {
			down(af)
		}
	}
	for _, f := range roots {
		down(f)
	}
	return seen
}

func structFieldSet(T *types.Named) map[*types.Var]bool {
	out := map[*types.Var]bool{}
	if st, ok := T.Underlying().(*types.Struct); ok {
		for i := 0; i < st.NumFields(); i++ {
			out[st.Field(i)] = true
		}
	}
	return out
}

// topField: the field of T at the root of an address/value chain (x.f.g[i].h -> f), or nil.
func topFieldOf(v ssa.Value, tf map[*types.Var]bool) *types.Var {
	for i := 0; i < 12; i++ {
		switch x := v.(type) {
		case *ssa.FieldAddr:
			if f := fieldOf(x); tf[f] {
				return f
			}
			v = x.X
		case *ssa.Field:
			if f := fieldOf(x); tf[f] {
				return f
			}
			v = x.X
		case *ssa.IndexAddr:
			v = x.X
		case *ssa.Index:
			v = x.X
		case *ssa.Slice:
			v = x.X
		case *ssa.UnOp:
			if x.Op != token.MUL {
				return nil
			}
			v = x.X
		case *ssa.Lookup:
			v = x.X
		default:
			return nil
		}
	}
	return nil
}

// baseIsLocal: the object whose field is addressed was allocated in this function (constructor).
func baseIsLocal(v ssa.Value) bool {
	for i := 0; i < 12; i++ {
		switch x := v.(type) {
		case *ssa.FieldAddr:
			v = x.X
		case *ssa.IndexAddr:
			v = x.X
		case *ssa.Alloc:
			return true
		default:
			return false
		}
	}
	return false
}

type mutSite struct {
	in    ssa.Instruction
	field *types.Var
	what  string
}

// fieldMutations: instructions of f that write field fld of T (direct store, element store, map update, delete, append
// stored back is a store), excluding objects allocated in f.
func fieldMutations(f *ssa.Function, tf map[*types.Var]bool) []mutSite {
	var out []mutSite
	for _, m := range mutationsOf(f) {
		if strings.HasPrefix(m.what, "append") {
			continue // the result only matters when stored back, which is a store
		}
		fld := topFieldOf(m.target, tf)
		if fld == nil || baseIsLocal(m.target) {
			continue
		}
		out = append(out, mutSite{m.in, fld, m.what})
	}
	return out
}

func ruleInv(p *Prog, r *Report, c invCfg) {
	rule := "R-INV"
	T := p.Named(c.pkg, c.typ)
	tf := structFieldSet(T)
	var roots []*ssa.Function
	for _, cf := range c.compute {
		roots = append(roots, p.Func(cf.pkg, cf.recv, cf.name))
	}
	inC := reachableFns(p, roots)
	// Reads(C)
	reads := map[*types.Var]bool{}
	for f := range inC {
		for _, b := range f.Blocks {
			for _, in := range b.Instrs {
				switch x := in.(type) {
				case *ssa.FieldAddr:
					if fld := fieldOf(x); tf[fld] {
						reads[fld] = true
					}
				case *ssa.Field:
					if fld := fieldOf(x); tf[fld] {
						reads[fld] = true
					}
				}
			}
		}
	}
	isKey := map[string]bool{}
	if c.keyCtor != nil {
		for _, root := range roots {
			for _, b := range root.Blocks {
				for _, in := range b.Instrs {
					call, ok := in.(*ssa.Call)
					if !ok {
						continue
					}
					sc := call.Common().StaticCallee()
					if sc == nil || !strings.HasPrefix(sc.Name(), c.keyCtor.name) || sc.Signature.Recv() == nil || namedOf(sc.Signature.Recv().Type()) != p.Named(c.keyCtor.pkg, c.keyCtor.recv) {
						continue
					}
					for i, a := range call.Common().Args {
						src := map[*types.Var]bool{}
						findFieldSources(a, src, 0)
						for fld := range src {
							if tf[fld] && i > 0 && paramReachesReturn(p, sc, i, 0) {
								isKey[fld.Name()] = true
							}
						}
					}
				}
			}
		}
		for _, k := range c.keyFields {
			p.Field(c.pkg, c.typ, k)
			r.Check(isKey[k], rule, c.name+"/key("+k+")", p.Pos(roots[0].Pos()), fmt.Sprintf("the computation passes %s.%s to the key constructor %s*, in a parameter that reaches the key", c.typ, k, c.keyCtor.name))
		}
	} else {
		for _, k := range c.keyFields {
			p.Field(c.pkg, c.typ, k)
			isKey[k] = true
		}
	}
	for k := range c.exempt {
		p.Field(c.pkg, c.typ, k)
	}
	var tracked []*types.Var
	for fld := range reads {
		if isKey[fld.Name()] {
			continue
		}
		if _, ex := c.exempt[fld.Name()]; ex {
			continue
		}
		tracked = append(tracked, fld)
	}
	sort.Slice(tracked, func(i, j int) bool { return tracked[i].Name() < tracked[j].Name() })
	r.Floor(rule+"("+c.name+" reads)", len(tracked), c.floorReads)
	trackedSet := map[*types.Var]bool{}
	var names []string
	for _, f := range tracked {
		trackedSet[f] = true
		names = append(names, f.Name())
	}
	r.Instance(rule, fmt.Sprintf("%s: inputs {%s}", c.name, strings.Join(names, ", ")))

	// invalidation predicates
	type invPred struct {
		desc string
		is   func(in ssa.Instruction) bool
	}
	var preds []invPred
	for _, iv := range c.invalidators {
		iv := iv
		if iv.call != nil {
			fn := p.Func(iv.call.pkg, iv.call.recv, iv.call.name)
			preds = append(preds, invPred{iv.desc, func(in ssa.Instruction) bool { return staticCallTo(in, fn) }})
		} else {
			fld := p.Field(c.pkg, c.typ, iv.storeField)
			preds = append(preds, invPred{iv.desc, func(in ssa.Instruction) bool {
				st, ok := in.(*ssa.Store)
				if !ok || fieldOf(st.Addr) != fld {
					return false
				}
				if iv.storeFalse {
					cst, ok := st.Val.(*ssa.Const)
					return ok && cst.Value != nil && cst.Value.Kind() == constant.Bool && !constant.BoolVal(cst.Value)
				}
				return true
			}})
		}
	}
	fns := p.ModFns()
	for _, pr := range preds {
		must := mustCallSummary(p, fns, pr.is)
		isInv := func(in ssa.Instruction) bool {
			if pr.is(in) {
				return true
			}
			if cl, ok := in.(*ssa.Call); ok {
				if sc := cl.Common().StaticCallee(); sc != nil && must[sc] {
					return true
				}
			}
			return false
		}
		// mutating[f] = fields f may leave mutated without invalidation (locally unprotected sites), propagated to callers
		type pending struct {
			field *types.Var
			via   []string
		}
		unprotected := map[*ssa.Function][]pending{}
		protectedSites := 0
		for _, f := range fns {
			if inC[f] {
				continue
			}
			for _, m := range fieldMutations(f, tf) {
				if !trackedSet[m.field] {
					continue
				}
				okF, _ := mustFollow(p, f, after(m.in), isInv)
				okP, _ := mustPrecede(p, f, m.in, isInv, nil)
				if okF || okP {
					protectedSites++
					r.OK(rule, fmt.Sprintf("%s/%s/%s/%s", c.name, pr.desc, p.FnName(f), m.field.Name()), p.IPos(m.in), fmt.Sprintf("%s of %s.%s is accompanied by %s on every path", m.what, c.typ, m.field.Name(), pr.desc))
				} else {
					unprotected[f] = append(unprotected[f], pending{m.field, []string{fmt.Sprintf("%s of %s.%s in %s at %s", m.what, c.typ, m.field.Name(), p.FnName(f), p.IPos(m.in))}})
				}
			}
		}
		// propagate to callers
		reported := map[string]bool{}
		visited := map[*ssa.Function]map[*types.Var]bool{}
		var up func(f *ssa.Function, pd pending, depth int)
		up = func(f *ssa.Function, pd pending, depth int) {
			if visited[f] == nil {
				visited[f] = map[*types.Var]bool{}
			}
			if visited[f][pd.field] && depth > 0 {
				return
			}
			visited[f][pd.field] = true
			n := p.CG().Nodes[f]
			var callers []*ssa.Function
			sites := map[*ssa.Function][]ssa.CallInstruction{}
			if n != nil {
				for _, e := range n.In {
					cf := e.Caller.Func
					if e.Site == nil || inC[cf] || !p.inModule(fnPkg(cf)) {
						continue
					}
					if _, ok := sites[cf]; !ok {
						callers = append(callers, cf)
					}
					sites[cf] = append(sites[cf], e.Site)
				}
			}
			exported := f.Object() != nil && f.Object().Exported()
			if len(callers) == 0 || exported || depth > 6 {
				key := fmt.Sprintf("%s/%s/%s/%s", c.name, pr.desc, p.FnName(f), pd.field.Name())
				if !reported[key] {
					reported[key] = true
					r.Bad(rule, key, p.Pos(f.Pos()), fmt.Sprintf("%s may change %s.%s, an input of %s, without %s on every path: a stale cached result survives", p.FnName(f), c.typ, pd.field.Name(), c.name, pr.desc), pd.via...)
				}
				return
			}
			sort.Slice(callers, func(i, j int) bool { return callers[i].String() < callers[j].String() })
			for _, cf := range callers {
				for _, site := range sites[cf] {
					okF, _ := mustFollow(p, cf, after(site), isInv)
					okP, _ := mustPrecede(p, cf, site, isInv, nil)
					if okF || okP {
						r.OK(rule, fmt.Sprintf("%s/%s/%s/%s", c.name, pr.desc, p.FnName(cf), pd.field.Name()), p.IPos(site), fmt.Sprintf("calls %s (which changes %s.%s) and performs %s on every path", p.FnName(f), c.typ, pd.field.Name(), pr.desc))
						continue
					}
					up(cf, pending{pd.field, append(append([]string{}, pd.via...), fmt.Sprintf("called from %s at %s", p.FnName(cf), p.IPos(site)))}, depth+1)
				}
			}
		}
		var fs []*ssa.Function
		for f := range unprotected {
			fs = append(fs, f)
		}
		sort.Slice(fs, func(i, j int) bool { return fs[i].String() < fs[j].String() })
		for _, f := range fs {
			for _, pd := range unprotected[f] {
				up(f, pd, 0)
			}
		}
	}
}
