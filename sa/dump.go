package main

import (
	"fmt"
	"go/token"
	"go/types"
	"golang.org/x/tools/go/ssa"
	"os"
	"sort"
)

func init() {
	if len(os.Args) > 2 && os.Args[1] == "dump" {
		p := Load(LoadOpts{Dir: repoDir(), Patterns: []string{"./..."}, ModPath: modPath, MinPkgs: 13})
		switch os.Args[2] {
		case "sccs":
			for _, s := range recursiveSCCs(p) {
				fmt.Printf("SCC %s (%d fns, %d edges)\n", s.name, len(s.fns), len(s.edges))
				for _, f := range s.fns {
					fmt.Printf("   fn %s\n", p.FnName(f))
				}
				for _, e := range s.edges {
					fmt.Printf("   edge %s -> %s at %s\n", p.FnName(e.caller), p.FnName(e.callee), p.IPos(e.site))
				}
			}
		}
		os.Exit(0)
	}
}

func init() {
	if len(os.Args) > 4 && os.Args[1] == "callees" {
		p := Load(LoadOpts{Dir: repoDir(), Patterns: []string{"./..."}, ModPath: modPath, MinPkgs: 13})
		f := p.Func(os.Args[2], os.Args[3], os.Args[4])
		for _, b := range f.Blocks {
			for _, in := range b.Instrs {
				if c, ok := in.(ssa.CallInstruction); ok {
					fmt.Printf("%s: %v ->", p.IPos(in), in)
					for _, g := range p.Callees(c) {
						fmt.Printf(" %s(pure=%v)", p.FnName(g), pureFn(g))
					}
					fmt.Println()
				}
			}
		}
		os.Exit(0)
	}
}

func init() {
	if len(os.Args) > 4 && os.Args[1] == "ssa" {
		p := Load(LoadOpts{Dir: repoDir(), Patterns: []string{"./..."}, ModPath: modPath, MinPkgs: 13})
		f := p.Func(os.Args[2], os.Args[3], os.Args[4])
		if len(os.Args) > 5 { // print callees' bodies of invoke named os.Args[5]
			for _, b := range f.Blocks {
				for _, in := range b.Instrs {
					if c, ok := in.(ssa.CallInstruction); ok && c.Common().IsInvoke() && c.Common().Method.Name() == os.Args[5] {
						for _, g := range p.Callees(c) {
							g.WriteTo(os.Stdout)
						}
						os.Exit(0)
					}
				}
			}
		}
		f.WriteTo(os.Stdout)
		os.Exit(0)
	}
}

func init() {
	if len(os.Args) > 4 && os.Args[1] == "fx" {
		p := Load(LoadOpts{Dir: repoDir(), Patterns: []string{"./..."}, ModPath: modPath, MinPkgs: 13})
		fx := NewFX(p)
		fx.Run()
		f := p.Func(os.Args[2], os.Args[3], os.Args[4])
		only := map[string]bool{}
		for _, t := range os.Args[5:] {
			only[t] = true
		}
		for i, fld := range fx.fields {
			if !fx.exposed[f].has(i) {
				continue
			}
			own := fx.owner[fld].Obj().Name()
			if len(only) > 0 && !only[own] {
				continue
			}
			fmt.Printf("EXPOSED %s.%s\n", own, fld.Name())
			for _, l := range fx.ExposedPath(f, i) {
				fmt.Println("     ", l)
			}
		}
		fmt.Println("MUST:", len(fx.names(fx.must[f])))
		os.Exit(0)
	}
}

func init() {
	if len(os.Args) > 3 && os.Args[1] == "leaves" {
		p := Load(LoadOpts{Dir: repoDir(), Patterns: []string{"./..."}, ModPath: modPath, MinPkgs: 13})
		fx := NewFX(p)
		for _, i := range fx.leavesOf(p.Named(os.Args[2], os.Args[3]), 0) {
			fmt.Println(fx.owner[fx.fields[i]].Obj().Name() + "." + fx.fields[i].Name())
		}
		os.Exit(0)
	}
}

func init() {
	if len(os.Args) > 4 && os.Args[1] == "fxevents" {
		p := Load(LoadOpts{Dir: repoDir(), Patterns: []string{"./..."}, ModPath: modPath, MinPkgs: 13})
		fx := NewFX(p)
		f := p.Func(os.Args[2], os.Args[3], os.Args[4])
		evs := fx.events(f)
		for _, b := range f.Blocks {
			for _, e := range evs[b] {
				n := ""
				if e.kind != 2 {
					n = fx.owner[fx.fields[e.field]].Obj().Name() + "." + fx.fields[e.field].Name()
				}
				fmt.Printf("block %d kind %d %s extra=%d  %v @%s\n", b.Index, e.kind, n, len(e.extra), e.in, p.IPos(e.in))
			}
		}
		os.Exit(0)
	}
}

func init() {
	if len(os.Args) > 4 && os.Args[1] == "callers" {
		p := Load(LoadOpts{Dir: repoDir(), Patterns: []string{"./..."}, ModPath: modPath, MinPkgs: 13})
		f := p.Func(os.Args[2], os.Args[3], os.Args[4])
		for _, e := range p.CG().Nodes[f].In {
			fmt.Printf("%s  site=%v pos=%s\n", p.FnName(e.Caller.Func), e.Site, p.IPos(e.Site))
			for i, a := range e.Site.Common().Args {
				fmt.Printf("    arg%d %T %v : %s\n", i, a, a, a.Type())
			}
		}
		os.Exit(0)
	}
}

func init() {
	if len(os.Args) > 2 && os.Args[1] == "loops" {
		p := Load(LoadOpts{Dir: repoDir(), Patterns: []string{"./..."}, ModPath: modPath, MinPkgs: 13})
		r := NewReport("X", "quick")
		ruleLoop(p, r, os.Args[2:])
		for _, o := range r.Obls {
			fmt.Println(o.Status, o.Key, o.Pos)
		}
		fmt.Println(r.Analysed)
		os.Exit(0)
	}
}

func init() {
	if len(os.Args) > 2 && os.Args[1] == "divs" {
		p := Load(LoadOpts{Dir: repoDir(), Patterns: []string{"./..."}, ModPath: modPath, MinPkgs: 13})
		n := 0
		for _, f := range p.ModFns() {
			for _, b := range f.Blocks {
				for _, in := range b.Instrs {
					bo, ok := in.(*ssa.BinOp)
					if !ok || (bo.Op != token.QUO && bo.Op != token.REM) {
						continue
					}
					bt, ok := bo.Type().Underlying().(*types.Basic)
					if !ok || bt.Info()&types.IsInteger == 0 {
						continue
					}
					if c, ok := intConst(bo.Y); ok && c != 0 {
						continue
					}
					n++
					fmt.Printf("%s %s : %v / %v (%T)\n", p.IPos(in), p.FnName(f), bo.X, bo.Y, bo.Y)
				}
			}
		}
		fmt.Println(n)
		os.Exit(0)
	}
}

func init() {
	if len(os.Args) > 2 && os.Args[1] == "rdiv" {
		p := Load(LoadOpts{Dir: repoDir(), Patterns: []string{"./..."}, ModPath: modPath, MinPkgs: 13})
		r := NewReport("X", "quick")
		ruleDiv(p, r, os.Args[2:], nil, 1)
		for _, o := range r.Obls {
			fmt.Println(o.Status, o.Key, o.Pos)
		}
		os.Exit(0)
	}
}

func init() {
	if len(os.Args) > 2 && os.Args[1] == "plinctl" {
		cp := loadControls()
		r := NewReport("X", "quick")
		ruleGen(cp, r, "R-GEN", func(f *ssa.Function) bool { return fnPkg(f) != nil && fnPkg(f).Path() == "ctl/"+os.Args[2] }, nil, 1)
		for _, o := range r.Obls {
			fmt.Println(o.Status, o.Key, o.Pos, o.Detail)
		}
		os.Exit(0)
	}
}

func init() {
	if len(os.Args) > 2 && os.Args[1] == "plin" {
		p := Load(LoadOpts{Dir: repoDir(), Patterns: []string{"./..."}, ModPath: modPath, MinPkgs: 13})
		r := NewReport("X", "quick")
		pk := map[string]bool{}
		for _, a := range os.Args[2:] {
			if a == "-all" {
				allSlices = true
				continue
			}
			if a == "-readers" {
				allSlices = true
				readersOnly = true
				continue
			}
			pk[p.pkgPath(a)] = true
		}
		ruleGen(p, r, "R-GEN", func(f *ssa.Function) bool {
			if fnPkg(f) == nil || !pk[fnPkg(f).Path()] {
				return false
			}
			if !readersOnly {
				return true
			}
			return isReader(f)
		}, nil, 1)
		nb := 0
		for _, o := range r.Obls {
			if o.Status == Violated {
				nb++
				fmt.Println(o.Key, o.Pos, o.Detail[:min(len(o.Detail), 150)])
			}
		}
		fmt.Println("functions:", len(r.Obls), "violated:", nb, r.Analysed)
		os.Exit(0)
	}
}

func min(a, b int) int {
	if a < b {
		return a
	}
	return b
}

func init() {
	// vsa ridxgen <pkgs...>: prints the access keys (function/field) whose bounds are proved today
	if len(os.Args) > 2 && os.Args[1] == "ridxgen" {
		p := Load(LoadOpts{Dir: repoDir(), Patterns: []string{"./..."}, ModPath: modPath, MinPkgs: 13})
		for _, k := range idxKeys(p, os.Args[2:]) {
			fmt.Println(k)
		}
		os.Exit(0)
	}
}

func init() {
	// vsa narrow <pkgs...>: additions/products carried out in 8/16-bit integer types whose result reaches a size or a bound
	if len(os.Args) > 2 && os.Args[1] == "narrow" {
		p := Load(LoadOpts{Dir: repoDir(), Patterns: []string{"./..."}, ModPath: modPath, MinPkgs: 13})
		pk := map[string]bool{}
		for _, a := range os.Args[2:] {
			pk[p.pkgPath(a)] = true
		}
		for _, f := range p.ModFns() {
			if fnPkg(f) == nil || !pk[fnPkg(f).Path()] {
				continue
			}
			for _, b := range f.Blocks {
				for _, in := range b.Instrs {
					bo, ok := in.(*ssa.BinOp)
					if !ok || bo.Op != token.ADD && bo.Op != token.MUL && bo.Op != token.SHL {
						continue
					}
					bits, _, ok := intKind(bo.Type())
					if !ok || bits > 16 {
						continue
					}
					if _, c1 := bo.X.(*ssa.Const); c1 {
						if _, c2 := bo.Y.(*ssa.Const); c2 {
							continue
						}
					}
					// uses
					use := narrowUse(bo, 0, map[ssa.Value]bool{})
					if use != "" {
						fmt.Printf("%s %s: %s used as %s\n", p.IPos(bo), p.FnName(f), bo.String(), use)
					}
				}
			}
		}
		os.Exit(0)
	}
}

func narrowUse(v ssa.Value, depth int, seen map[ssa.Value]bool) string {
	if depth > 6 || seen[v] {
		return ""
	}
	seen[v] = true
	refs := v.Referrers()
	if refs == nil {
		return ""
	}
	for _, in := range *refs {
		switch x := in.(type) {
		case *ssa.MakeSlice:
			return "make size"
		case *ssa.Slice:
			if x.Low == v || x.High == v {
				return "slice bound"
			}
		case *ssa.IndexAddr:
			if x.Index == v {
				return "index"
			}
		case *ssa.Index:
			if x.Index == v {
				return "index"
			}
		case *ssa.Return:
			return "returned value"
		case *ssa.Convert:
			if u := narrowUse(x, depth+1, seen); u != "" {
				return u
			}
		case *ssa.Phi:
			if u := narrowUse(x, depth+1, seen); u != "" {
				return u
			}
		case *ssa.BinOp:
			switch x.Op {
			case token.LSS, token.LEQ, token.GTR, token.GEQ:
				return "comparison operand"
			case token.ADD, token.SUB, token.MUL:
				if b, _, ok := intKind(x.Type()); ok && b > 16 {
					if u := narrowUse(x, depth+1, seen); u != "" {
						return u
					}
				}
			}
		}
	}
	return ""
}

var readersOnly = false

func init() {
	// vsa rgenkeys: prints the table rgenNotClaimedAccess (underivable accesses of the not-claimed functions of R-GEN)
	if len(os.Args) > 1 && os.Args[1] == "rgenkeys" {
		p := Load(LoadOpts{Dir: repoDir(), Patterns: []string{"./..."}, ModPath: modPath, MinPkgs: 13})
		r := NewReport("X", "quick")
		got := map[string]map[string]bool{}
		genAccessKeys = func(fn, d string) {
			if got[fn] == nil {
				got[fn] = map[string]bool{}
			}
			got[fn][d] = true
		}
		pk := map[string]bool{}
		for _, k := range []string{"font/opentype/tables", "font/cff", "font/opentype", "font", "font/cff/interpreter"} {
			pk[p.pkgPath(k)] = true
		}
		ruleGenReaders(p, r, "R-GEN", func(f *ssa.Function) bool { return fnPkg(f) != nil && pk[fnPkg(f).Path()] }, rgenNotClaimed, 1)
		var fns []string
		for fn := range got {
			fns = append(fns, fn)
		}
		sort.Strings(fns)
		fmt.Println("var rgenNotClaimedAccess = map[string][]string{")
		for _, fn := range fns {
			var ds []string
			for d := range got[fn] {
				ds = append(ds, d)
			}
			sort.Strings(ds)
			fmt.Printf("\t%q: {", fn)
			for i, d := range ds {
				if i > 0 {
					fmt.Print(", ")
				}
				fmt.Printf("%q", d)
			}
			fmt.Println("},")
		}
		fmt.Println("}")
		os.Exit(0)
	}
}

func init() {
	// vsa nilsites: invoke-mode calls on interface types declared in font/opentype/tables, with the origin of the receiver
	if len(os.Args) > 1 && os.Args[1] == "nilsites" {
		p := Load(LoadOpts{Dir: repoDir(), Patterns: []string{"./..."}, ModPath: modPath, MinPkgs: 13})
		tp := p.pkgPath("font/opentype/tables")
		count := map[string]int{}
		var lines []string
		for _, f := range p.ModFns() {
			for _, b := range f.Blocks {
				for _, in := range b.Instrs {
					c, ok := in.(ssa.CallInstruction)
					if !ok || !c.Common().IsInvoke() {
						continue
					}
					nt, ok := c.Common().Value.Type().(*types.Named)
					if !ok || nt.Obj().Pkg() == nil || nt.Obj().Pkg().Path() != tp {
						continue
					}
					ch, root := fieldChain(c.Common().Value, 0)
					org := fmt.Sprintf("%T", root)
					fs := ""
					for _, v := range ch {
						fs += "." + v.Name()
					}
					if len(ch) > 0 {
						own := ""
						if ch[len(ch)-1].Pkg() != nil {
							own = ch[len(ch)-1].Pkg().Name()
						}
						fs = own + fs
					}
					lines = append(lines, fmt.Sprintf("%s\t%s\t%s.%s\t%s\t%s", p.IPos(in), p.FnName(f), nt.Obj().Name(), c.Common().Method.Name(), org, fs))
					count[nt.Obj().Name()]++
				}
			}
		}
		sort.Strings(lines)
		for _, l := range lines {
			fmt.Println(l)
		}
		fmt.Println(count)
		os.Exit(0)
	}
}

func init() {
	// vsa nil: the nullable fields found by R-NIL and the invoke sites left unprotected
	if len(os.Args) > 1 && os.Args[1] == "nil" {
		p := Load(LoadOpts{Dir: repoDir(), Patterns: []string{"./..."}, ModPath: modPath, MinPkgs: 13})
		newNilAnalysis(p, p.pkgPath("font/opentype/tables")).dump()
		os.Exit(0)
	}
}
