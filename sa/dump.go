package main

import (
	"fmt"
	"golang.org/x/tools/go/ssa"
	"os"
)

func init() {
	if len(os.Args) > 2 && os.Args[1] == "dump" {
		p := Load(LoadOpts{Dir: repoDir(), Patterns: []string{"./..."}, ModPath: modPath, MinPkgs: 13})
		switch os.Args[2] {
		case "sccs":
			for _, s := range recursiveSCCs(p) {
				fmt.Printf("SCC %s (%d fns, %d edges)\n", s.name, len(s.fns), len(s.edges))
				for _, f := range s.fns {
					fmt.Printf("   fn %s\n", p.FnName(f))
				}
				for _, e := range s.edges {
					fmt.Printf("   edge %s -> %s at %s\n", p.FnName(e.caller), p.FnName(e.callee), p.IPos(e.site))
				}
			}
		}
		os.Exit(0)
	}
}

func init() {
	if len(os.Args) > 4 && os.Args[1] == "callees" {
		p := Load(LoadOpts{Dir: repoDir(), Patterns: []string{"./..."}, ModPath: modPath, MinPkgs: 13})
		f := p.Func(os.Args[2], os.Args[3], os.Args[4])
		for _, b := range f.Blocks {
			for _, in := range b.Instrs {
				if c, ok := in.(ssa.CallInstruction); ok {
					fmt.Printf("%s: %v ->", p.IPos(in), in)
					for _, g := range p.Callees(c) {
						fmt.Printf(" %s(pure=%v)", p.FnName(g), pureFn(g))
					}
					fmt.Println()
				}
			}
		}
		os.Exit(0)
	}
}

func init() {
	if len(os.Args) > 4 && os.Args[1] == "ssa" {
		p := Load(LoadOpts{Dir: repoDir(), Patterns: []string{"./..."}, ModPath: modPath, MinPkgs: 13})
		f := p.Func(os.Args[2], os.Args[3], os.Args[4])
		if len(os.Args) > 5 { // print callees' bodies of invoke named os.Args[5]
			for _, b := range f.Blocks {
				for _, in := range b.Instrs {
					if c, ok := in.(ssa.CallInstruction); ok && c.Common().IsInvoke() && c.Common().Method.Name() == os.Args[5] {
						for _, g := range p.Callees(c) {
							g.WriteTo(os.Stdout)
						}
						os.Exit(0)
					}
				}
			}
		}
		f.WriteTo(os.Stdout)
		os.Exit(0)
	}
}
