package main

// rloop.go — R-LOOP: loops that follow links taken from data (the next position is loaded from memory or decoded from
// bytes rather than stepped by a constant) must have a counted exit, otherwise a cycle in the data never ends.

import (
	"fmt"
	"go/token"
	"sort"

	"golang.org/x/tools/go/ssa"
)

type natLoop struct {
	header *ssa.BasicBlock
	blocks map[*ssa.BasicBlock]bool
}

func naturalLoops(f *ssa.Function) []*natLoop {
	byHeader := map[*ssa.BasicBlock]*natLoop{}
	for _, b := range f.Blocks {
		for _, s := range b.Succs {
			if s.Dominates(b) { // back edge b -> s
				l := byHeader[s]
				if l == nil {
					l = &natLoop{header: s, blocks: map[*ssa.BasicBlock]bool{s: true}}
					byHeader[s] = l
				}
				stack := []*ssa.BasicBlock{b}
				for len(stack) > 0 {
					x := stack[len(stack)-1]
					stack = stack[:len(stack)-1]
					if l.blocks[x] {
						continue
					}
					l.blocks[x] = true
					stack = append(stack, x.Preds...)
				}
			}
		}
	}
	var out []*natLoop
	for _, l := range byHeader {
		out = append(out, l)
	}
	sort.Slice(out, func(i, j int) bool { return out[i].header.Index < out[j].header.Index })
	return out
}

// dataLink: the value is decoded from bytes or loaded from memory, and its arithmetic cone (conversions, binary operations,
// phis — not looking through loads and calls) contains no header phi of the loop: the next position is taken from the data,
// not stepped from the current one.
func dataLink(v ssa.Value, l *natLoop, d int) (isData bool, usesPhi bool) {
	if d > 8 {
		return false, true
	}
	switch x := v.(type) {
	case *ssa.Convert:
		return dataLink(x.X, l, d+1)
	case *ssa.ChangeType:
		return dataLink(x.X, l, d+1)
	case *ssa.Call:
		if sc := x.Common().StaticCallee(); sc != nil && fnPkg(sc) != nil && fnPkg(sc).Path() == "encoding/binary" {
			return true, false
		}
		return false, false
	case *ssa.UnOp:
		if x.Op == token.MUL {
			switch x.X.(type) {
			case *ssa.IndexAddr, *ssa.FieldAddr:
				return true, false
			}
			return false, false
		}
		return dataLink(x.X, l, d+1)
	case *ssa.Field, *ssa.Index, *ssa.Lookup:
		return true, false
	case *ssa.BinOp:
		d1, p1 := dataLink(x.X, l, d+1)
		d2, p2 := dataLink(x.Y, l, d+1)
		return d1 || d2, p1 || p2
	case *ssa.Phi:
		if x.Block() == l.header {
			return false, true
		}
		anyD, anyP := false, false
		for _, e := range x.Edges {
			dd, pp := dataLink(e, l, d+1)
			anyD = anyD || dd
			anyP = anyP || pp
		}
		return anyD, anyP
	}
	return false, false
}

// usedAsPosition: the phi selects what is read next inside the loop (index, key or slice bound).
func usedAsPosition(ph *ssa.Phi, l *natLoop) bool {
	seen := map[ssa.Value]bool{}
	var walk func(v ssa.Value, d int) bool
	walk = func(v ssa.Value, d int) bool {
		if d > 5 || seen[v] {
			return false
		}
		seen[v] = true
		refs := v.Referrers()
		if refs == nil {
			return false
		}
		for _, in := range *refs {
			if !l.blocks[in.Block()] {
				continue
			}
			switch x := in.(type) {
			case *ssa.IndexAddr:
				if x.Index == v {
					return true
				}
			case *ssa.Index:
				if x.Index == v {
					return true
				}
			case *ssa.Lookup:
				if x.Index == v {
					return true
				}
			case *ssa.Slice:
				if x.Low == v || x.High == v {
					return true
				}
			case *ssa.Convert:
				if walk(x, d+1) {
					return true
				}
			case *ssa.BinOp:
				if walk(x, d+1) {
					return true
				}
			case ssa.CallInstruction:
				// passed on as the position to a helper
				return true
			}
		}
		return false
	}
	return walk(ph, 0)
}

// countedExit: the loop has an exit test comparing a counter (a header phi stepped by a constant on every back edge) with a
// loop-invariant value, or ranges over a container (rangeindex / Next).
func countedExit(l *natLoop) bool {
	counters := map[ssa.Value]bool{}
	for _, in := range l.header.Instrs {
		ph, ok := in.(*ssa.Phi)
		if !ok {
			break
		}
		stepped := true
		nBack := 0
		for i, e := range ph.Edges {
			if !l.blocks[l.header.Preds[i]] {
				continue
			}
			nBack++
			bo, ok := stripConv(e).(*ssa.BinOp)
			if !ok || (bo.Op != token.ADD && bo.Op != token.SUB) {
				stepped = false
				continue
			}
			_, c1 := intConst(bo.Y)
			_, c2 := intConst(bo.X)
			if !((stripConv(bo.X) == ssa.Value(ph) && c1) || (stripConv(bo.Y) == ssa.Value(ph) && c2)) {
				// i += n with n from data still progresses but is not a constant step: accept only positive-constant steps
				stepped = false
			}
		}
		if stepped && nBack > 0 {
			counters[ph] = true
		}
	}
	for b := range l.blocks {
		iff := ifOf(b)
		if iff == nil {
			continue
		}
		exits := !l.blocks[b.Succs[0]] || !l.blocks[b.Succs[1]]
		if !exits {
			continue
		}
		// range loops: `ok` of a Next, or rangeindex comparison
		if ex, ok := iff.Cond.(*ssa.Extract); ok {
			if _, isNext := ex.Tuple.(*ssa.Next); isNext {
				return true
			}
		}
		bo, ok := iff.Cond.(*ssa.BinOp)
		if !ok {
			continue
		}
		for _, side := range []ssa.Value{stripConv(bo.X), stripConv(bo.Y)} {
			if counters[side] {
				return true
			}
			// counter + const compared (rangeindex loops compare the incremented value)
			if s, ok := side.(*ssa.BinOp); ok && (counters[stripConv(s.X)] || counters[stripConv(s.Y)]) {
				return true
			}
		}
	}
	return false
}

func ruleLoop(p *Prog, r *Report, pkgs []string) {
	const rule = "R-LOOP"
	inPkg := map[string]bool{}
	for _, k := range pkgs {
		inPkg[p.pkgPath(k)] = true
	}
	nLoops, nLink := 0, 0
	for _, f := range p.ModFns() {
		if fnPkg(f) == nil || !inPkg[fnPkg(f).Path()] {
			continue
		}
		for _, l := range naturalLoops(f) {
			nLoops++
			var link *ssa.Phi
			for _, in := range l.header.Instrs {
				ph, ok := in.(*ssa.Phi)
				if !ok {
					break
				}
				for i, e := range ph.Edges {
					if !l.blocks[l.header.Preds[i]] {
						continue
					}
					if isData, usesPhi := dataLink(e, l, 0); isData && !usesPhi && usedAsPosition(ph, l) {
						link = ph
					}
				}
			}
			if link == nil {
				continue
			}
			nLink++
			key := fmt.Sprintf("%s/loop@%s", p.FnName(f), link.Comment)
			r.Instance(rule, key)
			r.Check(countedExit(l), rule, key, p.IPos(link), fmt.Sprintf("the loop re-assigns %q from data on its back edge; it has a counted exit, so a cycle in the data cannot keep it running", link.Comment))
		}
	}
	r.Count("loops_examined", nLoops)
	r.Count("link_following_loops", nLink)
}
