package main

// rscratch.go — R-SCRATCH: a scratch map kept in a reusable object and lent to helpers is emptied before it is used.

import (
	"fmt"
	"go/types"
	"sort"

	"golang.org/x/tools/go/ssa"
)

// ruleScratchReset: the map held in holder.field is scratch storage that survives from one use of the holder to the next
// (R-INV exempts it from invalidation for that reason). Every function that receives it as an argument uses it — reads it,
// updates it, ranges over it, hands it to another function — only after having called its reset method on it, on every
// path; a function may instead drop the parameter for a fresh map. Otherwise the entries of the previous use take part in
// the next one.
func ruleScratchReset(p *Prog, r *Report, pkg, holder, field, reset string, floor int) {
	const rule = "R-SCRATCH"
	fld := p.Field(pkg, holder, field)
	mt := namedOf(fld.Type())
	if mt == nil {
		undecided("R-SCRATCH: %s.%s has no named type", holder, field)
	}
	resetFn := p.Func(pkg, mt.Obj().Name(), reset)
	// (callee, parameter index) pairs that receive the field
	type tgt struct {
		f *ssa.Function
		i int
	}
	seen := map[tgt]bool{}
	var tgts []tgt
	for _, f := range p.ModFns() {
		if fnPkg(f) == nil || fnPkg(f).Path() != p.pkgPath(pkg) {
			continue
		}
		for _, b := range f.Blocks {
			for _, in := range b.Instrs {
				call, ok := in.(*ssa.Call)
				if !ok {
					continue
				}
				sc := call.Common().StaticCallee()
				if sc == nil || sc.Blocks == nil || sc == resetFn {
					continue
				}
				for i, a := range call.Common().Args {
					if (isLoadOfField(a, fld) || fieldOf(a) == fld) && i < len(sc.Params) && !seen[tgt{sc, i}] {
						seen[tgt{sc, i}] = true
						tgts = append(tgts, tgt{sc, i})
					}
				}
			}
		}
	}
	sort.Slice(tgts, func(i, j int) bool { return tgts[i].f.String() < tgts[j].f.String() })
	// check(f, i): where the first use that is not preceded by a reset is, or "". A use that only hands the parameter to
	// another function which itself empties it before use needs no reset here.
	memo := map[tgt]string{}
	var check func(f *ssa.Function, i int, depth int) (string, []string)
	check = func(f *ssa.Function, i int, depth int) (string, []string) {
		if v, ok := memo[tgt{f, i}]; ok {
			return v, nil
		}
		memo[tgt{f, i}] = "" // recursion: assume fine
		par := f.Params[i]
		isReset := func(in ssa.Instruction) bool {
			c, ok := in.(*ssa.Call)
			return ok && c.Common().StaticCallee() == resetFn && len(c.Common().Args) > 0 && c.Common().Args[0] == ssa.Value(par)
		}
		bad := ""
		var path []string
		if refs := par.Referrers(); refs != nil {
			for _, u := range *refs {
				if _, isDbg := u.(*ssa.DebugRef); isDbg || isReset(u) {
					continue
				}
				if c, isCall := u.(*ssa.Call); isCall && depth < 3 {
					if sc := c.Common().StaticCallee(); sc != nil && sc.Blocks != nil && sc != resetFn {
						forwards := true
						for j, a := range c.Common().Args {
							if a != ssa.Value(par) {
								continue
							}
							if j >= len(sc.Params) {
								forwards = false
							} else if w, _ := check(sc, j, depth+1); w != "" {
								forwards = false
							}
						}
						if forwards {
							continue
						}
					}
				}
				if ok, pth := mustPrecede(p, f, u, isReset, nil); !ok {
					bad = p.IPos(u)
					path = pth
				}
			}
		}
		memo[tgt{f, i}] = bad
		return bad, path
	}
	for _, t := range tgts {
		key := fmt.Sprintf("%s(%s)", p.FnName(t.f), t.f.Params[t.i].Name())
		r.Instance(rule, key)
		bad, path := check(t.f, t.i, 0)
		r.Check(bad == "", rule, key, p.Pos(t.f.Pos()), fmt.Sprintf("the scratch storage %s.%s lent to this function is emptied (%s) before every use of it, here or in the function it is handed to", holder, field, reset)+pref(bad), path...)
	}
	r.Floor(rule, len(tgts), floor)
	_ = types.Identical
}
