#!/bin/sh
# Builds the analysis driver from files on disk only (x/tools v0.29.0 is vendored under sa/vendor).
set -e
cd "$(dirname "$0")/sa"
mkdir -p ../bin ../evidence
env GOFLAGS=-mod=vendor GOPROXY=off GOSUMDB=off GOTOOLCHAIN=local GOWORK=off CGO_ENABLED=0 go build -o ../bin/vsa .
echo "built $(cd .. && pwd)/bin/vsa"
