#!/bin/sh
# usage: check.sh <Cxx> [quick|thorough]   (cwd = /verif). Rebuilds the driver if missing, analyses /repo's working tree.
cd "$(dirname "$0")"
[ -x bin/vsa ] || sh ./setup.sh >/dev/null || exit 2
exec ./bin/vsa check "$1" --tier "${2:-${VERIF_TIER:-quick}}"
